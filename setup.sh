#!/bin/sh
# MANIFEST.setup_cmd: offline install of the few third-party packages the checks need
# into /verif/.deps (never touches /venv or /repo).  Idempotent.
set -e
HERE="$(cd "$(dirname "$0")" && pwd)"
DEPS="$HERE/.deps"
WH=/opt/veriftools/wheels
PY=/venv/bin/python
mkdir -p "$DEPS"
need() { # need <import-name> <pip names...>
  mod="$1"; shift
  if ! PYTHONPATH="$DEPS" "$PY" -c "import $mod" >/dev/null 2>&1; then
    PIP_NO_INDEX=1 "$PY" -m pip install --quiet --no-index --no-deps --find-links "$WH" --target "$DEPS" --upgrade "$@" || echo "setup: could not install $* (optional)" >&2
  fi
}
need sortedcontainers sortedcontainers
need attr attrs
need hypothesis hypothesis
need scipy scipy
need typing_extensions typing_extensions
need rpds rpds_py
need referencing referencing
need jsonschema_specifications jsonschema_specifications
need jsonschema jsonschema
need atheris atheris
PYTHONPATH="$DEPS" "$PY" -c "import hypothesis, torch, einops, numpy; import inferno" 
touch "$DEPS/.ok"
echo "setup ok"

"""C20 — numerical helpers are self-consistent: interp/extrap, distributions, ISI, metric.

Legs
  interp : matching extrapolation/interpolation pairs round-trip the sample; linear
           interpolation stays between (and at the ends equals) the brackets;
           previous/next/nearest return one of the brackets
  dist   : Poisson / Normal / LogNormal: exp(log f) = f, sum/integral of f = cdf differences
           and -> 1, logcdf = log(cdf), stated mean/variance = numerical moments of f,
           params_mv round trip, scipy.stats as second opinion
  isi    : inferno.isi == per-train diffs of spike times (NaN padded), and
           first spike + cumsum(isi) re-creates the spike times
  vp     : victor_purpura_pair_dist == textbook DP; metric laws and documented cost limits
Oracles: pbt.models.numhelp (no inferno import) + the algebraic identities themselves.
"""

from __future__ import annotations

import math
from fractions import Fraction

import numpy as np
import torch
from hypothesis import strategies as st

from ..harness import Leg, check, impl
from ..models import numhelp as M

TD = {"float32": torch.float32, "float64": torch.float64, "int64": torch.int64}
ND = {"float32": np.float32, "float64": np.float64, "int64": np.int64}
TINY = {"float32": 1e-36, "float64": 1e-300}  # below this the working dtype is subnormal
EPS = {"float32": float(np.finfo(np.float32).eps), "float64": float(np.finfo(np.float64).eps)}


def _np(t: torch.Tensor) -> np.ndarray:
    return t.detach().to(torch.float64).numpy()


def _cyc(pool, n):
    return [pool[j % len(pool)] for j in range(n)]


# =============================================================================== interp leg

# (extrapolation, interpolation) pairs that the documented closed forms make inverse
PAIRS = [
    ("previous", "previous"),
    ("next", "next"),
    ("nearest", "nearest"),
    ("neighbors", "previous"),
    ("neighbors", "next"),
    ("neighbors", "nearest"),
    ("neighbors", "linear"),
    ("linear_forward", "linear"),
    ("linear_backward", "linear"),
    ("expdecay", "expdecay"),
    ("expratedecay", "expratedecay"),
]
EXACT_PAIRS = {0, 1, 2, 3, 4, 5, 6}  # values are selected (or x + 0), never rounded
SELECT_PAIRS = {0, 1, 2, 3, 4, 5}  # both functions only select among their inputs (no arithmetic)
NONFIN = {"inf": float("inf"), "-inf": float("-inf"), "nan": float("nan")}
ADJ = {
    "none": None,
    "half": lambda x: x * 0.5,
    "neg": lambda x: -x,
    "shift": lambda x: x + 1.0,
}
AMP_MAX = 64  # linear extrapolation divides by t_s (forward) / dt - t_s (backward)


def _ts_value(spec, dt, dtype):
    """time inside [0, dt] as the float of the working dtype that the functions will see"""
    if spec[0] == "f":
        v = dt * spec[1] / spec[2]
    elif spec[0] == "n":
        # distance 10^-k * dt from the singular end of the linear extrapolation in use (strictly inside)
        d = 10.0 ** (-int(spec[1]))
        v = dt * (1.0 - d) if spec[2] == "hi" else dt * d
    else:
        v = dt * spec[1]
    v = ND[dtype](v)
    if float(v) > dt:  # float32 rounding of a non-representable dt: stay inside [0, dt]
        v = np.nextafter(v, ND[dtype](0))
    return v


def _half_class(ts: float, dt: float, dtype: str):
    """'lo' | 'hi' | 'half' (exactly half, decisive) | 'amb' for the nearest rule t_s > dt/2"""
    fts, fdt = Fraction(float(ts)), Fraction(float(dt))
    if fdt == 0:
        return "amb"
    ratio = fts / fdt
    d = ratio - Fraction(1, 2)
    if d == 0:
        # exactly half: decisive only if dt is exact in the working dtype (no rounding anywhere)
        return "half" if float(ND[dtype](dt)) == dt else "amb"
    if abs(d) <= Fraction(1, 100000):
        return "amb"
    return "hi" if d > 0 else "lo"


def run_interp(case):
    import inferno.functional as F

    dtype = case["dtype"]
    shape = tuple(case["shape"])
    n = int(np.prod(shape)) if shape else 1
    dt = float(case["dt"])
    en, inn = PAIRS[case["pair"] % len(PAIRS)]
    pair_ix = case["pair"] % len(PAIRS)
    eps = EPS[dtype]

    prev = np.array(_cyc(case["prev"], n), dtype=ND[dtype]).reshape(shape)
    nxt = np.array(_cyc(case["next"], n), dtype=ND[dtype]).reshape(shape)
    smp = np.array(_cyc(case["sample"], n), dtype=ND[dtype]).reshape(shape)
    # non-finite bracket values (records hold inf / nan in never-written or initial slots) for the
    # SELECTION-type pairs only; the sample stays finite.  Nothing is asserted about the arithmetic
    # (linear / exponential) functions on such brackets.
    nonfin = case.get("nonfinite") if pair_ix in SELECT_PAIRS else None
    if nonfin:
        for arr, key in ((prev, "prev"), (nxt, "next")):
            flat = arr.reshape(-1)
            for j, v in enumerate(_cyc(nonfin[key], n)):
                if v is not None:
                    flat[j] = NONFIN[v]

    specs = _cyc(case["ts"], n)
    if case["scalar_ts"]:
        specs = [specs[0]] * n
    # documented divisions: linear_forward needs t_s > 0, linear_backward t_s < dt; keep the
    # amplification dt/t_s (resp. dt/(dt - t_s)) bounded so a float tolerance can be stated
    # float32: stay dt/AMP_MAX away from the singular end.  float64: any time strictly inside the step is
    # asserted with a tolerance conditioned on the actual amplification (near-end stratum 1e-3 .. 1e-9 dt)
    near_end = False
    fixed = []
    for s in specs:
        if s[0] == "n":
            s = ["n", s[1], "hi" if en == "linear_backward" else "lo"]
        v = _ts_value(s, dt, dtype)
        if en == "linear_forward":
            if float(v) <= 0.0 or (dtype == "float32" and float(v) < dt / AMP_MAX):
                v = _ts_value(["f", 1, 4], dt, dtype)
            near_end |= float(v) < dt / AMP_MAX
        if en == "linear_backward":
            if float(v) >= dt or (dtype == "float32" and float(v) > dt * (1 - 1.0 / AMP_MAX)):
                v = _ts_value(["f", 3, 4], dt, dtype)
            near_end |= float(v) > dt * (1 - 1.0 / AMP_MAX)
        fixed.append(v)
    ts = np.array(fixed, dtype=ND[dtype]).reshape(shape)
    ts_arg = ts.reshape(-1)[0].reshape(()) if case["scalar_ts"] else ts

    tp, tn, tsmp = (torch.tensor(a, dtype=TD[dtype]) for a in (prev, nxt, smp))
    tts = torch.tensor(ts_arg, dtype=TD[dtype])
    tc = float(case["tconst"])
    kw = {}
    if en in ("expdecay",):
        kw = {"time_constant": tc * dt}
    elif en in ("expratedecay",):
        kw = {"rate_constant": 1.0 / (tc * dt)}
    ekw = dict(kw)
    adj = case.get("adjust", "none")
    if en.startswith("linear_") and adj != "none":
        ekw["adjust"] = ADJ[adj]

    extrap = getattr(F, "extrap_" + en)
    interp = getattr(F, "interp_" + inn)

    # ---- round trip: interpolate, at the time the sample was extrapolated from, between
    #      the two values the extrapolation produced
    with impl(f"extrap_{en}"):
        x0, x1 = extrap(tsmp, tts, tp, tn, dt, **ekw)
    with impl(f"interp_{inn} (round trip)"):
        back = interp(x0, x1, tts, dt, **kw)
    check(isinstance(back, torch.Tensor), "roundtrip:type", lambda: f"{en}/{inn}: {type(back)}")
    back = torch.broadcast_to(back, shape) if tuple(back.shape) != shape else back
    g = _np(back).reshape(shape)
    s64, p64, n64, t64 = (a.astype(np.float64) for a in (smp, prev, nxt, ts))

    amb = 0
    decisive = np.ones(shape, dtype=bool)
    if "nearest" in (en, inn):
        cls = np.array([_half_class(float(v), dt, dtype) for v in ts.reshape(-1)]).reshape(shape)
        decisive = cls != "amb"
        amb = int((~decisive).sum())
    if pair_ix in EXACT_PAIRS:
        tol = np.zeros(shape)
    elif en == "linear_forward":
        a_eff = _np(x0).reshape(shape)
        # X(dt) = p + (s-p)/t_s*dt carries an absolute error ~ eps |s-p| dt/t_s, which interp_linear multiplies
        # by t_s/dt again: no net amplification (measured <= 1.7 eps*mag over 4e5 draws down to t_s = 1e-9 dt);
        # the factor below is a generous cap
        tol = 16 * eps * (np.abs(a_eff) + np.abs(s64) + np.abs(n64)) * (1 + np.minimum(dt / t64, AMP_MAX)) + 1e-300
    elif en == "linear_backward":
        b_eff = _np(x1).reshape(shape)
        # X(0) = n - (n-s)/(dt-t_s)*dt has magnitude |n-s| A with A = dt/(dt-t_s); its rounding (and that of
        # slope*dt, (X(dt)-X(0))/dt*t_s with t_s/dt ~ 1, and the final sum) gives |error| <~ eps (3|n| + 9|n-s| A);
        # measured worst case over 4e5 float64 draws with A up to 1e9: 1.2 eps (|p|+|s|+|n|)(1+A)
        tol = 16 * eps * (np.abs(p64) + np.abs(s64) + np.abs(b_eff)) * (1 + dt / (dt - t64)) + 1e-300
    else:
        tol = 16 * eps * (1 + t64 / (tc * dt)) * np.abs(s64) + 1e-300
    with np.errstate(invalid="ignore"):
        bad = ~(np.abs(g - s64) <= tol) & decisive  # a NaN result is a mismatch
    check(
        not bad.any(),
        f"roundtrip:{en}/{inn}",
        lambda: f"extrap_{en} then interp_{inn} at t_s={ts.tolist()} dt={dt}: got {g.tolist()} "
                f"want sample {s64.tolist()} (prev {p64.tolist()} next {n64.tolist()} tol {np.max(tol):.3g})",
        info={"pair": f"{en}/{inn}"},
    )

    # ---- selection-type extrapolations hand back their inputs unchanged (X(0) is the sample or
    #      D(0), X(dt) the sample or D(dt)); in particular no NaN manufactured from inf * 0
    if en in ("previous", "next", "neighbors", "nearest"):
        for nm, xo, brk in (("X(0)", x0, p64), ("X(dt)", x1, n64)):
            check(isinstance(xo, torch.Tensor), "extrap:type", lambda: f"extrap_{en} {nm}: {type(xo)}")
            go = _np(torch.broadcast_to(xo, shape)).reshape(shape)
            check(bool((_same(go, s64) | _same(go, brk)).all()), f"extrap:select:{en}",
                  lambda: f"extrap_{en}(sample={s64.tolist()}, t_s={ts.tolist()}, prev={p64.tolist()}, next={n64.tolist()}, dt={dt}): "
                          f"{nm} = {go.tolist()} is neither the sample nor the bracket value")

    # ---- linear interpolation between the brackets, equal to them at the ends
    if nonfin:
        return _interp_tail(case, F, tp, tn, tts, dt, shape, p64, n64, s64, t64, ts, decisive, en, inn, dtype, amb, True, near_end)
    with impl("interp_linear"):
        lin = F.interp_linear(tp, tn, tts, dt)
        lin0 = F.interp_linear(tp, tn, torch.zeros_like(tts), dt)
        tend = torch.full_like(tts, float(_ts_value(["f", 1, 1], dt, dtype)))
        lin1 = F.interp_linear(tp, tn, tend, dt)
    lo, hi = np.minimum(p64, n64), np.maximum(p64, n64)
    btol = 8 * eps * np.maximum(np.abs(p64), np.abs(n64)) + 1e-300
    gl = _np(torch.broadcast_to(lin, shape)).reshape(shape)
    check(
        bool(((gl >= lo - btol) & (gl <= hi + btol)).all()),
        "linear:outside",
        lambda: f"interp_linear(prev={p64.tolist()}, next={n64.tolist()}, t_s={ts.tolist()}, dt={dt}) = "
                f"{gl.tolist()} leaves [min, max]",
    )
    g0 = _np(torch.broadcast_to(lin0, shape)).reshape(shape)
    g1 = _np(torch.broadcast_to(lin1, shape)).reshape(shape)
    check(bool((np.abs(g0 - p64) <= btol).all()), "linear:end0",
          lambda: f"interp_linear at t_s=0: {g0.tolist()} != prev {p64.tolist()}")
    check(bool((np.abs(g1 - n64) <= btol).all()), "linear:end1",
          lambda: f"interp_linear at t_s=dt={dt}: {g1.tolist()} != next {n64.tolist()}")

    return _interp_tail(case, F, tp, tn, tts, dt, shape, p64, n64, s64, t64, ts, decisive, en, inn, dtype, amb, False, near_end)


def _same(a, b):
    """element-wise equality that treats NaN as equal to NaN"""
    with np.errstate(invalid="ignore"):
        return (a == b) | (np.isnan(a) & np.isnan(b))


def _interp_tail(case, F, tp, tn, tts, dt, shape, p64, n64, s64, t64, ts, decisive, en, inn, dtype, amb, nonfin, near_end=False):
    # ---- positional interpolations return one of the brackets
    for name in ("previous", "next", "nearest"):
        with impl("interp_" + name):
            r = getattr(F, "interp_" + name)(tp, tn, tts, dt)
        gr = _np(torch.broadcast_to(r, shape)).reshape(shape)
        check(
            bool((_same(gr, p64) | _same(gr, n64)).all()),
            f"bracket:{name}",
            lambda: f"interp_{name} returned {gr.tolist()}, brackets {p64.tolist()} / {n64.tolist()}",
        )

    adj = case.get("adjust", "none")
    inside = (t64 > 0) & (t64 < dt) & decisive
    with np.errstate(invalid="ignore"):
        distinct = ~_same(p64, n64) & (s64 != p64) & (s64 != n64)
    nt = bool((inside & distinct).any())
    cls = [f"pair={en}/{inn}", f"dtype={dtype}", f"rank={len(shape)}"]
    if (t64 == 0).any():
        cls.append("ts=0")
    if (t64 == dt).any():
        cls.append("ts=dt")
    if "nearest" in (en, inn) and (np.array([_half_class(float(v), dt, dtype) for v in ts.reshape(-1)]) == "half").any():
        cls.append("nearest:exact-half")
    if adj != "none" and en.startswith("linear_"):
        cls.append("adjust")
    if near_end:
        cls.append(f"{en}:near-singular-end")
    if nonfin:
        cls.append("nonfinite-bracket")
        if np.isnan(p64).any() or np.isnan(n64).any():
            cls.append("nan-bracket")
        if np.isinf(p64).any() or np.isinf(n64).any():
            cls.append("inf-bracket")
    return {"nt": nt, "cls": cls, "amb": amb}


_val = st.one_of(
    st.sampled_from([-3.0, -1.5, -0.5, 0.0, 0.25, 0.5, 1.0, 2.0, 2.5, 7.0]),
    st.floats(-100.0, 100.0, allow_nan=False, width=32).map(lambda v: round(v, 3)),
)
_tsspec = st.one_of(
    st.sampled_from([["f", 0, 1], ["f", 1, 1], ["f", 1, 2], ["f", 1, 4], ["f", 3, 4], ["f", 1, 8],
                     ["f", 7, 8], ["f", 1, 3], ["f", 2, 3], ["f", 1, 64], ["f", 63, 64]]),
    st.tuples(st.just("r"), st.floats(0.0, 1.0, allow_nan=False).map(lambda v: round(v, 4))).map(list),
)


_nf = st.sampled_from([None, None, "inf", "-inf", "nan"])
_near = st.sampled_from([["n", 3], ["n", 5], ["n", 7], ["n", 9]])


@st.composite
def interp_case(draw, tier="quick"):
    c = _interp_base(draw)
    if PAIRS[c["pair"]][0] in ("linear_forward", "linear_backward") and draw(st.integers(0, 2)) == 0:
        # float64 only: sample times 1e-3 .. 1e-9 dt away from (never at) the singular end of the extrapolation
        c["dtype"] = "float64"
        c["ts"] = draw(st.lists(st.one_of(_near, _near, _tsspec), min_size=1, max_size=6))
        if not any(t[0] == "n" for t in c["ts"]):
            c["ts"][0] = ["n", 7]
    if c["pair"] in SELECT_PAIRS and draw(st.integers(0, 2)) == 0:
        c["nonfinite"] = {"prev": draw(st.lists(_nf, min_size=1, max_size=4)),
                          "next": draw(st.lists(_nf, min_size=1, max_size=4))}
        if all(v is None for v in c["nonfinite"]["prev"] + c["nonfinite"]["next"]):
            c["nonfinite"]["next"][0] = "nan"
    return c


def _interp_base(draw):
    return {
        "dtype": draw(st.sampled_from(["float32", "float32", "float64"])),
        "shape": draw(st.sampled_from([[], [1], [3], [2, 3], [3], [4, 2]])),
        "dt": draw(st.sampled_from([1.0, 0.5, 0.25, 2.0, 1.3, 0.1, 0.7, 3.0])),
        "pair": draw(st.integers(0, len(PAIRS) - 1)),
        "prev": draw(st.lists(_val, min_size=1, max_size=6)),
        "next": draw(st.lists(_val, min_size=1, max_size=6)),
        "sample": draw(st.lists(_val, min_size=1, max_size=6)),
        "ts": draw(st.lists(_tsspec, min_size=1, max_size=6)),
        "scalar_ts": draw(st.integers(0, 3)) == 0,
        "tconst": draw(st.sampled_from([0.125, 0.5, 1.0, 2.0, 20.0, 3.7])),
        "adjust": draw(st.sampled_from(["none", "none", "half", "neg", "shift"])),
    }


# =============================================================================== dist leg


def _arg(val, form, dtype):
    """python float | 0-dim tensor | (1,) tensor form of a parameter"""
    if form == "float":
        return float(val)
    if form == "t0":
        return torch.tensor(float(val), dtype=TD[dtype])
    return torch.tensor([float(val)], dtype=TD[dtype])


def _close(got, want, atol, rtol=0.0):
    """|got - want| <= atol + rtol |want| element-wise (rtol may be an array); equal infinities agree"""
    got = np.asarray(got, dtype=np.float64)
    want = np.asarray(want, dtype=np.float64)
    with np.errstate(invalid="ignore"):
        tol = atol + rtol * np.where(np.isfinite(want), np.abs(want), 0.0)
    both_inf = np.isinf(got) & np.isinf(want) & (np.sign(got) == np.sign(want))
    with np.errstate(invalid="ignore"):
        ok = (np.abs(got - want) <= tol) | both_inf
    return ok


def _worst(got, want, ok, xs):
    i = int(np.argmin(ok))
    return f"first mismatch at support={np.asarray(xs).reshape(-1)[i]!r}: got {np.asarray(got).reshape(-1)[i]!r} want {np.asarray(want).reshape(-1)[i]!r}"


def _dist_poisson_zero(case):
    """rate == 0: Poisson.validate documents it as valid (the degenerate distribution, all mass at
    k = 0) and logpmf uses xlogy for exactly this case.  Only identities that the documented formulas
    define there: pmf = [1, 0, 0, ...], log pmf = [0, -inf, ...], cdf = 1, mean = variance = 0."""
    from inferno.stats import Poisson

    dtype = case["dtype"]
    eps = EPS[dtype]
    K = 15
    k = np.arange(K + 1)
    kt = torch.tensor(k, dtype=TD[dtype])
    rate = _arg(0.0, case["form"], dtype)
    what = f"Poisson(rate=0, {dtype}, rate as {case['form']})"
    with impl("Poisson.pmf/logpmf/cdf/logcdf at rate 0"):
        pmf = Poisson.pmf(kt, rate)
        lpmf = Poisson.logpmf(kt, rate)
        cdf = Poisson.cdf(kt, rate)
        lcdf = Poisson.logcdf(kt, rate)
        mean = Poisson.mean(rate)
        var = Poisson.variance(rate)
    for nm, t in (("pmf", pmf), ("logpmf", lpmf), ("cdf", cdf), ("logcdf", lcdf)):
        check(tuple(t.shape) == (K + 1,) and t.dtype == TD[dtype], f"poisson:{nm}:shape",
              lambda: f"{what}: {nm} shape {tuple(t.shape)} dtype {t.dtype}, want ({K + 1},) {dtype}")
    pmf, lpmf, cdf, lcdf = map(_np, (pmf, lpmf, cdf, lcdf))
    gm, gv = float(_np(mean).reshape(-1)[0]), float(_np(var).reshape(-1)[0])
    for nm, a in (("pmf", pmf), ("logpmf", lpmf), ("cdf", cdf), ("logcdf", lcdf), ("mean", np.array([gm])), ("variance", np.array([gv]))):
        check(not np.isnan(a).any(), "poisson:rate0:nan", lambda: f"{what}: {nm} contains NaN: {a.tolist()}", info={"fn": nm})
    tol = 8 * eps
    ref = M.poisson_ref(k, 0.0)  # scipy: pmf [1, 0, ...], cdf 1
    want_pmf = np.zeros(K + 1)
    want_pmf[0] = 1.0
    ok = _close(pmf, want_pmf, tol) & _close(pmf, ref["pmf"], tol)
    check(ok.all(), "poisson:rate0:pmf", lambda: f"{what}: pmf = {pmf.tolist()}, want all mass at k = 0")
    with np.errstate(over="ignore"):
        elp = np.exp(lpmf)  # -inf -> 0
    ok = _close(elp, pmf, tol)
    check(ok.all(), "poisson:exp-logpmf", lambda: f"{what}: exp(logpmf) = {elp.tolist()} != pmf = {pmf.tolist()}")
    check(abs(lpmf[0]) <= tol and bool((lpmf[1:] == -np.inf).all()), "poisson:rate0:logpmf",
          lambda: f"{what}: logpmf = {lpmf.tolist()}, want [0, -inf, -inf, ...]")
    cs = np.cumsum(pmf)
    ok = _close(cs, cdf, 4 * tol)
    check(ok.all(), "poisson:sum-cdf", lambda: f"{what}: sum_(j<=k) pmf(j) != cdf(k); " + _worst(cs, cdf, ok, k))
    check(abs(cs[-1] - 1.0) <= 4 * tol, "poisson:sum-one", lambda: f"{what}: pmf sums to {cs[-1]!r}")
    ok = _close(cdf, np.ones(K + 1), tol) & _close(cdf, ref["cdf"], tol)
    check(ok.all(), "poisson:rate0:cdf", lambda: f"{what}: cdf = {cdf.tolist()}, want 1 everywhere")
    ok = _close(lcdf, np.log(np.maximum(cdf, 1e-300)), tol)
    check(ok.all(), "poisson:logcdf", lambda: f"{what}: logcdf = {lcdf.tolist()} != log(cdf)")
    m1 = float((k * pmf).sum())
    m2 = float((k * k * pmf).sum()) - m1 * m1
    check(abs(gm) <= tol and abs(gm - m1) <= 4 * tol, "poisson:mean", lambda: f"{what}: mean() = {gm!r}, first moment of pmf = {m1!r}, want 0")
    check(abs(gv) <= tol and abs(gv - m2) <= 4 * tol, "poisson:variance", lambda: f"{what}: variance() = {gv!r}, second central moment of pmf = {m2!r}, want 0")
    # all-python-scalar calls
    k0 = int(case["k0"]) % (K + 1)
    with impl("Poisson.pmf/cdf(float, 0.0)"):
        p0 = float(Poisson.pmf(float(k0), 0.0))
        c0 = float(Poisson.cdf(float(k0), 0.0))
    check(p0 == p0 and abs(p0 - want_pmf[k0]) <= 8 * EPS["float32"], "poisson:rate0:pmf",
          lambda: f"Poisson.pmf({float(k0)}, 0.0) = {p0!r}, want {want_pmf[k0]!r}")
    check(c0 == c0 and abs(c0 - 1.0) <= 8 * EPS["float32"], "poisson:rate0:cdf", lambda: f"Poisson.cdf({float(k0)}, 0.0) = {c0!r}, want 1.0")
    return {"nt": False, "cls": ["poisson", f"dtype={dtype}", "rate=0"]}


def _dist_poisson(case):
    from inferno.stats import Poisson

    if float(case["rate"]) == 0.0:
        return _dist_poisson_zero(case)
    dtype = case["dtype"]
    eps = EPS[dtype]
    lam = float(ND[dtype](case["rate"]))  # the value the implementation sees
    K = int(lam + 12 * math.sqrt(lam) + 15)
    k = np.arange(K + 1)
    kt = torch.tensor(k, dtype=TD[dtype])
    rate = _arg(lam, case["form"], dtype)
    with impl("Poisson.pmf/logpmf/cdf/logcdf"):
        pmf = Poisson.pmf(kt, rate)
        lpmf = Poisson.logpmf(kt, rate)
        cdf = Poisson.cdf(kt, rate)
        lcdf = Poisson.logcdf(kt, rate)
        mean = Poisson.mean(rate)
        var = Poisson.variance(rate)
    for nm, t in (("pmf", pmf), ("logpmf", lpmf), ("cdf", cdf), ("logcdf", lcdf)):
        check(tuple(t.shape) == (K + 1,) and t.dtype == TD[dtype], f"poisson:{nm}:shape",
              lambda: f"{nm}: shape {tuple(t.shape)} dtype {t.dtype}, want ({K + 1},) {dtype}")
    pmf, lpmf, cdf, lcdf = map(_np, (pmf, lpmf, cdf, lcdf))
    ref = M.poisson_ref(k, lam)
    lg = np.array([math.lgamma(x + 1.0) for x in k])
    mag = np.abs(k * math.log(lam)) + lam + lg  # size of the terms of the log-pmf
    ltol = 8 * eps * (mag + 1)
    what = f"Poisson(rate={lam!r}, {dtype}, rate as {case['form']})"

    ok = _close(np.exp(lpmf), pmf, TINY[dtype], 8 * eps * (1 + np.abs(lpmf)))
    check(ok.all(), "poisson:exp-logpmf", lambda: f"{what}: exp(logpmf) != pmf; " + _worst(np.exp(lpmf), pmf, ok, k))
    ok = _close(lpmf, ref["logpmf"], ltol)
    check(ok.all(), "poisson:logpmf-ref", lambda: f"{what}: logpmf != k log(rate) - rate - log(k!); " + _worst(lpmf, ref["logpmf"], ok, k))
    ok = _close(pmf, ref["pmf"], 1e-300 + 1e-30, 2 * ltol.max())
    check(ok.all(), "poisson:pmf-ref", lambda: f"{what}: pmf != scipy; " + _worst(pmf, ref["pmf"], ok, k))
    ctol = 64 * eps + 2e-9  # regularised incomplete gamma: ~4e-10 absolute in float64 (measured against scipy)
    stol = ctol + 2 * ltol.max()
    cs = np.cumsum(pmf)
    ok = _close(cs, cdf, stol)
    check(ok.all(), "poisson:sum-cdf", lambda: f"{what}: sum_(j<=k) pmf(j) != cdf(k); " + _worst(cs, cdf, ok, k))
    check(abs(cs[-1] - 1.0) <= stol, "poisson:sum-one", lambda: f"{what}: pmf sums to {cs[-1]!r} over k<= {K}")
    ok = _close(cdf, ref["cdf"], ctol)
    check(ok.all(), "poisson:cdf-ref", lambda: f"{what}: cdf != scipy; " + _worst(cdf, ref["cdf"], ok, k))
    pos = cdf > 1e-30
    ok = _close(lcdf[pos], np.log(cdf[pos]), 8 * eps, 8 * eps)
    check(ok.all(), "poisson:logcdf", lambda: f"{what}: logcdf != log(cdf); " + _worst(lcdf[pos], np.log(cdf[pos]), ok, k[pos]))
    m1 = float((k * pmf).sum())
    m2 = float((k * k * pmf).sum()) - m1 * m1
    # mean()/variance() only see the rate: a python float is converted to float32 by the library
    rel = 4 * ltol.max() + 16 * (EPS["float32"] if case["form"] == "float" else eps)
    gm, gv = float(_np(mean).reshape(-1)[0]), float(_np(var).reshape(-1)[0])
    check(abs(gm - m1) <= rel * (lam + 1), "poisson:mean", lambda: f"{what}: mean() = {gm!r}, first moment of pmf = {m1!r}")
    check(abs(gv - m2) <= rel * (lam * lam + lam + 1), "poisson:variance",
          lambda: f"{what}: variance() = {gv!r}, central second moment of pmf = {m2!r}")
    # all-python-scalar call (float32 by documentation of the conversion)
    k0 = int(case["k0"]) % (K + 1)
    with impl("Poisson.pmf(float, float)"):
        p0 = float(Poisson.pmf(float(k0), float(lam)))
        c0 = float(Poisson.cdf(float(k0), float(lam)))
    e32 = EPS["float32"]
    check(abs(p0 - ref["pmf"][k0]) <= 16 * e32 * (mag[k0] + 1) * ref["pmf"][k0] + 1e-37, "poisson:pmf-ref",
          lambda: f"Poisson.pmf({float(k0)}, {lam!r}) = {p0!r}, want {ref['pmf'][k0]!r}")
    check(abs(c0 - ref["cdf"][k0]) <= 64 * e32, "poisson:cdf-ref",
          lambda: f"Poisson.cdf({float(k0)}, {lam!r}) = {c0!r}, want {ref['cdf'][k0]!r}")
    dense = int((ref["pmf"] >= 1e-6).sum())
    return {"nt": dense >= 2, "cls": ["poisson", f"dtype={dtype}", "rate<1" if lam < 1 else ("rate<10" if lam < 10 else "rate>=10")]}


ZMAX = 12.0
NGRID = 4801


def _dist_cont(case):
    from inferno.stats import LogNormal, Normal

    dtype = case["dtype"]
    eps = EPS[dtype]
    logn = case["dist"] == "lognormal"
    D = LogNormal if logn else Normal
    name = "LogNormal" if logn else "Normal"
    loc = float(ND[dtype](case["loc"]))
    scale = float(ND[dtype](case["scale"]))
    z = np.linspace(-ZMAX, ZMAX, NGRID)
    u = loc + z * scale
    x = (np.exp(u) if logn else u).astype(ND[dtype])
    x = np.unique(x)  # strictly increasing actual floats
    if logn:
        x = x[x > 0]
    x64 = x.astype(np.float64)
    uu = np.log(x64) if logn else x64  # the Gaussian coordinate of the actual abscissae
    zz = (uu - loc) / scale
    xt = torch.tensor(x, dtype=TD[dtype])
    aloc, ascale = _arg(loc, case["form"], dtype), _arg(scale, case["form"], dtype)
    what = f"{name}(loc={loc!r}, scale={scale!r}, {dtype}, params as {case['form']})"
    with impl(f"{name}.pdf/logpdf/cdf"):
        pdf = D.pdf(xt, aloc, ascale)
        lpdf = D.logpdf(xt, aloc, ascale)
        cdf = D.cdf(xt, aloc, ascale)
    with impl(f"{name}.logcdf"):
        lcdf = D.logcdf(xt, aloc, ascale)
    with impl(f"{name}.mean/variance"):
        if logn:
            mean, var = D.mean(aloc, ascale), D.variance(aloc, ascale)
        else:
            mean, var = D.mean(aloc), D.variance(ascale)
    for nm, t in (("pdf", pdf), ("logpdf", lpdf), ("cdf", cdf), ("logcdf", lcdf)):
        check(isinstance(t, torch.Tensor) and tuple(t.shape) == (len(x),) and t.dtype == TD[dtype], f"{name}:{nm}:shape",
              lambda: f"{what}: {nm} shape/dtype {getattr(t, 'shape', None)} {getattr(t, 'dtype', None)}")
    pdf, lpdf, cdf, lcdf = map(_np, (pdf, lpdf, cdf, lcdf))
    ref = (M.lognormal_ref if logn else M.normal_ref)(x64, loc, scale)

    # conditioning of the standardised coordinate in the working dtype
    dz = (np.abs(uu) + abs(loc) + (1.0 if logn else 0.0)) / scale
    cond = 1 + zz * zz + np.abs(zz) * dz + (np.abs(uu) if logn else 0.0) + abs(math.log(scale))
    rtol = 8 * eps * cond

    ok = _close(np.exp(lpdf), pdf, TINY[dtype], 8 * eps * (1 + np.abs(np.where(np.isfinite(lpdf), lpdf, 0.0))))
    check(ok.all(), f"{name}:exp-logpdf", lambda: f"{what}: exp(logpdf) != pdf; " + _worst(np.exp(lpdf), pdf, ok, x64))
    big = ref["pdf"] > 1e-30 / max(1.0, 1.0 / scale)
    ok = _close(pdf[big], ref["pdf"][big], 0.0, rtol[big])
    check(ok.all(), f"{name}:pdf-ref", lambda: f"{what}: pdf != scipy; " + _worst(pdf[big], ref["pdf"][big], ok, x64[big]))
    ctol = 8 * eps * (1 + dz)
    ok = _close(cdf, ref["cdf"], ctol)
    check(ok.all(), f"{name}:cdf-ref", lambda: f"{what}: cdf != scipy; " + _worst(cdf, ref["cdf"], ok, x64))
    pos = cdf > 1e-30
    ok = _close(lcdf[pos], np.log(cdf[pos]), 8 * eps, 8 * eps)
    check(ok.all(), f"{name}:logcdf", lambda: f"{what}: logcdf != log(cdf); " + _worst(lcdf[pos], np.log(cdf[pos]), ok, x64[pos]))

    # quadrature in the Gaussian coordinate on the actual abscissae: int f dx = int f(x(u)) x'(u) du
    jac = x64 if logn else np.ones_like(x64)
    gq = pdf * jac
    qerr_rel = 8 * eps * (1 + 16 + 4 * dz.max()) + 2e-6
    # A float32 support grid cannot resolve a distribution whose standard deviation is only a few hundred ulp of
    # its location (small-scale stratum): the rounding of the abscissae then dominates the numerical integrals
    # (seen at VERIF_SEED=909: LogNormal(loc=1.36, scale=1e-4) in float32, quadrature variance off by a factor 2.7
    # while the stated variance was right).  There the integrals are not an oracle; the closed-form moment checks
    # and the pointwise pdf / cdf / logcdf comparisons below and above still apply.
    resolves = not (dtype == "float32" and scale < 0.05 * max(1.0, abs(loc)))
    cum = M.cumtrapz(gq, uu)
    want = cdf - cdf[0]
    ok = _close(cum, want, qerr_rel + 2 * ctol.max())
    check(ok.all() or not resolves, f"{name}:int-cdf", lambda: f"{what}: integral of pdf from {x64[0]!r} != cdf difference; " + _worst(cum, want, ok, x64))
    check(abs(cum[-1] - 1.0) <= qerr_rel or not resolves, f"{name}:int-one", lambda: f"{what}: pdf integrates to {cum[-1]!r}")
    m1 = M.trapz(gq * x64, uu)
    m2 = M.trapz(gq * (x64 - m1) ** 2, uu)
    gm, gv = float(_np(mean).reshape(-1)[0]), float(_np(var).reshape(-1)[0])
    # mean()/variance() only see the parameters: python floats are converted to float32 by the library
    meps = EPS["float32"] if case["form"] == "float" else eps
    if logn:
        # moments weight the upper tail (integrand centred at loc + scale^2 resp. loc + 2 scale^2)
        mrel = 8 * eps * (1 + (4 + 2 * scale) ** 2 + (4 + 2 * scale) * dz.max()) + 1e-5 + 64 * meps
        mtol, vtol = mrel * abs(m1), 4 * mrel * abs(m2)
    else:
        mrel = qerr_rel + 16 * meps
        mtol, vtol = mrel * (abs(loc) + scale), 4 * mrel * (scale * scale) + 4 * mrel * abs(loc) * scale
    check(abs(gm - m1) <= mtol or not resolves, f"{name}:mean", lambda: f"{what}: mean() = {gm!r}, first moment of pdf = {m1!r} (tol {mtol:.3g})")
    check(abs(gv - m2) <= vtol or not resolves, f"{name}:variance", lambda: f"{what}: variance() = {gv!r}, central second moment of pdf = {m2!r} (tol {vtol:.3g})")
    # stated moments against the documented closed forms in float64: a few ulp of the RESULT times the
    # conditioning of the formula in its parameters (the variance must keep its digits at small scale)
    cm, cv = M.closed_moments(case["dist"], loc, scale)
    check(abs(gm - cm) <= 8 * meps * (1 + abs(loc) + scale * scale) * abs(cm) + 1e-300, f"{name}:mean-closed",
          lambda: f"{what}: mean() = {gm!r}, documented closed form in float64 {cm!r}")
    check(abs(gv - cv) <= 8 * meps * (1 + 2 * abs(loc) + 2 * scale * scale) * abs(cv) + 1e-300, f"{name}:variance-closed",
          lambda: f"{what}: variance() = {gv!r}, documented closed form in float64 {cv!r}")
    # scipy's own lognormal variance loses digits at small scale (exp(s^2) - 1): second opinion only above 0.05
    scipy_moments_ok = scale > 0.05
    check((not scipy_moments_ok) or abs(gm - ref["mean"]) <= 256 * meps * (1 + abs(loc) + scale * scale) * abs(ref["mean"]) + 1e-300, f"{name}:mean",
          lambda: f"{what}: mean() = {gm!r}, scipy {ref['mean']!r}")
    check((not scipy_moments_ok) or abs(gv - ref["var"]) <= 256 * meps * (1 + 2 * abs(loc) + 2 * scale * scale) * abs(ref["var"]) + 1e-300, f"{name}:variance",
          lambda: f"{what}: variance() = {gv!r}, scipy {ref['var']!r}")

    # mean/variance parameterisation round trip
    tm = float(ND[dtype](case["tmean"]))
    cv2 = float(case["cv2"])
    if logn:
        tm = abs(tm) + 0.05
    tv = float(ND[dtype](cv2 * (tm * tm if logn else 1.0)))
    am, av = _arg(tm, case["form"], dtype), _arg(tv, case["form"], dtype)
    pre = [a_.clone() if isinstance(a_, torch.Tensor) else None for a_ in (am, av)]
    with impl(f"{name}.params_mv"):
        pl, ps = D.params_mv(am, av)
    # the round trip as a caller writes it compares with the arguments it passed: they must still hold the targets
    for nm_, a_, p_ in (("mean", am, pre[0]), ("variance", av, pre[1])):
        if p_ is not None:
            check(torch.equal(a_, p_), f"{name}:params_mv:argument",
                  lambda: f"{name}.params_mv(mean={tm!r}, variance={tv!r}) changed the caller's {nm_} tensor to {float(a_.reshape(-1)[0])!r}")
    with impl(f"{name}.mean/variance(params_mv)"):
        if logn:
            rm, rv = D.mean(pl, ps), D.variance(pl, ps)
        else:
            rm, rv = D.mean(pl), D.variance(ps)
    rm, rv = float(_np(rm).reshape(-1)[0]), float(_np(rv).reshape(-1)[0])
    fe = EPS["float32"] if case["form"] == "float" else eps
    if logn:
        # log(1 + v/m^2) loses 1/(v/m^2) digits; exp() of loc amplifies by |loc|
        pr = 32 * fe * (2 + 1.0 / cv2 + abs(math.log(tm)) + cv2)
    else:
        pr = 16 * fe
    check(abs(rm - tm) <= pr * abs(tm) + 1e-37, f"{name}:params_mv:mean",
          lambda: f"{name}.params_mv(mean={tm!r}, variance={tv!r}) -> loc={float(_np(pl).reshape(-1)[0])!r} scale={float(_np(ps).reshape(-1)[0])!r} has mean {rm!r}")
    check(abs(rv - tv) <= 2 * pr * abs(tv) + 1e-37, f"{name}:params_mv:variance",
          lambda: f"{name}.params_mv(mean={tm!r}, variance={tv!r}) -> loc={float(_np(pl).reshape(-1)[0])!r} scale={float(_np(ps).reshape(-1)[0])!r} has variance {rv!r}")
    dense = int((ref["pdf"] * (x64 if logn else 1.0) * scale >= 1e-6).sum())
    cls = [name.lower(), f"dtype={dtype}", f"form={case['form']}"]
    if scale <= 1e-2:
        cls.append(f"{name.lower()}:small-scale")
    return {"nt": dense >= 100, "cls": cls}


def run_dist(case):
    if case["dist"] == "poisson":
        return _dist_poisson(case)
    return _dist_cont(case)


SMALL_SCALES = [1e-4, 3e-4, 1e-3, 3e-3, 1e-2]


def _r4(v):
    """drawn parameters keep 4 decimals: no subnormal magnitudes that underflow in float32"""
    return round(v, 4)


@st.composite
def dist_case(draw, tier="quick"):
    dist = draw(st.sampled_from(["poisson", "normal", "lognormal"]))
    dtype = draw(st.sampled_from(["float32", "float64"]))
    form = draw(st.sampled_from(["float", "t0", "t1"]))
    c = {"dist": dist, "dtype": dtype, "form": form}
    if dist == "poisson":
        c["rate"] = draw(st.one_of(
            st.sampled_from([0.0, 0.01, 0.1, 0.5, 1.0, 2.0, 0.0, 3.0, 4.5, 10.0, 25.0, 60.0]),
            st.floats(0.01, 80.0 if tier == "quick" else 200.0, allow_nan=False).map(_r4),
        ))
        c["k0"] = draw(st.integers(0, 300))
        return c
    if dist == "normal":
        c["loc"] = draw(st.one_of(st.sampled_from([0.0, 1.0, -2.5, 10.0]), st.floats(-20.0, 20.0, allow_nan=False).map(_r4)))
        c["scale"] = draw(st.one_of(st.sampled_from([1.0, 0.5, 2.0, 0.1, 10.0]), st.floats(0.05, 10.0, allow_nan=False).map(_r4)))
        if draw(st.integers(0, 4)) == 0:  # small-scale stratum
            c["scale"] = draw(st.sampled_from(SMALL_SCALES))
            c["loc"] = draw(st.sampled_from([0.0, 1.0, -2.0, 5.0, 10.0, c["loc"]]))
        c["tmean"] = draw(st.floats(-50.0, 50.0, allow_nan=False).map(_r4))
        c["cv2"] = draw(st.one_of(st.sampled_from([1.0, 0.25, 4.0]), st.floats(0.01, 100.0, allow_nan=False).map(_r4)))
    else:
        c["loc"] = draw(st.one_of(st.sampled_from([0.0, 1.0, -1.0, 2.0]), st.floats(-3.0, 4.0, allow_nan=False).map(_r4)))
        c["scale"] = draw(st.one_of(st.sampled_from([1.0, 0.5, 0.25, 0.1]), st.floats(0.05, 1.5, allow_nan=False).map(_r4)))
        if draw(st.integers(0, 3)) == 0:  # small-scale stratum: the stated variance must not lose its digits
            c["scale"] = draw(st.sampled_from(SMALL_SCALES))
            c["loc"] = draw(st.sampled_from([0.0, 1.0, -2.0, 5.0, 10.0, c["loc"]]))
        c["tmean"] = draw(st.floats(0.05, 50.0, allow_nan=False).map(_r4))
        c["cv2"] = draw(st.one_of(st.sampled_from([1.0, 0.25, 4.0]), st.floats(0.02, 10.0, allow_nan=False).map(_r4)))
    return c


# =============================================================================== isi leg


def run_isi(case):
    import inferno

    pop = tuple(case["pop"])
    T = int(case["T"])
    dt = float(case["dt"])
    ntr = int(np.prod(pop)) if pop else 1
    rows = []
    for i in range(ntr):
        spec = case["trains"][i % len(case["trains"])]
        row = np.zeros(T, dtype=bool)
        for s in spec:
            row[s % T] = True
        rows.append(row)
    last = np.array(rows, dtype=bool).reshape(pop + (T,))
    time_first = bool(case["time_first"])
    arr = np.moveaxis(last, -1, 0) if time_first else last
    spikes = torch.tensor(np.ascontiguousarray(arr), dtype=torch.bool)
    with impl("isi"):
        got = inferno.isi(spikes, dt, time_first=time_first)
    want_last, times = M.isi_model(last, dt)
    width = want_last.shape[-1]
    want = np.moveaxis(want_last, -1, 0) if time_first else want_last
    what = f"isi(raster pop={pop} T={T} counts={[len(t) for t in times]}, dt={dt}, time_first={time_first})"
    check(isinstance(got, torch.Tensor) and got.dtype.is_floating_point, "isi:dtype", lambda: f"{what}: dtype {getattr(got, 'dtype', None)}")
    check(tuple(got.shape) == tuple(want.shape), "isi:shape", lambda: f"{what}: shape {tuple(got.shape)} want {tuple(want.shape)}")
    g = _np(got)
    check(bool((np.isnan(g) == np.isnan(want)).all()), "isi:padding",
          lambda: f"{what}: NaN padding differs: got {g.tolist()} want {want.tolist()}")
    tol = 8 * EPS["float32"] * T * dt
    with np.errstate(invalid="ignore"):
        okv = np.isnan(want) | (np.abs(g - want) <= tol)
    check(bool(okv.all()), "isi:value", lambda: f"{what}: got {g.tolist()} want {want.tolist()}")
    # re-integration: first spike time + cumulative intervals = spike times
    g_last = (np.moveaxis(g, 0, -1) if time_first else g).reshape(ntr, width)
    for i, t in enumerate(times):
        if len(t) >= 1:
            iv = g_last[i][~np.isnan(g_last[i])]
            rec = np.concatenate([[t[0]], t[0] + np.cumsum(iv)])
            check(len(rec) == len(t) and bool((np.abs(rec - t) <= tol * max(1, len(t))).all()), "isi:reintegrate",
                  lambda: f"{what}: train {i}: first spike + cumsum(isi) = {rec.tolist()} != spike times {t.tolist()}")
    counts = sorted(len(t) for t in times)
    multi = [c for c in counts if c >= 2]
    nt = len(multi) >= 2 and len(set(multi)) >= 2
    cls = ["time_first" if time_first else "time_last", f"rank={len(pop)}"]
    if 0 in counts:
        cls.append("empty-train")
    if counts and counts[-1] <= 1:
        cls.append("no-interval")
    if len(set(counts)) > 1:
        cls.append("ragged")
    if any(len(t) and t[0] == 0 for t in times):
        cls.append("spike-at-0")
    if any(len(t) and t[-1] == (T - 1) * dt for t in times):
        cls.append("spike-at-end")
    return {"nt": bool(nt), "cls": cls}


@st.composite
def isi_case(draw, tier="quick"):
    tmax = 24 if tier == "quick" else 60
    T = draw(st.one_of(st.integers(1, 5), st.integers(6, tmax), st.integers(6, tmax)))
    ix = st.integers(0, tmax - 1)
    train = st.one_of(
        st.just([]),
        st.lists(ix, min_size=1, max_size=3),
        st.lists(ix, min_size=2, max_size=8),
        st.lists(ix, min_size=3, max_size=8),
        st.lists(ix, min_size=4, max_size=tmax),
        st.lists(ix, min_size=6, max_size=tmax),
    )
    return {
        "pop": draw(st.sampled_from([[1], [2], [3], [2, 2], [3, 2], [4], [2, 1, 2], [3], [5], [2], [1, 3]])),
        "T": T,
        "dt": draw(st.sampled_from([1.0, 0.5, 0.25, 2.0, 1.3, 0.1])),
        "time_first": draw(st.booleans()),
        "trains": draw(st.lists(train, min_size=2, max_size=6)),
    }


# =============================================================================== vp leg


def _train(spec, base, dtype):
    idx = sorted(set(int(s) for s in spec))
    if dtype == "int64":
        return np.array(idx, dtype=np.int64)
    return np.array([i * base for i in idx], dtype=ND[dtype])


def _vp_call(vp, a, b, cost):
    with impl("victor_purpura_pair_dist"):
        r = vp(a, b, cost)
    return r


def run_vp(case):
    import inferno

    vp = inferno.victor_purpura_pair_dist
    dtype = case["dtype"]
    cdtype = case["cdtype"]
    base = float(case["base"])
    tr = {k: _train(case[k], base, dtype) for k in ("a", "b", "c")}
    tt = {k: torch.tensor(v, dtype=TD[dtype]) for k, v in tr.items()}
    costs = [float("inf") if c == "inf" else float(c) for c in case["costs"]]
    costs = [float(ND[cdtype](c)) for c in costs]
    ct = torch.tensor(costs, dtype=TD[cdtype])
    k = len(costs)
    # shifts are computed as cost * |t0 - t1|: rounding of the coarser of the two dtypes
    geps = max(EPS[cdtype], EPS.get(dtype, 0.0))

    def ref(x, y):
        return np.array([M.vp_dist(tr[x].tolist(), tr[y].tolist(), c) for c in costs])

    def tol(x, y):
        nm = len(tr[x]) + len(tr[y])
        return 16 * geps * (1 + nm) * (1 + nm)

    got = {}
    for x, y in (("a", "b"), ("b", "a"), ("b", "c"), ("a", "c"), ("a", "a")):
        r = _vp_call(vp, tt[x], tt[y], ct)
        check(isinstance(r, torch.Tensor) and tuple(r.shape) == (k,), "vp:shape",
              lambda: f"d({x},{y}) with {k} costs: shape {getattr(r, 'shape', None)}")
        g = _np(r)
        w = ref(x, y)
        check(bool((np.abs(g - w) <= tol(x, y)).all()), "vp:value",
              lambda: f"d({tr[x].tolist()}, {tr[y].tolist()}; cost={costs}) = {g.tolist()}, reference DP {w.tolist()}")
        got[x + y] = g
    na, nb, nc = (len(tr[s]) for s in "abc")
    tab, tbc, tac = tol("a", "b"), tol("b", "c"), tol("a", "c")
    fin = np.array([not math.isinf(c) for c in costs])
    what = f"a={tr['a'].tolist()} b={tr['b'].tolist()} c={tr['c'].tolist()} cost={costs}"
    check(bool((got["ab"] >= -tab).all()), "vp:nonneg", lambda: f"{what}: d(a,b) = {got['ab'].tolist()}")
    check(bool((np.abs(got["aa"][fin]) <= tol("a", "a")).all()), "vp:identity", lambda: f"{what}: d(a,a) = {got['aa'].tolist()}")
    check(bool((np.abs(got["ab"] - got["ba"]) <= 2 * tab).all()), "vp:symmetry",
          lambda: f"{what}: d(a,b) = {got['ab'].tolist()} d(b,a) = {got['ba'].tolist()}")
    check(bool((got["ac"] <= got["ab"] + got["bc"] + tab + tbc + tac).all()), "vp:triangle",
          lambda: f"{what}: d(a,c) = {got['ac'].tolist()} > d(a,b) + d(b,c) = {(got['ab'] + got['bc']).tolist()}")
    check(bool(((got["ab"] >= abs(na - nb) - tab) & (got["ab"] <= na + nb + tab)).all()), "vp:bounds",
          lambda: f"{what}: d(a,b) = {got['ab'].tolist()} outside [|n-m|, n+m] = [{abs(na - nb)}, {na + nb}]")
    order = np.argsort(costs, kind="stable")
    srt = got["ab"][order]
    check(bool((np.diff(srt) >= -2 * tab).all()), "vp:monotone", lambda: f"{what}: d(a,b) by increasing cost = {srt.tolist()}")
    for i, c in enumerate(costs):
        if c == 0.0:
            check(abs(got["ab"][i] - abs(na - nb)) <= tab, "vp:cost0", lambda: f"{what}: tensor cost 0 gives {got['ab'][i]!r}, want |n-m| = {abs(na - nb)}")
        if math.isinf(c):
            check(abs(got["ab"][i] - (na + nb)) <= tab, "vp:costinf", lambda: f"{what}: tensor cost inf gives {got['ab'][i]!r}, want n+m = {na + nb}")
    # scalar (float) costs == tensor costs, shape (1,); documented limits at 0 and inf
    e32 = EPS["float32"]
    for i, c in enumerate(costs):
        r = _vp_call(vp, tt["a"], tt["b"], c)
        check(isinstance(r, torch.Tensor) and tuple(r.shape) == (1,), "vp:shape", lambda: f"float cost {c}: shape {getattr(r, 'shape', None)}")
        g = float(_np(r)[0])
        w = M.vp_dist(tr["a"].tolist(), tr["b"].tolist(), c)
        stol = 16 * e32 * (1 + na + nb) ** 2 * (1 + (0 if math.isinf(c) else 0))
        # a float cost is stored as float32 by the function: c itself is rounded
        w32 = M.vp_dist(tr["a"].tolist(), tr["b"].tolist(), float(np.float32(c)))
        check(min(abs(g - w), abs(g - w32)) <= stol, "vp:scalar",
              lambda: f"d({tr['a'].tolist()}, {tr['b'].tolist()}; cost={c!r} as float) = {g!r}, reference {w!r}; tensor-cost result {got['ab'][i]!r}")
    shiftable = bool(((got["ab"] < na + nb - 0.25) & fin & (np.array(costs) > 0)).any())
    nt = na != nb and na > 0 and nb > 0 and shiftable
    cls = [f"dtype={dtype}", f"k={k}"]
    if 0 in (na, nb, nc):
        cls.append("empty-train")
    if any(math.isinf(c) for c in costs):
        cls.append("cost=inf")
    if any(c == 0 for c in costs):
        cls.append("cost=0")
    if na == nb:
        cls.append("n=m")
    if shiftable:
        cls.append("shift-used")
    return {"nt": bool(nt), "cls": cls}


@st.composite
def vp_case(draw, tier="quick"):
    nmax = 5 if tier == "quick" else 7
    tr = st.one_of(st.lists(st.integers(0, 12), min_size=0, max_size=nmax),
                   st.lists(st.integers(0, 12), min_size=1, max_size=nmax))
    cost = st.one_of(
        st.sampled_from([0.0, 0.125, 0.25, 0.5, 0.125, 0.25, 0.5, 1.0, 1.0, 2.0, 8.0, 1000.0, "inf"]),
        st.floats(0.0, 20.0, allow_nan=False, width=32).map(lambda v: round(v, 3)),
    )
    return {
        "dtype": draw(st.sampled_from(["float32", "float32", "float64", "int64"])),
        "cdtype": draw(st.sampled_from(["float32", "float32", "float64"])),
        "base": draw(st.sampled_from([1.0, 0.5, 0.25, 1.3, 0.1])),
        "a": draw(tr), "b": draw(tr), "c": draw(tr),
        "costs": draw(st.lists(cost, min_size=1, max_size=3)),
    }


# =============================================================================== registration

LEGS = [
    Leg(
        name="interp", run=run_interp, strategy=lambda tier: interp_case(tier),
        quick=1500, thorough=15000, quick_shards=4, thorough_shards=8, nt_floor=0.3,
        rule="one of the 11 matching extrap/interp pairs on generated brackets, sample and t_s in [0, dt] "
             "(strata 0, dt, dt/2, k/8, k/3, 1/64, random; float32/float64; scalar or tensor t_s); for the six selection-type pairs "
             "a third of the cases put +inf / -inf / NaN into bracket values (sample finite): exact round trip, outputs are one of "
             "the inputs (NaN-aware), nothing asserted for linear/exponential functions there; a third of the linear_forward/backward "
             "cases are float64 with t_s 1e-3..1e-9 dt from the singular end (tolerance conditioned on dt/(dt-t_s)); non-trivial "
             "when >= 1 element has pairwise distinct prev/next/sample and 0 < t_s < dt outside the nearest band",
    ),
    Leg(
        name="dist", run=run_dist, strategy=lambda tier: dist_case(tier),
        quick=600, thorough=8000, quick_shards=4, thorough_shards=8, nt_floor=0.5,
        rule="Poisson (support 0..rate+12 sqrt(rate)+15) / Normal / LogNormal (4801-point grid over +-12 sd) "
             "with palette and drawn parameters (Poisson incl. the degenerate rate 0, counted trivial; Normal/LogNormal incl. a "
             "small-scale stratum 1e-4..1e-2 with loc up to 10, stated moments vs the float64 closed forms at 8 ulp x conditioning), float32/float64, parameters as float / 0-dim / (1,) tensor; "
             "non-trivial when the density is >= 1e-6 on >= 2 (Poisson) / >= 100 (continuous) grid points",
    ),
    Leg(
        name="isi", run=run_isi, strategy=lambda tier: isi_case(tier),
        quick=1500, thorough=15000, quick_shards=4, thorough_shards=8, nt_floor=0.25,
        rule="boolean rasters, population shapes of rank 1-3, T <= 24 (60 thorough), time-first and time-last, "
             "empty / single-spike / dense trains; non-trivial when >= 2 trains have >= 2 spikes with different counts",
    ),
    Leg(
        name="vp", run=run_vp, strategy=lambda tier: vp_case(tier),
        quick=600, thorough=6000, quick_shards=4, thorough_shards=8, nt_floor=0.2,
        rule="triples of spike-time vectors (<= 5 spikes, 7 thorough; float32/float64/int64) and 1-3 costs from "
             "{0, dyadic, drawn, 1000, inf}; non-trivial when |a| != |b|, both non-empty and some finite positive "
             "cost gives d(a,b) < |a|+|b| (a shift is cheaper than delete+insert)",
    ),
]

ASSUMPTIONS = [
    "CPU only; float32 results are compared with float64 references inside stated condition-number tolerances "
    "(8-16 ulp of the working dtype times the documented formula's conditioning)",
    "linear extrapolation: float32 is exercised with t_s >= dt/64 (forward) and t_s <= dt(1 - 1/64) (backward); float64 strictly inside the step down to 1e-9 dt from the singular end with the round-trip tolerance 16 eps (|p|+|s|+|n|)(1 + dt/(dt - t_s)) (backward; forward has no net amplification); the end itself is excluded (documented division)",
    "nearest pairs within 1e-5 of t_s = dt/2 are counted ambiguous unless t_s == dt/2 exactly with dyadic dt",
    "Poisson integer supports; rate >= 0 with rate == 0 (accepted by Poisson.validate: the degenerate distribution) as its own stratum judged by the identities defined there (pmf = [1,0,..], cdf = 1, mean = variance = 0, no NaN); Normal / LogNormal have only open parameter boundaries (validate rejects scale 0, non-finite values, LogNormal support 0); LogNormal scale <= 1.5 so that the 4801-point grid captures the second moment",
    "non-finite bracket values are only fed to the selection-type functions (interp previous/next/nearest, extrap previous/next/neighbors/nearest); linear / exponential functions are judged on finite data only",
    "stated mean/variance are compared with the documented closed forms evaluated in float64 (math.expm1); scipy's lognormal moments are consulted only for scale > 0.05 (they lose digits below)",
    "scipy.stats is trusted as the second opinion for pmf/pdf/cdf values; quadrature is a trapezoid rule in the Gaussian coordinate on the actual float abscissae",
    "Victor-Purpura: spike-time vectors are strictly increasing; cost = inf follows the function's documented warning (n + m, identity law excluded)",
]

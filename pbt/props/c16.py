"""C16 — state hooks fire exactly when armed and enforce clamping / normalisation.

Legs
  lifecycle : generated operation sequences over two small modules and 1-4 hooks of kind Hook(pre / post /
              both), ContextualHook subclass (pre / post / both) and a StateHook probe subclass (pre / post):
              register, deregister, double register, train / eval, module call, manual hook() with force /
              ignore_mode, flipping trainexec / evalexec, dropping the last reference + gc.collect().
              Counter model: which hook parts fire, in which position relative to forward, on every call;
              handle bookkeeping (len(_forward_hooks) + len(_forward_pre_hooks)) after every operation.
  postcond  : the same life-cycle operations around one Clamping / Normalization hook on a plain module
              attribute, a nested attribute, LinearDense.weight / .bias and the quick-start arrangement
              (hook on the updater, attribute "parent.weight", fired by connection.update()); the firing is
              observed through its effect on freshly written attribute values and the documented
              post-condition is evaluated in NumPy float64.
"""

from __future__ import annotations

import gc
import weakref

import numpy as np
import torch
from hypothesis import strategies as st

from ..harness import Leg, Violation, check, impl

DT = {"float32": torch.float32, "float64": torch.float64, "int64": torch.int64, "int32": torch.int32}
NPDT = {"float32": np.float32, "float64": np.float64}
INT_DTYPES = ("int64", "int32")

# ------------------------------------------------------------------------------- probe classes


def _classes():
    from inferno import ContextualHook, Module, StateHook

    class Box(Module):
        """Small hooked module: logs its forward and snapshots the watched attribute at forward time."""

        def __init__(self, log, tag):
            Module.__init__(self)
            self._log = log
            self._tag = tag
            self.inner = Module()
            self.watch = None
            self.seen = None

        def forward(self, x):
            self._log.append(("fwd", self._tag))
            if self.watch is not None:
                cur = self
                for part in self.watch.split("."):
                    cur = getattr(cur, part)
                self.seen = cur.detach().clone()
            return x + 1

    class Ctx(ContextualHook):
        def __init__(self, log, hid, pre, post, **kw):
            self._log, self._hid = log, hid
            ContextualHook.__init__(self, prehook="on_pre" if pre else None,
                                    posthook="on_post" if post else None, **kw)

        def on_pre(self, module, *a):
            self._log.append(("pre", self._hid))

        def on_post(self, module, *a):
            self._log.append(("post", self._hid))

    class Probe(StateHook):
        def __init__(self, module, log, hid, **kw):
            StateHook.__init__(self, module, **kw)
            self._log, self._hid = log, hid

        def hook(self, module):
            self._log.append(("state", self._hid, module is self.module))

    return Box, Ctx, Probe


def _fn(log, what, hid):
    def cb(module, *a):
        log.append((what, hid))

    return cb


KINDS = ["hook_pre", "hook_post", "hook_both", "ctx_pre", "ctx_post", "ctx_both", "state_pre", "state_post"]


_FROZEN = [False]


def _freeze_once():
    """gc.collect() walks every tracked object of the process (torch, hypothesis, ...: tens of ms per call);
    moving what exists at start-up into the permanent generation keeps the explicit collections of the
    lifetime clauses cheap.  Objects created by the cases afterwards are collected normally."""
    if not _FROZEN[0]:
        gc.collect()
        gc.freeze()
        _FROZEN[0] = True


def _nhandles(m):
    return len(m._forward_hooks) + len(m._forward_pre_hooks)


# ------------------------------------------------------------------------------- lifecycle leg


class Life:
    def __init__(self, case):
        from inferno import Hook

        _freeze_once()
        Box, Ctx, Probe = _classes()
        self.log = []
        with impl("construct modules"):
            self.mods = [Box(self.log, 0), Box(self.log, 1)]
        self.base = [_nhandles(m) for m in self.mods]
        self.hooks = []  # dicts; 'obj' dropped on collect
        self.stats = dict.fromkeys(["fired", "suppressed_mode", "suppressed_unreg", "suppressed_dead",
                                    "manual_fired", "manual_suppressed", "double", "collected",
                                    "reregistered", "calls"], 0)
        self.double_mode = set()
        for hid, spec in enumerate(case["hooks"]):
            kind = KINDS[spec[0] % len(KINDS)]
            tu, eu, prepend, always, withkw, mi = bool(spec[1]), bool(spec[2]), bool(spec[3]), bool(spec[4]), bool(spec[5]), spec[6] % 2
            pre = kind.endswith(("_pre", "_both"))
            post = kind.endswith(("_post", "_both"))
            prekw = {"prepend": prepend, "with_kwargs": withkw}
            postkw = {"prepend": prepend, "always_call": always, "with_kwargs": withkw}
            with impl(f"construct {kind}"):
                if kind.startswith("hook"):
                    obj = Hook(prehook=_fn(self.log, "pre", hid) if pre else None,
                               posthook=_fn(self.log, "post", hid) if post else None,
                               prehook_kwargs=prekw, posthook_kwargs=postkw, train_update=tu, eval_update=eu)
                elif kind.startswith("ctx"):
                    obj = Ctx(self.log, hid, pre, post, prehook_kwargs=prekw, posthook_kwargs=postkw,
                              train_update=tu, eval_update=eu)
                else:
                    obj = Probe(self.mods[mi], self.log, hid, train_update=tu, eval_update=eu,
                                as_prehook=pre, prepend=prepend, always_call=always)
            self.hooks.append(dict(kind=kind, obj=obj, hid=hid, pre=pre, post=post, tu=tu, eu=eu,
                                   on=None, bound=mi if kind.startswith("state") else None, alive=True))
            del obj

    # -- model predicates
    def enabled(self, h, mi):
        tr = self.mods[mi].training
        return (h["tu"] and tr) or (h["eu"] and not tr)

    def expected_handles(self, mi):
        return self.base[mi] + sum((h["pre"] + h["post"]) for h in self.hooks if h["alive"] and h["on"] == mi)

    def check_handles(self, what):
        for mi, m in enumerate(self.mods):
            got, want = _nhandles(m), self.expected_handles(mi)
            check(got == want, "handles:count",
                  lambda: f"{what}: module {mi} holds {got} hook handles, model says {want} "
                          f"(pre={len(m._forward_pre_hooks)}, post={len(m._forward_hooks)})")
        for h in self.hooks:
            if h["alive"]:
                with impl("registered"):
                    r = h["obj"].registered
                check(r == (h["on"] is not None), "registered:flag",
                      lambda: f"{what}: hook {h['hid']} ({h['kind']}) registered={r}, model says on={h['on']}")

    # -- operations
    def op_register(self, k, mi, what):
        h = self.hooks[k]
        target = h["bound"] if h["bound"] is not None else mi
        if h["on"] is not None:
            # double register: must raise or be ignored; either way nothing may change
            self.stats["double"] += 1
            try:
                if h["bound"] is not None:
                    h["obj"].register()
                else:
                    h["obj"].register(self.mods[target])
                self.double_mode.add("double:ignored")
            except RuntimeError:
                self.double_mode.add("double:raised")
            except Exception as e:  # noqa: BLE001
                raise Violation("double:wrongexc", f"{what}: {type(e).__name__}: {e}") from e
            return
        with impl(what):
            if h["bound"] is not None:
                h["obj"].register()
            else:
                h["obj"].register(self.mods[target])
        if h.get("was_on") is not None:
            self.stats["reregistered"] += 1
        h["on"] = target

    def op_deregister(self, k, what):
        h = self.hooks[k]
        with impl(what):
            h["obj"].deregister()
        if h["on"] is not None:
            h["was_on"] = h["on"]
        h["on"] = None

    def op_call(self, mi, what):
        start = len(self.log)
        with impl(what):
            out = self.mods[mi](torch.zeros(2))
        check(bool(torch.equal(out, torch.ones(2))), "call:output", lambda: f"{what}: output altered: {out.tolist()}")
        seg = self.log[start:]
        fw = [i for i, e in enumerate(seg) if e[0] == "fwd"]
        check(len(fw) == 1 and seg[fw[0]] == ("fwd", mi), "call:forward", lambda: f"{what}: forward log {seg}")
        before, after = seg[: fw[0]], seg[fw[0] + 1:]
        exp_pre, exp_post = [], []
        for h in self.hooks:
            armed = h["alive"] and h["on"] == mi and self.enabled(h, mi)
            if armed:
                self.stats["fired"] += 1
                if h["pre"]:
                    exp_pre.append(h["hid"])
                if h["post"]:
                    exp_post.append(h["hid"])
            elif not h["alive"]:
                self.stats["suppressed_dead"] += 1
            elif h["on"] != mi:
                self.stats["suppressed_unreg"] += 1
            else:
                self.stats["suppressed_mode"] += 1
        got_pre = sorted(e[1] for e in before)
        got_post = sorted(e[1] for e in after)
        desc = lambda: (f"{what}: module {mi} training={self.mods[mi].training}; fired before forward {got_pre} "  # noqa: E731
                        f"(expected {sorted(exp_pre)}), after forward {got_post} (expected {sorted(exp_post)}); hooks="
                        + str([{k: v for k, v in h.items() if k != 'obj'} for h in self.hooks]))
        dead = {h["hid"] for h in self.hooks if not h["alive"]}
        check(not (dead & set(got_pre + got_post)), "fire:after-collect", desc)
        unreg = {h["hid"] for h in self.hooks if h["alive"] and h["on"] != mi}
        check(not (unreg & set(got_pre + got_post)), "fire:unregistered", desc)
        check(got_pre == sorted(exp_pre) and got_post == sorted(exp_post), "fire:mismatch", desc)
        for e in seg:
            if e[0] == "state":
                check(e[2], "fire:wrong-module", lambda: f"{what}: StateHook.hook received a module other than its own")
        self.stats["calls"] += 1

    def op_manual(self, k, force, ignore, what):
        h = self.hooks[k]
        if h["bound"] is None:
            return
        start = len(self.log)
        with impl(what):
            h["obj"](force=force, ignore_mode=ignore)
        seg = self.log[start:]
        want = (h["on"] is not None or force) and (ignore or self.enabled(h, h["bound"]))
        exp = [("state", h["hid"], True)] if want else []
        check(seg == exp, "manual:mismatch",
              lambda: f"{what}: manual call force={force} ignore_mode={ignore} registered={h['on'] is not None} "
                      f"trainexec={h['tu']} evalexec={h['eu']} training={self.mods[h['bound']].training}: log {seg}, expected {exp}")
        self.stats["manual_fired" if want else "manual_suppressed"] += 1

    def op_flag(self, k, which, val, what):
        h = self.hooks[k]
        with impl(what):
            if which:
                h["obj"].trainexec = val
            else:
                h["obj"].evalexec = val
            got = (h["obj"].trainexec, h["obj"].evalexec)
        h["tu" if which else "eu"] = val
        check(got == (h["tu"], h["eu"]), "flag:readback", lambda: f"{what}: flags read back {got}")

    def op_collect(self, k, what):
        h = self.hooks[k]
        ref = weakref.ref(h["obj"])
        h["obj"] = None
        h["alive"] = False
        if ref() is not None:  # reference counting already finalised it unless it sits in a cycle
            gc.collect()
        check(ref() is None, "collect:alive",
              lambda: f"{what}: hook {h['hid']} ({h['kind']}) still alive after its last reference was dropped and gc.collect()")
        self.stats["collected"] += 1


def run_lifecycle(case):
    d = Life(case)
    d.check_handles("construct")
    for i, op in enumerate(case["ops"]):
        what = f"op#{i} {op}"
        live = [k for k, h in enumerate(d.hooks) if h["alive"]]
        name = op[0]
        if name in ("register", "deregister", "manual", "flag", "collect"):
            if not live:
                continue
            k = live[op[1] % len(live)]
            if name == "register":
                d.op_register(k, op[2] % 2, what)
            elif name == "deregister":
                d.op_deregister(k, what)
            elif name == "manual":
                d.op_manual(k, bool(op[2]), bool(op[3]), what)
            elif name == "flag":
                d.op_flag(k, bool(op[2]), bool(op[3]), what)
            else:
                d.op_collect(k, what)
        elif name == "mode":
            with impl(what):
                d.mods[op[1] % 2].train(bool(op[2]))
        elif name == "call":
            d.op_call(op[1] % 2, what)
        else:
            raise ValueError(name)
        d.check_handles(what)
    s = d.stats
    suppressed = s["suppressed_mode"] + s["suppressed_unreg"] + s["suppressed_dead"]
    cls = sorted({h["kind"] for h in d.hooks}) + sorted(d.double_mode)
    for k in ("suppressed_mode", "suppressed_unreg", "suppressed_dead", "manual_fired", "manual_suppressed",
              "collected", "reregistered"):
        if s[k]:
            cls.append(k)
    return {"nt": bool(s["fired"] >= 1 and suppressed >= 1), "cls": cls}


# ------------------------------------------------------------------------------- postcond leg

TARGETS = ["box", "box_nested", "dense_weight", "dense_bias", "updater_weight", "box_deep3", "box_deep4"]
# dotted attribute paths of the plain-module targets (1 to 4 components)
BOXPATH = {"box": "w", "box_nested": "inner.w", "box_deep3": "inner.cell.w", "box_deep4": "a.b.c.w"}
IVALS = [-250, -5, -3, -2, -1, 0, 1, 2, 3, 4, 7, 100]
LIMS_INT = [-2.5, -1.5, -0.5, 0.5, 1.5, 3.5, -1, 0, 2, 2.0]
VALS = [0.0, -0.0, 0.5, -0.5, 1.0, -1.0, 2.0, -2.0, 3.0, 0.001, -0.001, 0.3, -0.7, 100.0, -250.0, 1000.0]
CLAMP_EXTRA = [1e30, -1e30, 1e-30]
LIMS = [-1.0, -0.5, 0.0, 0.25, 0.5, 1.0, 2.0, 0.3, -0.7, 0, 1]


def _pnorm(a, p, dims):
    a = np.abs(np.asarray(a, dtype=np.float64))
    if dims is None:
        dims = tuple(range(a.ndim))
    elif isinstance(dims, int):
        dims = (dims,)
    dims = tuple(d % a.ndim for d in dims)
    if p == float("inf"):
        return a.max(axis=dims, keepdims=True)
    with np.errstate(all="ignore"):
        return (a ** p).sum(axis=dims, keepdims=True) ** (1.0 / p)


class Post:
    def __init__(self, case):
        from inferno.neural import Clamping, DeltaCurrent, LinearDense, Normalization

        _freeze_once()
        Box, _, _ = _classes()
        self.case = case
        self.target = TARGETS[case["target"] % len(TARGETS)]
        # the connection's synapse state is float32: its parameters stay float32
        self.dtype = case["dtype"] if self.target.startswith("box") else "float32"
        self.log = []
        hk = case["hook"]
        with impl("construct target"):
            if self.target.startswith("box"):
                self.shape = tuple(case["shape"])
                from inferno import Module as _PlainModule

                self.owner = Box(self.log, 0)
                self.attr = BOXPATH[self.target]
                # chain of plain modules along the dotted path (``inner`` exists on every Box)
                self.chain = [self.owner]
                for part in self.attr.split(".")[:-1]:
                    if not hasattr(self.chain[-1], part):
                        setattr(self.chain[-1], part, _PlainModule())
                    self.chain.append(getattr(self.chain[-1], part))
                self.owner.watch = self.attr
                self.hooked = self.owner
                self.fire = lambda: self.owner(torch.zeros(2))
            else:
                o, i = (case["shape"] + [2, 3])[:2] if len(case["shape"]) >= 2 else (case["shape"][0], 2)
                self.owner = LinearDense(i, o, 1.0, synapse=DeltaCurrent.partialconstructor(100.0), bias=True)
                self.owner.updater = self.owner.defaultupdater()
                if self.target == "dense_weight":
                    self.shape, self.attr, self.hooked = (o, i), "weight", self.owner
                    self.fire = lambda: self.owner(torch.zeros(1, i))
                elif self.target == "dense_bias":
                    self.shape, self.attr, self.hooked = (o,), "bias", self.owner
                    self.fire = lambda: self.owner(torch.zeros(1, i))
                else:
                    self.shape, self.attr, self.hooked = (o, i), "parent.weight", self.owner.updater
                    self.fire = lambda: self.owner.update()
        if not self.target.startswith("box"):
            self.chain = None
        self.base = _nhandles(self.hooked)
        self.set_values(case["init"])
        self.names0 = self.attr_names()
        self.kind = hk["kind"]
        flags = dict(train_update=bool(hk["tu"]), eval_update=bool(hk["eu"]), as_prehook=bool(hk["pre"]),
                     prepend=bool(hk["prepend"]), always_call=bool(hk["always"]))
        self.m = dict(tu=flags["train_update"], eu=flags["eval_update"], pre=flags["as_prehook"], on=False, alive=True)
        with impl(f"construct {self.kind}"):
            if self.kind == "clamp":
                self.cmin, self.cmax = hk["min"], hk["max"]
                self.hook = Clamping(self.hooked, self.attr, min=self.cmin, max=self.cmax, **flags)
            else:
                self.order = float("inf") if hk["order"] == "inf" else hk["order"]
                self.scale = hk["scale"]
                nd = len(self.shape)
                dims = hk["dims"]
                if isinstance(dims, list):  # drop axes that coincide after wrapping
                    seen, uniq = set(), []
                    for dd in dims:
                        if dd % nd not in seen:
                            seen.add(dd % nd)
                            uniq.append(dd)
                    dims = uniq[0] if (len(uniq) == 1 and hk.get("scalar_dim")) else tuple(uniq)
                self.dims = dims
                self.hook = Normalization(self.hooked, self.attr, self.order, self.scale, self.dims, **flags)
        self.stats = dict.fromkeys(["fired_decisive", "fired", "suppressed_decisive", "suppressed", "manual",
                                    "zero_vectors", "prepos"], 0)

    # -- attribute access (test side)
    def get(self):
        if self.chain is not None:
            return getattr(self.chain[-1], "w")
        return getattr(self.owner, self.attr.split(".")[-1])

    def attr_names(self):
        """Attribute names (plain, parameters, buffers, submodules) of every object on the dotted path."""
        if self.chain is None:
            return None
        return [frozenset(vars(o)) | frozenset(o._parameters) | frozenset(o._buffers) | frozenset(o._modules)
                for o in self.chain]

    def check_no_stray(self, what):
        if self.chain is None:
            return
        now = self.attr_names()
        for depth, (a, b) in enumerate(zip(self.names0, now)):
            check(a == b, "path:stray",
                  lambda: f"{what}: attribute set of the object at depth {depth} of '{self.attr}' changed: "
                          f"new {sorted(b - a)}, lost {sorted(a - b)}")

    def set_values(self, pool):
        n = int(np.prod(self.shape))
        arr = np.array([pool[j % len(pool)] for j in range(n)], dtype=np.float64).reshape(self.shape)
        t = torch.tensor(arr, dtype=torch.float64).to(DT[self.dtype])
        if self.chain is not None:
            self.chain[-1].w = t
        else:
            setattr(self.owner, self.attr.split(".")[-1], t)

    def np(self, t):
        return t.detach().to(torch.float64).numpy().copy()

    # -- documented post-conditions
    def satisfied(self, arr):
        """(ok, detail) of the documented post-condition on attribute values ``arr`` (float64 copy)."""
        if self.kind == "clamp":
            # integer attributes: a non-integral bound promotes the result to float32
            npdt = NPDT.get(self.dtype, np.float32)
            ok = np.ones(arr.shape, dtype=bool)
            if self.cmin is not None:
                ok &= (arr >= self.cmin) | (arr >= float(npdt(self.cmin)))
            if self.cmax is not None:
                ok &= (arr <= self.cmax) | (arr <= float(npdt(self.cmax)))
            return bool(ok.all()), f"values {arr.tolist()} not all within [{self.cmin}, {self.cmax}]"
        norms = _pnorm(arr, self.order, self.dims)
        rtol = 1e-5 if self.dtype == "float32" else 1e-9
        want = abs(self.scale)
        ok = np.abs(norms - want) <= rtol * want
        return bool(ok.all()), (f"{self.order}-norms along dim={self.dims} are {norms.squeeze().tolist()}, "
                                f"requested |scale|={want}; values {arr.tolist()}")

    def expect_after(self, before):
        """What the documented post-condition demands of the values after a firing, given ``before``."""
        if self.kind == "clamp":
            return None
        norms = _pnorm(before, self.order, self.dims)
        return np.broadcast_to(norms == 0, before.shape)  # mask of elements in zero vectors

    def judge(self, before, fires, what, manual=False):
        after = self.np(self.get())
        if not fires:
            same = np.array_equal(before, after) and np.array_equal(np.signbit(before), np.signbit(after))
            check(same, "fire:unarmed", lambda: f"{what}: hook not armed ({self.m}) but attribute changed "
                                                f"{before.tolist()} -> {after.tolist()}")
            self.stats["suppressed"] += 1
            if not self._sat_pre:
                self.stats["suppressed_decisive"] += 1
            return
        check(after.shape == before.shape, "post:shape", lambda: f"{what}: shape {before.shape} -> {after.shape}")
        if self.dtype not in INT_DTYPES:  # integer attributes may be promoted by non-integral bounds
            check(self.get().dtype == DT[self.dtype], "post:dtype", lambda: f"{what}: dtype became {self.get().dtype}")
        if self.kind == "clamp":
            ok, detail = self.satisfied(after)
            check(ok, "clamp:range", lambda: f"{what}: after the clamping hook ran, {detail} (before {before.tolist()})")
        else:
            zmask = self.expect_after(before)
            nz = ~zmask
            check(bool((after[zmask] == 0).all()), "norm:zero",
                  lambda: f"{what}: zero vectors did not stay zero: before {before.tolist()} after {after.tolist()}")
            self.stats["zero_vectors"] += int(zmask.any())
            if nz.any():
                norms = _pnorm(after, self.order, self.dims)
                normsb = np.broadcast_to(norms, after.shape)
                rtol = 1e-5 if self.dtype == "float32" else 1e-9
                want = abs(self.scale)
                bad = nz & ~(np.abs(normsb - want) <= rtol * want)
                check(not bool(bad.any()), "norm:value",
                      lambda: f"{what}: after the normalisation hook ran the {self.order}-norms along dim={self.dims} are "
                              f"{norms.squeeze().tolist()}, requested |scale|={want}; before {before.tolist()} after {after.tolist()}")
        self.stats["fired"] += 1
        if not self._sat_pre:
            self.stats["fired_decisive"] += 1

    def pre_state(self):
        before = self.np(self.get())
        if self.kind == "clamp":
            self._sat_pre = self.satisfied(before)[0]
        else:
            zmask = self.expect_after(before)
            norms = np.broadcast_to(_pnorm(before, self.order, self.dims), before.shape)
            want = abs(self.scale)
            self._sat_pre = bool((zmask | (np.abs(norms - want) <= 1e-3 * want)).all())
        return before

    def armed(self):
        tr = self.hooked.training
        return self.m["alive"] and self.m["on"] and ((self.m["tu"] and tr) or (self.m["eu"] and not tr))

    def check_handles(self, what):
        want = self.base + (1 if (self.m["alive"] and self.m["on"]) else 0)
        got = _nhandles(self.hooked)
        check(got == want, "handles:count", lambda: f"{what}: hooked module holds {got} handles, model says {want}")


def run_postcond(case):
    d = Post(case)
    d.check_handles("construct")
    for i, op in enumerate(case["ops"]):
        what = f"op#{i} {op} [{d.target}/{d.kind}]"
        name = op[0]
        if name == "set":
            d.set_values(op[1])
        elif name == "call":
            before = d.pre_state()
            fires = d.armed()
            with impl(what):
                d.fire()
            d.judge(before, fires, what)
            d.check_no_stray(what)
            if fires and d.target.startswith("box") and not d._sat_pre:
                seen = d.np(d.owner.seen)
                if d.m["pre"]:
                    ok = d.satisfied(seen)[0] if d.kind == "clamp" else not np.array_equal(seen, before)
                    check(ok, "position:pre", lambda: f"{what}: as_prehook=True but forward saw the untreated attribute {seen.tolist()}")
                else:
                    check(np.array_equal(seen, before), "position:post",
                          lambda: f"{what}: as_prehook=False but forward already saw {seen.tolist()} (before {before.tolist()})")
                d.stats["prepos"] += 1
        elif name == "manual":
            if not d.m["alive"]:
                continue
            force, ignore = bool(op[1]), bool(op[2])
            before = d.pre_state()
            tr = d.hooked.training
            fires = (d.m["on"] or force) and (ignore or (d.m["tu"] and tr) or (d.m["eu"] and not tr))
            with impl(what):
                d.hook(force=force, ignore_mode=ignore)
            d.judge(before, fires, what, manual=True)
            d.check_no_stray(what)
            d.stats["manual"] += 1
        elif name == "mode":
            with impl(what):
                d.hooked.train(bool(op[1]))
        elif name == "register":
            if not d.m["alive"]:
                continue
            with impl(what):
                d.hook.register()  # StateHook.register ignores a second registration
            d.m["on"] = True
        elif name == "deregister":
            if not d.m["alive"]:
                continue
            with impl(what):
                d.hook.deregister()
            d.m["on"] = False
        elif name == "flag":
            if not d.m["alive"]:
                continue
            with impl(what):
                if op[1]:
                    d.hook.trainexec = bool(op[2])
                else:
                    d.hook.evalexec = bool(op[2])
            d.m["tu" if op[1] else "eu"] = bool(op[2])
        elif name == "collect":
            if not d.m["alive"]:
                continue
            ref = weakref.ref(d.hook)
            d.hook = None
            d.m["alive"] = False
            if ref() is not None:  # reference counting already finalised it unless it sits in a cycle
                gc.collect()
            check(ref() is None, "collect:alive", lambda: f"{what}: hook still alive after its last reference was dropped")
        else:
            raise ValueError(name)
        d.check_handles(what)
    s = d.stats
    cls = [f"target={d.target}", f"kind={d.kind}", f"dtype={d.dtype}", f"path-depth={len(d.attr.split('.'))}"]
    if d.kind == "norm":
        cls += [f"order={d.order}", f"dims={d.dims}", "scale<0" if d.scale < 0 else "scale>0"]
    else:
        cls.append("one-sided" if (d.cmin is None or d.cmax is None) else "two-sided")
    for k in ("fired_decisive", "suppressed_decisive", "manual", "zero_vectors", "prepos"):
        if s[k]:
            cls.append(k)
    if not d.m["alive"]:
        cls.append("collected")
    return {"nt": bool(s["fired_decisive"] >= 1 and s["suppressed_decisive"] >= 1), "cls": cls}


# ------------------------------------------------------------------------------- generators

_raw = st.integers(0, 7)
_b = st.booleans()
_bt = st.sampled_from([True, True, True, False])
_mi = st.sampled_from([0, 0, 0, 1])


@st.composite
def lifecycle_case(draw, tier="quick"):
    hooks = draw(st.lists(st.tuples(_raw, _bt, _bt, _b, _b, _b, _mi).map(list), min_size=1, max_size=4))
    op = st.one_of(
        st.tuples(st.just("register"), _raw, _mi),
        st.tuples(st.just("register"), _raw, _mi),
        st.tuples(st.just("deregister"), _raw),
        st.tuples(st.just("manual"), _raw, _b, _b),
        st.tuples(st.just("flag"), _raw, _b, _b),
        st.tuples(st.just("collect"), _raw),
        st.tuples(st.just("mode"), _mi, _b),
        st.tuples(st.just("call"), _mi),
        st.tuples(st.just("call"), _mi),
        st.tuples(st.just("call"), _mi),
        st.tuples(st.just("call"), _mi),
    ).map(list)
    ops = draw(st.lists(op, min_size=6, max_size=40 if tier == "quick" else 60))
    if draw(st.integers(0, 3)) > 0:
        ops = [["register", k, draw(_mi)] for k in range(len(hooks))] + ops
    return {"hooks": hooks, "ops": ops}


@st.composite
def postcond_case(draw, tier="quick"):
    target = draw(st.integers(0, len(TARGETS) - 1))
    tname = TARGETS[target]
    if tname.startswith("box"):
        shape = draw(st.sampled_from([[2, 3], [3], [2, 2, 2], [1, 4], [4, 1]]))
    elif tname == "dense_bias":
        shape = [draw(st.sampled_from([2, 3, 4]))]
    else:
        shape = draw(st.sampled_from([[2, 3], [3, 2], [1, 3], [2, 1]]))
    nd = len(shape)
    kind = draw(st.sampled_from(["clamp", "norm", "norm"]))
    dtype = draw(st.sampled_from(["float32", "float32", "float64"]))
    if kind == "clamp" and tname.startswith("box") and draw(_b):
        dtype = draw(st.sampled_from(list(INT_DTYPES)))  # integer-typed attribute, mostly non-integral bounds
    flags = {"tu": draw(_bt), "eu": draw(_bt), "pre": draw(_b), "prepend": draw(_b), "always": draw(_b)}
    if kind == "clamp":
        which = draw(st.sampled_from([0, 0, 1, 2]))
        lims = LIMS_INT if dtype in INT_DTYPES else LIMS
        lo, hi = sorted(draw(st.lists(st.sampled_from(lims), min_size=2, max_size=2, unique_by=float)), key=float)
        hook = {"kind": "clamp", "min": None if which == 1 else lo, "max": None if which == 2 else hi, **flags}
        if dtype in INT_DTYPES:
            vals = st.sampled_from(IVALS + [int(np.floor(lo)), int(np.ceil(lo)), int(np.floor(hi)), int(np.ceil(hi))])
        else:
            vals = st.sampled_from(VALS + CLAMP_EXTRA + [float(lo), float(hi)])
    else:
        dims = draw(st.one_of(
            st.none(), st.sampled_from([0, -1, nd - 1, -nd]),
            st.lists(st.integers(-nd, nd - 1), min_size=1, max_size=nd).map(list)))
        hook = {"kind": "norm", "order": draw(st.sampled_from([0.5, 1, 2, 3, "inf", 1.5, 2.0, 1.0, 4, 6])),
                "scale": draw(st.sampled_from([1.0, -1.0, 2.0, 0.5, -3.0, 1, 10.0, 0.01])), "dims": dims,
                "scalar_dim": draw(_b), **flags}
        vals = st.sampled_from(VALS)
    pool = st.one_of(st.lists(vals, min_size=1, max_size=8), st.just([0.0]) if kind == "norm" else st.lists(vals, min_size=1, max_size=2))
    op = st.one_of(
        st.tuples(st.just("set"), pool), st.tuples(st.just("set"), pool),
        st.tuples(st.just("call")), st.tuples(st.just("call")), st.tuples(st.just("call")),
        st.tuples(st.just("manual"), _b, _b),
        st.tuples(st.just("mode"), _b),
        st.tuples(st.just("register")), st.tuples(st.just("deregister")),
        st.tuples(st.just("flag"), _b, _b),
    ).map(list)
    n = draw(st.integers(2, 6 if tier == "quick" else 9))
    ops = []
    for _ in range(n):
        # round: (life-cycle ops) -> write fresh values -> fire
        ops += draw(st.lists(op, min_size=0, max_size=4))
        ops.append(["set", draw(pool)])
        ops.append(draw(st.sampled_from([["call"], ["call"], ["manual", draw(_b), draw(_b)]])))
    if draw(_b):
        # a stretch that is certainly suppressed followed by one that certainly fires
        ops += [["deregister"], ["set", draw(pool)], ["call"], ["set", draw(pool)],
                ["manual", True, True] if draw(_b) else ["register"], ["mode", draw(_b)], ["set", draw(pool)], ["manual", draw(_b), True]]
    if draw(st.integers(0, 3)) == 0:
        ops += [["collect"], ["set", draw(pool)], ["call"]]
    if draw(st.integers(0, 3)) > 0:
        ops = [["register"]] + ops
    return {"target": target, "dtype": dtype, "shape": shape,
            "init": draw(pool), "hook": hook, "ops": ops}


LEGS = [
    Leg(
        name="lifecycle", run=run_lifecycle, strategy=lambda tier: lifecycle_case(tier),
        quick=1500, thorough=8000, quick_shards=8, thorough_shards=16, nt_floor=0.3,
        rule="operation sequence with >= 1 module call on which an armed hook fired and >= 1 module call on which a "
             "hook was suppressed (mode flag, not registered / registered elsewhere, or collected)",
    ),
    Leg(
        name="postcond", run=run_postcond, strategy=lambda tier: postcond_case(tier),
        quick=1500, thorough=8000, quick_shards=8, thorough_shards=16, nt_floor=0.2,
        rule="sequence around one Clamping / Normalization hook with >= 1 firing that turned freshly written, "
             "non-conforming attribute values into conforming ones and >= 1 module / manual call on which the hook "
             "was not armed and non-conforming values stayed untouched",
    ),
]

ASSUMPTIONS = [
    "CPU, CPython reference counting + gc.collect() for the object-lifetime clauses",
    "hook callbacks return None (input / output modification is not part of the property)",
    "relative order of several hooks on one module (prepend) and behaviour when forward raises (always_call) are "
    "torch semantics and not asserted; the flags are generated so that they cannot break the firing predicate",
    "double register: RuntimeError (Hook) or silent no-op (StateHook.register) are both accepted, state must not change",
    "Clamping is also run on int64 / int32 attributes with non-integral bounds (the unchanged tree promotes the "
    "result to float32; only min <= attr <= max on the stored value is asserted); Normalization only on floating attributes",
    "dotted attribute paths of 1-4 components on plain modules: after every firing the attribute-name sets of all objects "
    "on the path must be unchanged (no stray attribute)",
    "normalisation: elements are 0 or of magnitude in [1e-3, 1e3] (no vector with 0 < norm < 1e-3: epsilon regime), "
    "default epsilon; rtol 1e-5 (float32) / 1e-9 (float64); clamping limits compared as rounded to the working dtype",
]

"""C01 — RecordTensor is a faithful ring-buffer history under every operation order.

Legs
  history  : generated operation sequences (model-based, whole sequence shrinks as one value)
  onestep  : exhaustive enumeration of every operation x every argument from every
             (N, pointer) state with distinct contents (inductive one-step form)
Oracle: pbt.models.ring.Ring (a list of observations, no pointer arithmetic).
"""

from __future__ import annotations

import itertools

import numpy as np
import torch
import torch.nn as nn
from hypothesis import strategies as st

from ..harness import Leg, Violation, check, impl
from ..models.ring import Ring, conv

DT = {"float32": torch.float32, "float64": torch.float64, "int64": torch.int64, "bool": torch.bool}
SHAPES = [[], [1], [2], [2, 3], [1, 2, 2]]
KINDS = ["zeros", "none", "empty0", "param", "ubuf", "uparam"]


def _vals(pool, n, scale=0.5):
    return np.array([pool[j % len(pool)] * scale for j in range(n)], dtype=np.float64)


def _mk(case):
    from inferno.core.infrastructure import Module, RecordTensor

    owner = Module()
    shape = tuple(case["shape"])
    kind, dtype = case["kind"], case["dtype"]
    tdt = DT[dtype]
    if kind == "zeros":
        v = torch.zeros(shape, dtype=tdt)
    elif kind == "none":
        v = None
    elif kind == "empty0":
        v = torch.empty(0, dtype=tdt)
    elif kind == "param":
        v = nn.Parameter(torch.zeros(shape, dtype=tdt), requires_grad=False)
    elif kind == "ubuf":
        v = nn.UninitializedBuffer(dtype=tdt)
    elif kind == "uparam":
        v = nn.UninitializedParameter(requires_grad=False, dtype=tdt)
    else:
        raise ValueError(kind)
    RecordTensor.create(
        owner, "rec", case["dt"], case["duration"], v, inclusive=case["inclusive"]
    )
    return owner, owner.rec


def _t(arr, dtype):
    return torch.tensor(np.asarray(arr, dtype=np.float64), dtype=torch.float64).to(DT[dtype])


def _cmp(got, want, dtype, kind, what, want_shape=None):
    check(isinstance(got, torch.Tensor), kind + ":type", lambda: f"{what}: got {type(got)}")
    want = np.asarray(want, dtype=np.float64)
    shp = tuple(want.shape) if want_shape is None else tuple(want_shape)
    check(tuple(got.shape) == shp, kind + ":shape", lambda: f"{what}: shape {tuple(got.shape)} != {shp}")
    if dtype is not None:
        check(got.dtype == DT[dtype], kind + ":dtype", lambda: f"{what}: dtype {got.dtype} != {dtype}")
    g = got.detach().to(torch.float64).numpy()
    check(
        np.array_equal(g, want),
        kind + ":value",
        lambda: f"{what}: got {g.tolist()} want {want.tolist()}",
    )


def _full_check(rt, ring, what):
    n = ring.n
    with impl("recordsz/pointer/value"):
        rs, ptr, val = rt.recordsz, rt.pointer, rt.value
    check(rs == n, "state:recordsz", lambda: f"{what}: recordsz {rs} != {n}")
    check(isinstance(ptr, int) and 0 <= ptr < n, "state:pointer", lambda: f"{what}: pointer {ptr} not in [0,{n})")
    check(val is not None and val.shape[0] == n and tuple(val.shape[1:]) == ring.shape,
          "state:valueshape", lambda: f"{what}: value shape {None if val is None else tuple(val.shape)}")
    check(val.dtype == DT[ring.dtype], "state:dtype", lambda: f"{what}: storage dtype {val.dtype} != {ring.dtype}")
    for k in range(n):
        with impl(f"read({k}) after {what}"):
            got = rt.read(k)
        _cmp(got, ring.read(k), ring.dtype, "hist", f"read({k}) after {what}")


def _offset(spec, n, shape, forward_len=None):
    """Decode an offset spec into (python value for the model, argument for the impl)."""
    if spec[0] == "s":
        o = spec[1] % (2 * n + 1)
        return o, o
    numel = int(np.prod(shape)) if shape else 1
    raw = spec[1]
    flat = [raw[j % len(raw)] % (2 * n + 1) for j in range(numel)]
    arr = np.array(flat, dtype=np.int64).reshape(shape)
    odt = {"i32": torch.int32, "u8": torch.uint8}.get(spec[2] if len(spec) > 2 else None, torch.int64)
    return arr, torch.tensor(arr, dtype=odt)  # offsets are small non-negative integers: any integer dtype holds them


def run_ops(rt, ring, case, ops, stats):
    """Apply ops to implementation and model; full comparison after every op."""
    shape = tuple(case["shape"])
    numel = int(np.prod(shape)) if shape else 1
    for i, op in enumerate(ops):
        name = op[0]
        what = f"op#{i} {op}"
        init = ring is not None
        if not init:
            # uninitialised (ignored) storage: documented behaviour
            if name == "push":
                pool, inplace, odt = op[1], op[2], op[3]
                # record dtype: None storage adopts the observation's dtype
                rdt = case["dtype"] if case["kind"] != "none" else (case["dtype"] if odt == "same" else odt)
                obsdt = case["dtype"] if odt == "same" else odt
                vals = conv(obsdt, _vals(pool, numel)).reshape(shape)
                with impl(what):
                    rt.push(_t(vals, obsdt), inplace=inplace)
                    n = rt.recordsz
                ring = Ring(n, shape, rdt)
                ring.push(vals)
                stats["pushes"] += 1
                stats["autoinit"] += 1
                _full_check(rt, ring, what)
            elif name in ("peek", "latest_get", "pop"):
                with impl(what):
                    got = rt.peek() if name == "peek" else (rt.latest if name == "latest_get" else rt.pop())
                check(got is None, "uninit:notnone", lambda: f"{what}: expected None on uninitialised storage")
            elif name == "read":
                try:
                    rt.read(op[1] % 3)
                except RuntimeError:
                    pass
                except Exception as e:  # noqa: BLE001
                    raise Violation("uninit:wrongexc", f"{what}: {type(e).__name__}") from e
                else:
                    raise Violation("uninit:noraise", f"{what}: read on uninitialised storage returned")
            continue

        n = ring.n
        if name == "push":
            pool, inplace, odt = op[1], op[2], op[3]
            obsdt = ring.dtype if odt == "same" else odt
            vals = conv(obsdt, _vals(pool, numel)).reshape(shape)
            with impl(what):
                rt.push(_t(vals, obsdt), inplace=inplace)
            ring.push(vals)
            stats["pushes"] += 1
        elif name == "latest_set":
            vals = conv(ring.dtype, _vals(op[1], numel)).reshape(shape)
            with impl(what):
                rt.latest = _t(vals, ring.dtype)
            ring.push(vals)
            stats["pushes"] += 1
        elif name == "latest_del":
            with impl(what):
                del rt.latest
            ring.decr(1)
            stats["moves"] += 1
        elif name == "pop":
            with impl(what):
                got = rt.pop()
            _cmp(got, ring.pop(), ring.dtype, "pop", what)
            stats["moves"] += 1
        elif name in ("peek", "latest_get"):
            with impl(what):
                got = rt.peek() if name == "peek" else rt.latest
            _cmp(got, ring.read(1), ring.dtype, "peek", what)
        elif name == "read":
            k = op[1] % (2 * n + 1)
            with impl(what):
                got = rt.read(k)
            _cmp(got, ring.read(k), ring.dtype, "read", what)
        elif name == "write":
            pool, kraw, inplace, odt = op[1], op[2], op[3], op[4]
            k = kraw % (2 * n + 1)
            obsdt = ring.dtype if odt == "same" else odt
            vals = conv(obsdt, _vals(pool, numel)).reshape(shape)
            with impl(what):
                rt.write(_t(vals, obsdt), offset=k, inplace=inplace)
            ring.write(vals, k)
        elif name == "readrange":
            L = 1 + op[1] % n
            om, oi = _offset(op[2], n, shape)
            fwd = op[3]
            ptr = rt.pointer
            with impl(what):
                got = rt.readrange(L, oi, forward=fwd)
            want = ring.readrange(L, om, fwd)
            _cmp(got, want, ring.dtype, "readrange", f"{what} (N={n} L={L} off={np.asarray(om).tolist()} ptr={ptr})")
            _classify_range(stats, n, L, om, fwd, ptr)
        elif name == "writerange":
            pool, L = op[1], 1 + op[2] % n
            om, oi = _offset(op[3], n, shape)
            fwd, inplace = op[4], op[5]
            vals = conv(ring.dtype, _vals(pool, numel * L)).reshape(shape + (L,))
            ptr = rt.pointer
            with impl(what):
                rt.writerange(_t(vals, ring.dtype), oi, forward=fwd, inplace=inplace)
            ring.writerange(vals, om, fwd)
            _classify_range(stats, n, L, om, fwd, ptr)
        elif name == "incr":
            p = op[1] % (2 * n + 1)
            with impl(what):
                r = rt.incr(p)
            ring.incr(p)
            check(r == rt.pointer, "incr:return", lambda: f"{what}: returned {r}, pointer {rt.pointer}")
            stats["moves"] += 1 if p % n else 0
        elif name == "decr":
            p = op[1] % (2 * n + 1)
            with impl(what):
                rt.decr(p)
            ring.decr(p)
            stats["moves"] += 1 if p % n else 0
        elif name == "align":
            idx = op[1] % n
            with impl(what):
                rt.align(idx)
            check(rt.pointer == idx, "align:pointer", lambda: f"{what}: pointer {rt.pointer} != {idx}")
            stats["moves"] += 1
        elif name == "reset":
            fill = op[1]
            with impl(what):
                rt.reset(fill)
            if fill is not None:
                ring.reset(fill)
            check(rt.pointer == 0, "reset:pointer", lambda: f"{what}: pointer {rt.pointer} != 0")
        elif name == "bad_push":
            # a push of a wrong-shaped observation must be rejected with ValueError and leave the record untouched
            bad = torch.zeros(shape + (2,), dtype=DT[ring.dtype]) if op[1] else torch.zeros((3,) + shape + (1,), dtype=DT[ring.dtype])
            try:
                rt.push(bad, inplace=op[2])
            except ValueError:
                pass
            except Exception as e:  # noqa: BLE001
                raise Violation("reject:wrongexc", f"{what}: {type(e).__name__}: {e}") from e
            else:
                raise Violation("reject:accepted", f"{what}: wrong-shaped observation accepted by push")
        elif name == "bad_write":
            # wrong observation shape must be rejected with ValueError, state untouched
            bad = torch.zeros(shape + (2,), dtype=DT[ring.dtype]) if op[1] else torch.zeros((3,) + shape + (1,), dtype=DT[ring.dtype])
            try:
                rt.write(bad, offset=0, inplace=op[2])
            except ValueError:
                pass
            except Exception as e:  # noqa: BLE001
                raise Violation("reject:wrongexc", f"{what}: {type(e).__name__}: {e}") from e
            else:
                raise Violation("reject:accepted", f"{what}: wrong-shaped observation accepted")
        elif name == "long_writerange":
            bad = torch.zeros(shape + (n + 1 + op[1] % 2,), dtype=DT[ring.dtype])
            try:
                rt.writerange(bad, 0, forward=op[2], inplace=op[3])
            except ValueError:
                pass
            except Exception as e:  # noqa: BLE001
                raise Violation("reject:wrongexc", f"{what}: {type(e).__name__}: {e}") from e
            else:
                raise Violation("reject:accepted", f"{what}: range longer than the record accepted")
        else:
            raise ValueError(name)
        _full_check(rt, ring, what)
        if stats["moves"] and name not in ("incr", "decr", "align", "latest_del", "pop"):
            stats["reads_after_move"] += 1  # every op is followed by a read of all N slots
    return ring


def _classify_range(stats, n, L, om, fwd, ptr):
    if L == n:
        stats["range_fullN"] += 1
    offs = np.atleast_1d(np.asarray(om)).ravel()
    for o in offs:
        kstart = int(o) if fwd else int(o) + L - 1
        start = (ptr - kstart) % n
        if start + L > n:
            stats["range_wrap"] += 1
            break
    if np.asarray(om).ndim > 0:
        stats["range_tensor"] += 1
        if len(set(offs.tolist())) > 1:
            stats["range_tensor_hetero"] += 1


def run_history(case):
    stats = dict.fromkeys(
        ["pushes", "moves", "reads_after_move", "range_fullN", "range_wrap", "range_tensor",
         "range_tensor_hetero", "autoinit"], 0)
    with impl("construct"):
        owner, rt = _mk(case)
    shape = tuple(case["shape"])
    ring = None
    if case["kind"] in ("zeros", "param"):
        ring = Ring(rt.recordsz, shape, case["dtype"])
        _full_check(rt, ring, "construct")
    ring = run_ops(rt, ring, case, case["ops"], stats)
    n = rt.recordsz
    cls = [f"N={n if n <= 3 else '4+'}", f"kind={case['kind']}", f"dtype={case['dtype']}"]
    for k in ("range_fullN", "range_wrap", "range_tensor_hetero", "autoinit"):
        if stats[k]:
            cls.append(k)
    nt = (
        stats["pushes"] >= n
        and stats["moves"] >= 1
        and stats["reads_after_move"] >= 1
        and (stats["range_fullN"] or stats["range_wrap"])
    )
    return {"nt": bool(nt), "cls": cls}


# ---------------------------------------------------------------------------- generators

_pool = st.lists(st.integers(-12, 12), min_size=1, max_size=6)
_raw = st.integers(0, 40)


def _offspec():
    return st.one_of(
        st.tuples(st.just("s"), _raw),
        st.tuples(st.just("t"), st.lists(_raw, min_size=1, max_size=6)),
        st.tuples(st.just("t"), st.lists(_raw, min_size=1, max_size=6), st.sampled_from(["i32", "u8"])),
    ).map(list)


def _op(mixed):
    odt = st.sampled_from(["same", "same", "same", "float32", "float64", "int64"]) if mixed else st.just("same")
    b = st.booleans()
    return st.one_of(
        st.tuples(st.just("push"), _pool, b, odt),
        st.tuples(st.just("push"), _pool, b, odt),
        st.tuples(st.just("pop")),
        st.tuples(st.just("peek")),
        st.tuples(st.just("latest_get")),
        st.tuples(st.just("latest_set"), _pool),
        st.tuples(st.just("latest_del")),
        st.tuples(st.just("read"), _raw),
        st.tuples(st.just("write"), _pool, _raw, b, odt),
        st.tuples(st.just("readrange"), _raw, _offspec(), b),
        st.tuples(st.just("readrange"), _raw, _offspec(), b),
        st.tuples(st.just("writerange"), _pool, _raw, _offspec(), b, b),
        st.tuples(st.just("incr"), _raw),
        st.tuples(st.just("decr"), _raw),
        st.tuples(st.just("align"), _raw),
        st.tuples(st.just("reset"), st.sampled_from([0, None, None, 3, -2])),
        st.tuples(st.just("bad_write"), b, b),
        st.tuples(st.just("bad_push"), b, b),
        st.tuples(st.just("long_writerange"), _raw, b, b),
    ).map(list)


@st.composite
def history_case(draw, tier="quick"):
    n = draw(st.sampled_from([1, 1, 2, 2, 3, 3, 4, 5, 6, 7, 8]))
    incl = draw(st.booleans())
    dt = draw(st.sampled_from([1.0, 0.5, 0.25, 2.0]))
    # exact dyadic arithmetic: duration chosen so the documented formula gives n
    # (the size formula itself, incl. non-representable ratios, is C13's business)
    steps = n - (1 if incl else 0)
    if steps < 0 or (steps == 0 and not incl and n != 1):
        incl, steps = False, n
    if n == 1 and not incl:
        steps = draw(st.sampled_from([0, 1]))
    if draw(st.integers(0, 3)) == 0 and steps >= 1:
        duration = (steps - 0.5) * dt  # non-multiple: ceil
    else:
        duration = steps * dt
    kind = draw(st.sampled_from(KINDS + ["zeros", "zeros", "none"]))
    dtype = draw(st.sampled_from(["float32", "float32", "float64", "int64", "bool"]))
    shape = draw(st.sampled_from(SHAPES + [[2], []]))
    maxops = 40 if tier == "quick" else 80
    mixed = dtype != "bool" and draw(st.integers(0, 3)) == 0
    ops = draw(st.lists(_op(mixed), min_size=3, max_size=maxops))
    if draw(st.integers(0, 9)) < 7:
        # construction, not rejection: fill the record first so later reads see real history
        ops = [["push", draw(_pool), draw(st.booleans()), "same"] for _ in range(n)] + ops
    if draw(st.integers(0, 2)) == 0:
        # block: reset(f); 1-3 writes of ONE generated kind (any write must leave the storage ready for the
        # next reset); reset(f) with the same fill -- inserted at a generated position
        f = draw(st.sampled_from([0, 3, -2]))
        wkind = draw(st.sampled_from(["push", "write", "writerange_s", "writerange_t"]))
        ip = draw(st.booleans())
        block = [["reset", f]]
        for _ in range(draw(st.integers(1, 3))):
            if wkind == "push":
                block.append(["push", draw(_pool), ip, "same"])
            elif wkind == "write":
                block.append(["write", draw(_pool), draw(_raw), ip, "same"])
            else:
                osp = ["s", draw(_raw)] if wkind == "writerange_s" else ["t", draw(st.lists(_raw, min_size=1, max_size=4))]
                block.append(["writerange", draw(_pool), draw(_raw), osp, draw(st.booleans()), ip])
            if draw(st.booleans()):
                block.append(["incr", draw(_raw)])
        block += [["reset", f], ["read", draw(_raw)]]
        pos = draw(st.integers(0, len(ops)))
        ops = ops[:pos] + block + ops[pos:]
    if kind in ("none", "empty0", "ubuf", "uparam") and draw(st.integers(0, 4)) > 0:
        # make sure the lazily created storage is reached: start with a push
        # the first push may carry another dtype than the one the placeholder declares: only None
        # storage adopts the observation's dtype, a declared dtype must be kept
        ops = [["push", draw(_pool), draw(st.booleans()),
                draw(st.sampled_from(["same", "float32", "float64", "int64"])) if (kind == "none" or dtype != "bool") else "same"]] + ops
        if draw(st.booleans()):
            ops.insert(1, ["push", draw(_pool), draw(st.booleans()), "same"])
    return {"dt": dt, "duration": duration, "inclusive": incl, "kind": kind, "dtype": dtype,
            "shape": shape, "ops": ops}


# ---------------------------------------------------------------------------- one-step leg


def _onestep_cases(tier):
    nmax = 3 if tier == "quick" else 6
    for n in range(1, nmax + 1):
        offs = list(range(0, 2 * n + 1))
        lens = list(range(1, n + 1))
        opsets = []
        for k in offs:
            opsets.append(["read", k])
            for ip in (False, True):
                opsets.append(["write", [21, 22], k, ip, "same"])
        for p_ in offs:
            opsets.append(["incr", p_])
            opsets.append(["decr", p_])
        for i_ in range(n):
            opsets.append(["align", i_])
        for ip in (False, True):
            opsets.append(["push", [23, 24], ip, "same"])
        opsets += [["pop"], ["peek"], ["latest_del"], ["reset", 0], ["reset", None], ["reset", 5]]
        for L in lens:
            for o in offs:
                # scalar, constant tensor, two-valued tensors
                ospecs = [["s", o], ["t", [o]], ["t", [o, (o + 1) % (2 * n + 1)]], ["t", [o, (o + n) % (2 * n + 1)]]]
                for osp in ospecs:
                    for fwd in (False, True):
                        opsets.append(["readrange", L - 1, osp, fwd])
                        for ip in (False, True):
                            opsets.append(["writerange", [31, 32, 33, 34, 35, 36, 37, 38, 39, 40, 41, 42], L - 1, osp, fwd, ip])
        for p in range(n):
            for op in opsets:
                yield {"N": n, "p": p, "op": op}


def run_onestep(case):
    n, p = case["N"], case["p"]
    cfg = {"dt": 1.0, "duration": float(n), "inclusive": False, "kind": "zeros",
           "dtype": "float32", "shape": [2]}
    with impl("construct"):
        owner, rt = _mk(cfg)
    check(rt.recordsz == n, "state:recordsz", f"recordsz {rt.recordsz} != {n}")
    ring = Ring(n, (2,), "float32")
    # contents: N distinct ids per element, pointer brought to p by N + p pushes
    stats = dict.fromkeys(
        ["pushes", "moves", "reads_after_move", "range_fullN", "range_wrap", "range_tensor",
         "range_tensor_hetero", "autoinit"], 0)
    pre = [["push", [2 * (j + 1), 2 * (j + 1) + 100], False, "same"] for j in range(n + p)]
    ring = run_ops(rt, ring, cfg, pre, stats)
    check(rt.pointer == p % n, "state:pointer", f"after {n + p} pushes pointer {rt.pointer} != {p % n}")
    run_ops(rt, ring, cfg, [case["op"]], stats)
    cls = [f"N={n}", case["op"][0]]
    return {"nt": True, "cls": cls}


LEGS = [
    Leg(
        name="history",
        run=run_history,
        strategy=lambda tier: history_case(tier),
        quick=400, thorough=3000, quick_shards=4, thorough_shards=12, nt_floor=0.15, fuzz_runs=20_000,
        rule="operation sequence with >= N pushes, >= 1 pointer move (incr/decr/pop/align/del latest) "
             "followed by a read, and >= 1 range op that wraps the end of storage or has length N; "
             "distinct by SHA-1 of the case",
    ),
    Leg(
        name="onestep",
        run=run_onestep,
        enumerate=_onestep_cases,
        quick_shards=4, thorough_shards=4, nt_floor=0.5,
        rule="every operation x every argument (offset in [0,2N], length in [1,N], forward, scalar / "
             "constant-tensor / two-valued-tensor offset, inplace) from every (N, pointer) state with "
             "distinct contents; N<=3 quick, N<=6 thorough; all cases non-trivial",
        exhaustive_note="finite one-step domain enumerated completely",
    ),
]

ASSUMPTIONS = [
    "CPU only; values are small half-integers exactly representable in every dtype used",
    "writerange observations use the record's own dtype (dtype promotion of the contiguous out-of-place path is documented as 'may change' and is not asserted)",
    "record size N is read back from recordsz (the size formula is C13's subject)",
]

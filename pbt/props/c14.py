"""C14 — configuration-path independence: setters reach the same model as the constructor.

Relational oracle: instance S is built with a start configuration and brought to a target
configuration by a generated sequence of property assignments (possibly revisiting attributes);
instance F is constructed directly with the target configuration.  (i) every getter reports the
assigned value and getters of OTHER attributes are unchanged by each single assignment; (ii) sizes
/ shapes / dtypes of all internal histories equal F's; (iii) after clear() both produce identical
outputs (and delayed reads) on the same inputs.  For .to(float64): state stays float64 through
steps and clear(), outputs equal the float32 instance's at rtol 1e-5.
"""

from __future__ import annotations

import numpy as np
import torch
from hypothesis import strategies as st

from .. import builders as B
from ..harness import Leg, check, impl


def _records(mod):
    """name -> (recordsz, observation shape, dtype) of every RecordTensor attribute (recursively)."""
    from inferno.core.infrastructure import RecordTensor

    out = {}
    for mname, m in mod.named_modules():
        for k, v in list(vars(m).items()):
            if isinstance(v, RecordTensor):
                val = v.value
                out[f"{mname}.{k}"] = (v.recordsz, None if v.ignored else tuple(val.shape[1:]),
                                       None if v.ignored else str(val.dtype), v.dt, v.duration, bool(v.inclusive))
    return out


# ---------------------------------------------------------------------------- per-kind rigs


def _build(kind, cfg):
    from inferno import observe

    dt, bsz = cfg["dt"], cfg["batch"]
    if kind == "neuron":
        ncfg = dict(cfg["neuron"])
        ncfg["refrac"] = cfg["neuron"]["refrac"] * cfg["dt0"] / dt  # the refractory period is a time (ms), not a step count
        return B.make_neuron(ncfg, dt, bsz)
    if kind == "synapse":
        s = dict(cfg["syn"])
        s["inplace"] = cfg["inplace"]
        return B.synapse_ctor(s)(tuple(cfg["shape"]), dt, cfg["delay"] * cfg["dt0"], bsz)
    if kind == "connection":
        c = dict(cfg["conn"])
        c["syn"] = dict(c["syn"], cls=cfg["syncls"])
        if c.get("delay") is not None and dt != cfg["dt0"]:
            # the maximum delay is a time (ms): keep it when the step time differs (delays are copied later)
            c["delay"] = c["delay"] * cfg["dt0"] / dt
            c["delays"] = "zero"
        return B.make_connection(c, dt, bsz)
    if kind == "layer":
        from . import c17 as L

        lc = dict(cfg["layer"])
        lc["batch"], lc["dt"] = bsz, dt
        layer, comps = L.build(lc, True)
        layer._verif_comps, layer._verif_case = comps, lc
        return layer
    if kind == "record":
        from inferno.core.infrastructure import Module, RecordTensor

        m = Module()
        RecordTensor.create(m, "rec", dt, cfg["duration"], torch.zeros(tuple(cfg["shape"])), inclusive=cfg["inclusive"])
        m.clear = lambda: m.rec.reset(0)
        return m
    if kind == "reducer":
        dur = cfg["duration"]
        name = cfg["red"]
        if name == "CA":
            return observe.CAReducer(dt, duration=dur, inplace=cfg["inplace"])
        if name == "EMA":
            return observe.EMAReducer(dt, 0.25, duration=dur, inplace=cfg["inplace"])
        if name == "passthrough":
            return observe.PassthroughReducer(dt, duration=dur, inplace=cfg["inplace"])
        if name == "trace":
            return observe.CumulativeTraceReducer(dt, 10.0, 1.0, True, duration=dur, inplace=cfg["inplace"])
        if name == "nearest":
            return observe.NearestTraceReducer(dt, 10.0, 1.0, True, duration=dur, inplace=cfg["inplace"])
    raise ValueError(kind)


GETTERS = {
    "neuron": ["dt", "batchsz"],
    "synapse": ["dt", "delay", "batchsz", "inplace"],
    "connection": ["dt", "batchsz"],
    "reducer": ["dt", "duration", "inplace"],
    "record": ["dt", "duration", "inclusive"],
    "layer": [],
}


def _get(kind, obj):
    if kind == "record":
        obj = obj.rec
    return {g: getattr(obj, g) for g in GETTERS[kind]}


def _drive(kind, obj, cfg, xs, t):
    """One step; returns dict of observables."""
    if kind == "neuron":
        kw = {"adapt": False} if cfg["neuron"]["cls"] in B.ADAPTIVE else {}
        o = obj(xs["cur"][t], **kw)
        return {"out": o, "voltage": obj.voltage, "refrac": obj.refrac, "spike": obj.spike}
    if kind == "synapse":
        args = (xs["spk"][t],) if cfg["syn"]["cls"] != "DeltaPlusCurrent" else (xs["spk"][t].float(), xs["inj"][t])
        o = obj(*args)
        obs = {"out": o, "spike": obj.spike}
        nsteps = int(round(obj.delay / obj.dt))
        for j in range(nsteps + 1):
            sel = torch.full(obj.batchedshape, float(j) * obj.dt).clamp(max=obj.delay)
            obs[f"current_at[{j}]"] = obj.current_at(sel)
            obs[f"spike_at[{j}]"] = obj.spike_at(sel)
        # one step beyond the supported delay must be out of bounds in both
        sel = torch.full(obj.batchedshape, obj.delay + obj.dt)
        obs["current_at[beyond]"] = obj.current_at(sel)
        obs["spike_at[beyond]"] = obj.spike_at(sel)
        return obs
    if kind == "connection":
        syn = obj.synapse
        args = (xs["spk"][t],) if type(syn).__name__ != "DeltaPlusCurrent" else (xs["spk"][t].float(), xs["inj"][t])
        o = obj(*args)
        return {"out": o, "current": obj.synapse.current, "syncurrent": obj.syncurrent}
    if kind == "layer":
        from . import c11 as C11

        lc = obj._verif_case
        outs, _ = C11._layer_step(lc, obj, {k: v[t] for k, v in xs.items()})
        obs = {f"out:{k}": v for k, v in outs.items()}
        for k, n in obj._verif_comps["neur"].items():
            obs[f"voltage:{k}"] = n.voltage
        return obs
    if kind == "record":
        rec = obj.rec
        rec.push(xs["obs"][t].float().reshape(-1)[: int(np.prod(cfg["shape"]) or 1)].reshape(tuple(cfg["shape"])))
        obs = {f"read[{k}]": rec.read(k) for k in range(rec.recordsz)}
        for j in range(rec.recordsz):
            obs[f"select[{j}]"] = rec.select(j * rec.dt, tolerance=1e-9 * rec.dt)
        return obs
    if kind == "reducer":
        x = xs["obs"][t]
        before = None if obj.data_.ignored else obj.data_.value.data_ptr()
        obj(x if cfg["red"] in ("trace", "nearest") else x.float())
        obs = {"peek": obj.peek()}
        if before is not None:
            # observable meaning of `inplace`: the record's storage is reused by a fold
            obs["storage_reused"] = torch.tensor(obj.data_.value.data_ptr() == before)
        d = obj.dump()
        if d is not None:
            obs["dump"] = d
        return obs
    raise ValueError(kind)


def _inputs(kind, cfg, T, seed):
    bsz = cfg["batch"]
    if kind == "neuron":
        return {"cur": torch.tensor(B.dyadic(seed, (T, bsz) + tuple(cfg["neuron"]["shape"]), -40, 400, 8), dtype=torch.float32)}
    if kind == "synapse":
        shape = tuple(cfg["shape"])
        return {"spk": torch.tensor(B.spikes_from(seed, T, (bsz,) + shape, 0.5)),
                "inj": torch.tensor(B.dyadic(seed + 1, (T, bsz) + shape, -8, 8, 4), dtype=torch.float32)}
    if kind == "connection":
        inshape, _ = B.conn_shapes(cfg["conn"])
        return {"spk": torch.tensor(B.spikes_from(seed, T, (bsz,) + inshape, 0.5)),
                "inj": torch.tensor(B.dyadic(seed + 1, (T, bsz) + inshape, -8, 8, 4), dtype=torch.float32)}
    if kind == "layer":
        from . import c17 as L

        lc = cfg["layer"]
        out = {}
        for name, c in lc["conns"].items():
            if lc["kind"] == "recurrent" and name != "ff":
                continue
            inshape, _ = B.conn_shapes(c)
            out[name] = torch.tensor(B.spikes_from(seed + L.hash_name(name), T, (bsz,) + inshape, 0.6))
        return out
    if kind == "record":
        return {"obs": torch.tensor(B.dyadic(seed, (T, 6), -8, 8, 4), dtype=torch.float32)}
    return {"obs": torch.tensor(B.spikes_from(seed, T, (2, 3), 0.5))}


def _apply(kind, obj, cfg, attr, val):
    """Assign one attribute on the instance and in the configuration dict."""
    if kind == "layer":
        # the layer has no setters of its own: the configuration is assigned on every component
        for m in list(obj._verif_comps["conn"].values()) + list(obj._verif_comps["neur"].values()):
            setattr(m, "batchsz" if attr == "batchsz" else attr, val)
        cfg["batch" if attr == "batchsz" else attr] = val
        return None
    if kind == "record":
        setattr(obj.rec, attr, val)
        cfg[attr] = val
        return None
    if attr == "dt":
        obj.dt = val
        cfg["dt"] = val
    elif attr == "batchsz":
        obj.batchsz = val
        cfg["batch"] = val
    elif attr == "delay":  # value is in units of the construction-time step (dt0)
        obj.delay = val * cfg["dt0"]
        cfg["delay"] = val
    elif attr == "inplace":
        obj.inplace = val
        cfg["inplace"] = val
    elif attr == "duration":
        obj.duration = val
        cfg["duration"] = val
    elif attr == "synapse":
        s = dict(cfg["conn"]["syn"], cls=val)
        K = cfg["conn"].get("delay")
        new = B.synapse_ctor(s)(obj.synapse.shape, cfg["dt"], 0.0 if K is None else K * cfg["dt0"], cfg["batch"])
        obj.synapse = new
        cfg["syncls"] = val
        return new
    return None


def _expected_getters(kind, cfg):
    g = {"dt": cfg["dt"]}
    if kind == "layer":
        return {}
    if kind == "record":
        return {"dt": cfg["dt"], "duration": cfg["duration"], "inclusive": cfg["inclusive"]}
    if kind in ("neuron", "synapse", "connection"):
        g["batchsz"] = cfg["batch"]
    if kind == "synapse":
        g["delay"] = cfg["delay"] * cfg["dt0"]
        g["inplace"] = cfg["inplace"]
    if kind == "reducer":
        g["duration"] = cfg["duration"]
        g["inplace"] = cfg["inplace"]
    return g


def run_path(case):
    kind = case["kind"]
    cfg = {k: (dict(v) if isinstance(v, dict) else v) for k, v in case["cfg"].items()}
    cfg["dt0"] = cfg["dt"]
    with impl("construct start configuration"):
        S = _build(kind, cfg)
    changed_size = False
    rec0 = _records(S)
    if case.get("presteps"):
        pxs = _inputs(kind, cfg, case["presteps"], case["sseed"] + 31)
        with impl("steps before the assignments"):
            for t in range(case["presteps"]):
                _drive(kind, S, cfg, pxs, t)
    for i, (attr, val) in enumerate(case["ops"]):
        before = _get(kind, S)
        what = f"op#{i} {attr} = {val!r}"
        with impl(what):
            new = _apply(kind, S, cfg, attr, val)
        after = _get(kind, S)
        exp = _expected_getters(kind, cfg)
        for g, v in exp.items():
            check(after[g] == v, "getter:assigned" if g == {"batchsz": "batchsz"}.get(attr, attr) else "getter:other",
                  lambda: f"{what}: getter '{g}' reports {after[g]!r}, configuration says {v!r} (before the assignment: {before[g]!r})")
        if attr == "synapse":
            with impl("synapse getter"):
                got = S.synapse
            check(got is new, "getter:synapse", lambda: f"{what}: connection.synapse is not the assigned synapse ({type(got).__name__})")
    # F: constructed directly with the target configuration (dt0 := final dt so delay steps are comparable)
    fcfg = dict(cfg)
    if kind == "synapse":
        # the delay is a time: target delay = cfg.delay * dt0 (ms) at step time cfg.dt
        fcfg["dt0"] = cfg["dt0"]
    with impl("construct target configuration"):
        F = _build(kind, fcfg)
    rs, rf = _records(S), _records(F)
    changed_size = any(rec0.get(k, (None,))[0] != v[0] for k, v in rs.items()) or rec0.keys() != rs.keys()
    if kind == "connection":
        with impl("copy parameters"):
            F.weight = S.weight.detach().clone()
            if S.bias is not None:
                F.bias = S.bias.detach().clone()
            if S.delay is not None:
                F.delay = S.delay.detach().clone()
    check(set(rs) == set(rf), "history:names", lambda: f"internal histories {sorted(rs)} vs fresh {sorted(rf)}")
    for k in rf:
        check(rs[k][0] == rf[k][0] and rs[k][3:] == rf[k][3:], "history:size",
              lambda: f"history '{k}': (recordsz, dt, duration, inclusive) = {(rs[k][0],) + rs[k][3:]} after assignments "
                      f"{case['ops']} but {(rf[k][0],) + rf[k][3:]} in a freshly constructed {kind} with the same configuration")
    # behaviour from a cleared state
    T = case["steps"]
    xs = _inputs(kind, cfg, T, case["sseed"])
    with impl("clear"):
        S.clear()
        F.clear()
    for t in range(T):
        with impl(f"step {t} setter-built"):
            o1 = _drive(kind, S, cfg, xs, t)
        with impl(f"step {t} constructor-built"):
            o2 = _drive(kind, F, cfg, xs, t)
        check(set(o1) == set(o2), "behaviour:keys", lambda: f"step {t}: observables {sorted(o1)} vs {sorted(o2)}")
        for name in o2:
            a, b = o1[name], o2[name]
            if a is None or b is None:
                check(a is None and b is None, "behaviour:none", lambda: f"step {t}: '{name}' None-ness differs")
                continue
            check(a.shape == b.shape and a.dtype == b.dtype, "behaviour:shape",
                  lambda: f"step {t}: '{name}' shape/dtype {tuple(a.shape)}/{a.dtype} vs fresh {tuple(b.shape)}/{b.dtype}")
            ok = torch.equal(a, b) or torch.allclose(a.double(), b.double(), rtol=1e-6, atol=1e-6, equal_nan=True)
            check(ok, "behaviour:value",
                  lambda: f"step {t}: '{name}' of the setter-built {kind} ({case['ops']}) differs from the constructor-built one")
    rs2, rf2 = _records(S), _records(F)
    for k in rf2:
        check(rs2[k][:3] == rf2[k][:3], "history:shape",
              lambda: f"after {T} steps history '{k}' (recordsz, shape, dtype) {rs2[k][:3]} vs fresh {rf2[k][:3]}")
    return {"nt": bool(changed_size), "cls": [kind] + sorted({a for a, _ in case["ops"]})}


def run_dtype(case):
    kind = case["kind"]
    cfg = {k: (dict(v) if isinstance(v, dict) else v) for k, v in case["cfg"].items()}
    cfg["dt0"] = cfg["dt"]
    with impl("construct"):
        S = _build(kind, cfg)
        F = _build(kind, cfg)
    T = case["steps"]
    xs = _inputs(kind, cfg, T, case["sseed"])
    pre = case["pre"]
    with impl("pre-steps and .to(float64)"):
        for t in range(pre):
            _drive(kind, S, cfg, xs, t)
            _drive(kind, F, cfg, xs, t)
        S.to(torch.float64)
    xs64 = {k: (v.double() if v.dtype.is_floating_point else v) for k, v in xs.items()}
    cleared = False
    for t in range(pre, T):
        if t == case["clear_at"]:
            with impl("clear"):
                S.clear()
                F.clear()
            cleared = True
        with impl(f"step {t} float64"):
            o1 = _drive(kind, S, cfg, xs64, t)
        with impl(f"step {t} float32"):
            o2 = _drive(kind, F, cfg, xs, t)
        for name in o2:
            a, b = o1[name], o2[name]
            if a is None or b is None:
                continue
            if name == "spike" and kind == "neuron":
                # the spike attribute must equal the returned spikes in either precision (refractory period > 0 here)
                check(torch.equal(a, o1["out"]), "dtype:spike-attr",
                      lambda: f"step {t}: after .to(float64) neuron.spike differs from the spikes just returned")
                check(torch.equal(b, o2["out"]), "dtype:spike-attr", lambda: f"step {t}: float32 neuron.spike differs from the returned spikes")
                continue
            if b.dtype.is_floating_point:
                check(a.dtype == torch.float64, "dtype:lost",
                      lambda: f"step {t}{' (after clear)' if cleared else ''}: '{name}' is {a.dtype} after .to(float64)")
                check(a.shape == b.shape and torch.allclose(a, b.double(), rtol=1e-5, atol=1e-4, equal_nan=True), "dtype:value",
                      lambda: f"step {t}: '{name}' float64 run differs from float32 run beyond rtol 1e-5")
            else:
                same = a.shape == b.shape and torch.equal(a, b)
                if not same and kind == "neuron":
                    # a float32 rounding can flip a threshold crossing: tolerated only if voltages are within the band
                    continue
                check(same, "dtype:value", lambda: f"step {t}: '{name}' differs between float64 and float32 runs")
    return {"nt": True, "cls": [kind, "cleared" if cleared else "nocleared"]}


# ---------------------------------------------------------------------------- generators

_dts = [1.0, 0.5, 0.25, 2.0]


@st.composite
def _cfg(draw, kind):
    cfg = {"dt": draw(st.sampled_from(_dts)), "batch": draw(st.integers(1, 3))}
    if kind == "neuron":
        cfg["neuron"] = {"cls": draw(st.sampled_from(B.NEURONS)), "shape": draw(st.sampled_from([[2], [2, 2]])),
                         "refrac": draw(st.sampled_from([1, 2, 2.3, 1.7]))}
    elif kind == "synapse":
        cfg["syn"] = {"cls": draw(st.sampled_from(B.SYNAPSES)), "q": 30.0, "tol": 1e-6, "interp": "previous"}
        cfg["shape"] = draw(st.sampled_from([[2], [2, 2]]))
        cfg["delay"] = draw(st.sampled_from([0, 1, 2, 3, 4, 1.5, 2.5]))
        cfg["inplace"] = draw(st.booleans())
    elif kind == "connection":
        t = draw(st.sampled_from(["dense", "direct", "lateral"]))
        syncls = draw(st.sampled_from(B.SYNAPSES))
        cfg["conn"] = {"type": t, "inshape": draw(st.sampled_from([[3], [2, 2]])), "outshape": [2],
                       "syn": {"cls": syncls, "q": 30.0, "tol": 1e-6}, "bias": draw(st.booleans()),
                       "delay": draw(st.sampled_from([None, 2])), "wseed": draw(st.integers(0, 999)), "dseed": draw(st.integers(0, 999))}
        cfg["syncls"] = syncls
    elif kind == "layer":
        from . import c17 as L

        lc = draw(L.layer_case("quick", False))
        lc["train"] = False
        lc["capture"] = False
        for c in lc["conns"].values():
            c["syn"]["q"] = 150.0
        cfg["layer"] = lc
        cfg["dt"] = lc["dt"]
        cfg["batch"] = lc["batch"]
    elif kind == "record":
        cfg["duration"] = draw(st.sampled_from([0.0, 1.0, 2.0, 3.0, 1.5]))
        cfg["inclusive"] = draw(st.booleans())
        cfg["shape"] = draw(st.sampled_from([[], [3], [2]]))
    else:
        cfg["red"] = draw(st.sampled_from(["CA", "EMA", "passthrough", "trace", "nearest"]))
        cfg["duration"] = draw(st.sampled_from([0.0, 1.0, 2.0, 3.0]))
        cfg["inplace"] = draw(st.booleans())
    return cfg


@st.composite
def path_case(draw, tier="quick"):
    kind = draw(st.sampled_from(["neuron", "synapse", "synapse", "connection", "reducer", "reducer", "record", "record", "layer"]))
    cfg = draw(_cfg(kind))
    if kind == "layer":
        return {"kind": kind, "cfg": cfg, "ops": [["batchsz", draw(st.integers(1, 4))]], "steps": draw(st.integers(3, 6)),
                "presteps": draw(st.integers(0, 3)), "sseed": draw(st.integers(0, 99999))}
    ops = []
    for _ in range(draw(st.integers(1, 6))):
        choices = ["dt", "batchsz"]
        if kind == "synapse":
            choices += ["delay", "delay", "inplace"]
        if kind == "connection":
            choices += ["synapse"]
        if kind == "reducer":
            choices = ["dt", "duration", "duration", "inplace"]
        if kind == "record":
            choices = ["dt", "duration", "inclusive", "inclusive"]
        a = draw(st.sampled_from(choices))
        if a == "dt":
            v = draw(st.sampled_from(_dts))
        elif a == "batchsz":
            v = draw(st.integers(1, 4))
        elif a == "delay":
            v = draw(st.sampled_from([0, 1, 2, 3, 4, 5, 1.5, 2.5, 0.5, 2.0, 3.0, 2.25]))
        elif a in ("inplace", "inclusive"):
            v = draw(st.booleans())
        elif a == "duration":
            v = draw(st.sampled_from([0.0, 1.0, 2.0, 3.0, 4.0]))
        else:
            v = draw(st.sampled_from(B.SYNAPSES))
        ops.append([a, v])
    return {"kind": kind, "cfg": cfg, "ops": ops, "steps": draw(st.integers(3, 8)), "sseed": draw(st.integers(0, 99999)),
            "presteps": draw(st.sampled_from([0, 0, 2]))}


@st.composite
def dtype_case(draw, tier="quick"):
    kind = draw(st.sampled_from(["neuron", "synapse", "connection"]))
    cfg = draw(_cfg(kind))
    T = draw(st.integers(4, 10))
    return {"kind": kind, "cfg": cfg, "steps": T, "pre": draw(st.integers(0, 2)), "clear_at": draw(st.integers(2, T)),
            "sseed": draw(st.integers(0, 99999))}


LEGS = [
    Leg(name="setters", run=run_path, strategy=lambda tier: path_case(tier),
        quick=150, thorough=2000, quick_shards=6, thorough_shards=12, nt_floor=0.2,
        rule="neurons (dt, batchsz), synapses (dt, delay, batchsz, inplace), connections (dt, batchsz, replacement synapse), "
             "reducers (dt, duration, inplace), RecordTensor (dt, duration, inclusive): start configuration + 1-6 assignments vs a freshly constructed instance of the "
             "target configuration; non-trivial = the assignments changed a history size"),
    Leg(name="dtype", run=run_dtype, strategy=lambda tier: dtype_case(tier),
        quick=60, thorough=800, quick_shards=4, thorough_shards=8, nt_floor=0.5,
        rule="neuron / synapse / connection moved with .to(float64) after 0-2 steps: floating state stays float64 through steps and "
             "clear(), values equal the float32 twin at rtol 1e-5"),
]

ASSUMPTIONS = [
    "only attributes that have both a constructor argument and a setter are compared with the fresh instance; connection "
    "parameters are copied from the setter-built to the constructor-built instance",
    "a synapse's delay is a time in ms: the target configuration keeps the assigned delay and the assigned step time",
]

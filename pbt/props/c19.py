"""C19 — spike encoders: shape, silence at zero, refractory gap, reproducibility.

One leg, `encode`: every shipped encoder (HomogeneousPoissonEncoder,
HomogeneousPoissonApproxEncoder, PoissonIntervalEncoder) and every shipped functional
form (exp-interval, Bernoulli approximation, Poisson-interval — online and offline — and
the inhomogeneous Bernoulli approximation), driven by a torch.Generator seeded from the case.

Validity predicates only (rate statistics are NOT asserted):
  * dtype bool; offline shape (steps, *shape); online exactly `steps` slices of shape `shape`
  * an element of zero intensity never spikes
  * refractory encoder: all gaps between spikes of one element >= refractory period
    (own diff of spike indices AND inferno.isi, which must agree)
  * same generator seed => identical output (two fresh generators)
"""

from __future__ import annotations

from fractions import Fraction

import numpy as np
import torch
from hypothesis import strategies as st

from ..harness import Leg, Violation, check, impl
from ..models import numhelp as M

TD = {"float32": torch.float32, "float64": torch.float64}
TINY = 2.0 ** -20

# functional names per encoder family: (offline, online)
FUNCS = {
    "hpe": ("homogeneous_poisson_exp_interval", "homogeneous_poisson_exp_interval_online"),
    "approx": ("homogenous_poisson_bernoulli_approx", "homogenous_poisson_bernoulli_approx_online"),
    "interval": ("poisson_interval", "poisson_interval_online"),
    "inhomog": ("inhomogeneous_poisson_bernoulli_approx", None),
}
CLASSES = {
    "hpe": "HomogeneousPoissonEncoder",
    "approx": "HomogeneousPoissonApproxEncoder",
    "interval": "PoissonIntervalEncoder",
}


def _inten_value(spec):
    k = spec[0]
    if k == "z":
        return 0.0
    if k == "o":
        return 1.0
    if k == "t":
        return TINY
    return float(spec[1])


def _intensities(case, n):
    pool = case["inten"]
    return np.array([_inten_value(pool[j % len(pool)]) for j in range(n)], dtype=np.float64)


def _required_gap(m, dt):
    """(required minimal gap in steps, ambiguous?) for refrac = m*dt given as a python float.

    The documented predicate is gap*dt >= refrac.  With dyadic dt everything is exact.  Otherwise
    float(m*dt)/dt may land one ulp below m (e.g. 7*1.3/1.3): a gap of m-1 steps is then inside
    the rounding band of the period and is accepted (counted ambiguous)."""
    refrac = m * dt
    q_exact = Fraction(refrac) / Fraction(dt)
    q_float = refrac / dt
    if q_exact == m:
        return m, False
    if q_float >= m:
        return m, False  # the working precision sees at least m; exact value within 1 ulp of m
    return m - 1, True


def _set(e, enc, attr, value):
    """documented setter with a documented-valid value; a crash is named after the setter"""
    try:
        setattr(e, attr, value)
    except Exception as ex:  # noqa: BLE001
        raise Violation(
            f"crash:{type(ex).__name__}@setter:{attr}",
            f"{CLASSES[enc]}.{attr} = {value!r}: {type(ex).__name__}: {str(ex)[:200]}",
            {"exc": type(ex).__name__, "setter": attr, "enc": enc, "value": None if value is None else str(value)},
        ) from ex


def _build_class(case, gen):
    import inferno.neural as nn_

    enc = case["enc"]
    cls = getattr(nn_, CLASSES[enc])
    steps, dt, freq = int(case["steps"]), float(case["dt"]), float(case["freq"])
    m = case.get("m")
    refrac = None if m is None else m * dt
    sp = case.get("setters")
    if not sp:
        with impl(f"{CLASSES[enc]}()"):
            if enc == "hpe":
                return cls(steps, dt, freq, refrac=refrac, compensate=bool(case["compensate"]), generator=gen)
            return cls(steps, dt, freq, generator=gen)
    # configuration through the documented setters, starting from another valid configuration
    steps0, dt0, freq0 = int(sp["steps0"]), float(sp["dt0"]), float(sp["freq0"])
    with impl(f"{CLASSES[enc]}() start configuration"):
        if enc == "hpe":
            m0 = sp.get("m0")
            e = cls(steps0, dt0, freq0, refrac=None if m0 is None else m0 * dt0, compensate=False, generator=None)
        else:
            e = cls(steps0, dt0, freq0, generator=None)
    for attr in sp["order"]:
        if attr == "steps":
            _set(e, enc, "steps", steps)
        elif attr == "dt":
            _set(e, enc, "dt", dt)
        elif attr == "frequency":
            _set(e, enc, "frequency", freq)
        elif attr == "refrac" and enc == "hpe":
            if sp.get("keep_refrac"):
                continue  # the explicit period given to the constructor (in ms) must survive the dt change
            if m is None and sp.get("m0") is None:
                continue  # stays derived from the step time
            _set(e, enc, "refrac", refrac)
    if enc == "hpe":
        _set(e, enc, "compensated", bool(case["compensate"]))
    _set(e, enc, "generator", gen)
    return e


def _input(case, x_np):
    """the caller's intensity tensor; with ``noncontig`` a dense non-contiguous view holding the same values"""
    x = torch.tensor(x_np, dtype=TD[case["dtype"]])
    if case.get("noncontig") and x.dim() >= 1:
        if x.dim() >= 2:
            x = x.transpose(-1, -2).contiguous().transpose(-1, -2)
        else:
            big = torch.zeros(2 * x.shape[0], dtype=x.dtype)
            big[::2] = x
            x = big[::2]
    return x


def _produce(case, x):
    """one full encoding of the caller's tensor ``x`` with a fresh generator seeded from the case -> bool array (steps, *shape)"""
    import inferno.neural.functional as nf

    enc, online = case["enc"], bool(case["online"])
    steps, dt, freq = int(case["steps"]), float(case["dt"]), float(case["freq"])
    shape = tuple(case["shape"])
    gen = torch.Generator().manual_seed(int(case["seed"]))
    m = case.get("m")
    if case["route"] == "class":
        e = _build_class(case, gen)
        with impl(f"{CLASSES[enc]}.forward(online={online})"):
            res = e(x, online=online)
            if online:
                res = [s.clone() for s in res]
    else:
        off, on = FUNCS[enc]
        fn = getattr(nf, on if online else off)
        kw = {"generator": gen}
        if enc == "hpe":
            kw["refrac"] = None if m is None else m * dt
            kw["compensate"] = bool(case["compensate"])
        with impl(fn.__name__):
            if enc == "inhomog":
                res = fn(freq * x, dt, **kw)
            else:
                res = fn(freq * x, steps, dt, **kw)
            if online:
                res = [s.clone() for s in res]
    what = f"{case['route']}:{enc} online={online} steps={steps} dt={dt} freq={freq} m={m} shape={shape}"
    if online:
        check(len(res) == steps, "online:count", lambda: f"{what}: yielded {len(res)} slices, want {steps}",
              info={"enc": enc})
        for i, s in enumerate(res):
            check(isinstance(s, torch.Tensor) and s.dtype == torch.bool, "dtype", lambda: f"{what}: slice {i} dtype {getattr(s, 'dtype', type(s))}")
            check(tuple(s.shape) == shape, "online:shape", lambda: f"{what}: slice {i} shape {tuple(s.shape)}, want {shape}")
        out = torch.stack(res, 0) if res else torch.zeros((0,) + shape, dtype=torch.bool)
    else:
        out = res
        check(isinstance(out, torch.Tensor) and out.dtype == torch.bool, "dtype", lambda: f"{what}: dtype {getattr(out, 'dtype', type(out))}")
        check(tuple(out.shape) == (steps,) + shape, "offline:shape", lambda: f"{what}: shape {tuple(out.shape)}, want {(steps,) + shape}")
    return out.numpy().astype(bool), what


def run_encode(case):
    import inferno

    enc = case["enc"]
    steps, dt = int(case["steps"]), float(case["dt"])
    shape = tuple(case["shape"])
    n = int(np.prod(shape)) if shape else 1
    if enc == "inhomog":
        inten = _intensities(case, steps * n).reshape((steps,) + shape)
    else:
        inten = _intensities(case, n).reshape(shape)

    # one tensor object, encoded twice by the caller (as a dataset sample presented for two epochs would be)
    x = _input(case, inten)
    out, what = _produce(case, x)
    out2, _ = _produce(case, x)
    check(np.array_equal(out, out2), "reproducible", lambda: f"{what}: two generators seeded {case['seed']} gave different trains for the same intensity tensor",
          info={"enc": enc})

    flat = out.reshape(steps, n)
    zero = (inten.reshape(steps, n) == 0) if enc == "inhomog" else np.broadcast_to(inten.reshape(1, n) == 0, (steps, n))
    bad = flat & zero
    check(not bad.any(), "zero:spike",
          lambda: f"{what}: element(s) {sorted(set(np.nonzero(bad)[1].tolist()))} of zero intensity spiked at steps {np.nonzero(bad)[0].tolist()[:10]}",
          info={"enc": enc})

    amb = 0
    counts = flat.sum(0)
    cls = [f"{case['route']}:{enc}", "online" if case["online"] else "offline", f"rank={len(shape)}"]
    if enc == "hpe":
        m = case.get("m")
        m_eff = 1 if m is None else int(m)
        req, ambiguous = _required_gap(m_eff, dt)
        amb = int(ambiguous)
        # own model: differences of spike step indices per element
        mingap = None
        for j in range(n):
            idx = np.flatnonzero(flat[:, j])
            if len(idx) >= 2:
                g = int(np.diff(idx).min())
                mingap = g if mingap is None else min(mingap, g)
                check(g >= req, "refrac:gap",
                      lambda: f"{what}: element {j} spikes at steps {idx.tolist()}: gap of {g} step(s) = {g * dt} ms < refractory period {m_eff * dt} ms",
                      info={"enc": enc, "m": m_eff})
        # inferno.isi must tell the same story
        with impl("isi"):
            iv = inferno.isi(torch.tensor(np.ascontiguousarray(flat)), dt, time_first=True)
        want, _times = M.isi_model(flat.T, dt)
        want = want.T
        g = iv.detach().to(torch.float64).numpy()
        same = tuple(g.shape) == tuple(want.shape) and bool((np.isnan(g) == np.isnan(want)).all())
        if same:
            with np.errstate(invalid="ignore"):
                same = bool((np.isnan(want) | (np.abs(g - want) <= 1e-6 * (steps * dt + 1))).all())
        check(same, "isi:disagree", lambda: f"{what}: inferno.isi {g.tolist()} != diff of spike indices * dt {want.tolist()}")
        if g.size and not np.isnan(g).all():
            lo = float(np.nanmin(g))
            check(lo >= req * dt - 1e-6 * (steps * dt + 1), "refrac:isi",
                  lambda: f"{what}: minimal inter-spike interval {lo} ms < refractory period {m_eff * dt} ms")
        cls.append("refrac=None" if m is None else ("refrac=dt" if m == 1 else "refrac>dt"))
        cls.append("compensate" if case["compensate"] else "no-compensate")
        if mingap is not None and mingap == req:
            cls.append("gap-tight")
    if case.get("setters"):
        cls.append("via-setters")
        if case["setters"].get("keep_refrac"):
            cls.append("explicit-refrac-then-dt")
            if case["setters"].get("m0") == 1:
                cls.append("explicit-refrac==dt0-then-dt")
        elif enc == "hpe" and case.get("m") is None and case["setters"]["dt0"] != dt and "dt" in case["setters"]["order"]:
            cls.append("derived-refrac-follows-dt")
    multi = bool((counts >= 2).any())
    has_zero = bool(zero.any())
    if multi:
        cls.append("multi-spike")
    if has_zero:
        cls.append("zero-intensity")
    if (inten == 1.0).any():
        cls.append("one-intensity")
    nt = multi and has_zero
    return {"nt": bool(nt), "cls": cls, "amb": amb}


# ---------------------------------------------------------------------------- generator

_spec = st.one_of(
    st.just(["z"]), st.just(["o"]), st.just(["t"]),
    st.tuples(st.just("r"), st.floats(0.01, 1.0, allow_nan=False).map(lambda v: round(v, 3))).map(list),
    st.tuples(st.just("r"), st.sampled_from([0.25, 0.5, 0.75, 0.9])).map(list),
)
DTS = [1.0, 0.5, 0.25, 2.0, 1.0, 0.5, 0.1, 1.3, 0.7]
FREQS = [10.0, 100.0, 900.0, 0.0]
# expected spikes per step at intensity 1 (frequency = 1000 p / dt); > 1 is clamped / saturates
PSTEP = [0.05, 0.1, 0.25, 0.5, 0.5, 0.8, 0.8, 0.95, 1.5]
# two configuration-through-setter paths crash on the pinned tree (approx.frequency setter, hpe.refrac = None);
# they are not part of C19's statement and are excluded by construction (DESIGN.md section 6, observations)
KNOWN_REGION_ONE_IN = 8
# (dt0, m0, new dt, required gap in steps = m0*dt0/dt): dyadic, both directions, m0 == 1 is refrac == dt0
KEEP_REFRAC = [
    (1.0, 1, 0.5, 2), (1.0, 1, 0.25, 4), (0.5, 1, 0.25, 2), (2.0, 1, 1.0, 2), (2.0, 1, 0.5, 4), (1.0, 1, 0.5, 2),
    (1.0, 2, 0.5, 4), (0.5, 2, 0.25, 4), (1.0, 3, 0.5, 6),
    (0.5, 2, 1.0, 1), (0.5, 4, 1.0, 2), (0.5, 6, 1.0, 3), (1.0, 2, 2.0, 1), (1.0, 4, 2.0, 2), (0.25, 4, 0.5, 2), (0.25, 4, 1.0, 1),
]


@st.composite
def encode_case(draw, tier="quick"):
    route = draw(st.sampled_from(["class", "func", "func"]))
    if route == "class":
        enc = draw(st.sampled_from(["hpe", "hpe", "approx", "interval"]))
    else:
        enc = draw(st.sampled_from(["hpe", "hpe", "hpe", "approx", "interval", "inhomog"]))
    smax = 80 if tier == "quick" else 200
    steps = draw(st.one_of(st.integers(1, 12), st.integers(13, smax), st.integers(30, smax), st.integers(40, smax)))
    dt = draw(st.sampled_from(DTS))
    if draw(st.integers(0, 4)) == 0:
        freq = draw(st.sampled_from(FREQS))
    else:
        freq = round(1000.0 * draw(st.sampled_from(PSTEP)) / dt, 6)
    online = draw(st.booleans()) if enc != "inhomog" else False
    c = {
        "route": route, "enc": enc, "online": online, "seed": draw(st.integers(0, 2 ** 31 - 1)),
        "steps": steps, "dt": dt, "freq": freq,
        "shape": draw(st.sampled_from([[], [3], [2, 3], [1], [4], [3]])),
        "dtype": draw(st.sampled_from(["float32", "float32", "float64"])),
        "inten": draw(st.lists(_spec, min_size=1, max_size=6)),
        "noncontig": draw(st.booleans()),
    }
    if draw(st.integers(0, 9)) < 8:
        # construction: make sure a silent and a busy element are both present
        c["inten"] = [["z"], ["o"]] + c["inten"][:4]
    if enc == "hpe":
        m = draw(st.sampled_from([None, 1, 2, 2, 3, 5, 5, 7]))
        comp = draw(st.booleans())
        if comp and freq * (1 if m is None else m) * dt >= 999.99:
            comp = False  # documented: compensation needs frequency * refrac < 1000 (kept clear of the rounding of the product)
        c["m"], c["compensate"] = m, comp
    if route == "class" and draw(st.integers(0, 3)) == 0:
        order = draw(st.permutations(["steps", "dt", "frequency", "refrac"]))
        sp = {
            "steps0": draw(st.integers(1, 20)), "dt0": draw(st.sampled_from([1.0, 0.5, 2.0])),
            "freq0": draw(st.sampled_from([20.0, 100.0])), "order": list(order),
        }
        known = False  # the two crashing setter paths are outside C19's statement (DESIGN.md section 6, observations): never generated
        if enc == "hpe":
            sp["m0"] = draw(st.sampled_from([None, 1, 3]))
            if c["m"] is None and sp["m0"] is not None and not known:
                sp["m0"] = None  # `refrac = None` through the setter raises AttributeError on the pinned tree
        if enc == "approx" and not known:
            sp["freq0"] = freq
            sp["order"] = [a for a in sp["order"] if a != "frequency"]  # frequency setter raises AttributeError
        if enc == "hpe" and draw(st.integers(0, 2)) == 0:
            # explicit refractory period (ms) given to the constructor - including refrac == dt0 - then a dt
            # assignment to a DIFFERENT dyadic step time and no refrac assignment: the period stays m0*dt0 ms,
            # i.e. m = m0*dt0/dt steps (exact by construction); encoded at a high rate so the gap is exercised
            dt0, m0, dt1, m1 = draw(st.sampled_from(KEEP_REFRAC))
            p = draw(st.sampled_from([0.8, 0.95, 1.5]))
            sp["dt0"], sp["m0"], sp["keep_refrac"] = dt0, m0, True
            c["dt"], c["m"] = dt1, m1
            c["freq"] = round(1000.0 * p / dt1, 6)
            c["steps"] = max(c["steps"], 30)
            c["inten"] = [["z"], ["o"]] + c["inten"][:3]
            if c["compensate"] and c["freq"] * m1 * dt1 >= 999.99:
                c["compensate"] = False
        c["setters"] = sp
    return c


LEGS = [
    Leg(
        name="encode", run=run_encode, strategy=lambda tier: encode_case(tier),
        quick=1500, thorough=12000, quick_shards=8, thorough_shards=16, nt_floor=0.25,
        rule="every shipped encoder class and functional form, online and offline, generator seeded from the case, "
             "steps 1-80 (200 thorough), dt in {1, .5, .25, 2, .1, 1.3, .7}, frequency 0 / 10 / 100 / 900 Hz or 1000 p / dt with p in {.05 ... 1.5} expected spikes per step, refractory None / dt / "
             "2,3,5,7 dt, compensation on/off (frequency*refrac < 1000), intensities from {0, 1, 2^-20, drawn}, shapes "
             "(), (1,), (3,), (4,), (2,3); a quarter of the class cases are configured through the setters (incl. an explicit refractory "
             "period - also one equal to the start dt - kept across a dt assignment to a different dyadic step time, and a derived one following dt); "
             "non-trivial when some element spikes >= 2 times and some element has zero intensity",
    ),
]

ASSUMPTIONS = [
    "CPU torch.Generator; reproducibility is asserted between two fresh generators with the same seed in one process",
    "rate statistics are deliberately not asserted (probabilistic); only shape, dtype, silence at zero, minimal gap, reproducibility",
    "refractory periods are integer multiples m*dt passed as the python float m*dt; where float(m*dt)/dt falls one ulp below m a gap of m-1 steps is accepted (counted ambiguous)",
    "online slices are copied as they are yielded; the stacked slices are judged by the same predicates as an offline train (not compared with it)",
    "compensation is only generated with frequency * refrac < 1000 as documented",
]

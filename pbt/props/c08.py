"""C08 -- STDP-family weight changes equal the documented sum over spike pairs.

Legs
  pairs      : generated cells (dense / direct / lateral / conv), trainers STDP, StableSTDP,
               TripletSTDP, StableTripletSTDP, MSTDP, MSTDPET; both spike histories are
               generated (post spikes scripted through ExactNeuron's ``override``, or
               observed from an input-driven neuron); delays none / frozen / ``delayed``;
               scalar and per-sample rewards; batch reductions.
  multi      : ONE trainer (constructed with one set of hyper-parameters) training TWO cells of one
               layer that share a neuron group (Biclique fan-in), a connection (fan-out) or are the
               same Serial cell under two names, each registered with different per-cell overrides;
               every connection is compared with the sum of its cells' own pair sums.
  (pairs and multi also split 1 history in 4 into episodes: trainer.clear(keepshape=True) / clear()
   plus layer.clear() before a generated step; the oracle pairs only spikes of the current episode.)
  (pairs also constructs the trainer with other values -- often another sign mode -- and lets the
   cell override them at register_cell in 2 of 5 cases; the oracle always uses the cell's values.)
  exhaustive : 1x1 dense cell, every pre/post history of length T (4^T) x trace modes x
               sign modes for STDP, plus TripletSTDP / MSTDPET on the same histories.
Oracle: pbt.models.stdp (brute-force double loops over spike pairs, float64, built from the
two spike histories only). Compared after every trainer call with ``pos - neg`` of the
weight accumulator and after every ``connection.update()`` with the weight itself.
"""

from __future__ import annotations

import numpy as np
import torch
from hypothesis import strategies as st

from ..harness import Leg, check, impl
from ..models import stdp as M

PAIR_TRAINERS = ("STDP", "StableSTDP", "MSTDP", "MSTDPET")
TRIPLET_TRAINERS = ("TripletSTDP", "StableTripletSTDP")
TRAINERS = PAIR_TRAINERS + TRIPLET_TRAINERS
MODULATED = ("MSTDP", "MSTDPET")
REDUCTIONS = {"sum": torch.sum, "mean": torch.mean, "amax": torch.amax}
RTOL, ATOL = 1e-4, 2e-5

# --------------------------------------------------------------------------------------
# building the implementation


def shapes_of(case):
    """(input shape, output shape, flat sizes) of the cell described by the case."""
    c = case["conn"]
    if c == "dense":
        i, o = tuple(case["in_shape"]), tuple(case["out_shape"])
    elif c in ("direct", "lateral"):
        i = o = tuple(case["shape"])
    elif c == "conv":
        g = case["conv"]
        _, (oh, ow) = M.conv2d_elements(g["channels"], g["height"], g["width"], g["filters"],
                                        g["kernel"], g["stride"], g["padding"], g["dilation"])
        i, o = (g["channels"], g["height"], g["width"]), (g["filters"], oh, ow)
    else:
        raise ValueError(c)
    return i, o, int(np.prod(i)), int(np.prod(o))


def weight_shape(case):
    c = case["conn"]
    _, _, ni, no = shapes_of(case)
    if c == "dense":
        return (no, ni)
    if c == "direct":
        return (ni,)
    if c == "lateral":
        return (ni, ni)
    g = case["conv"]
    return (g["filters"], g["channels"], g["kernel"][0], g["kernel"][1])


def _steps_array(case, raw, maxsteps):
    shp = weight_shape(case)
    n = int(np.prod(shp))
    flat = [raw[j % len(raw)] % (maxsteps + 1) for j in range(n)]
    arr = np.array(flat, dtype=np.int64).reshape(shp)
    if case["conn"] == "lateral":
        arr = arr * (1 - np.eye(shp[0], dtype=np.int64))  # documented: delays are masked
    return arr


def change_step(case):
    """Step from which the changed delays apply (``delayed`` mode only), or None."""
    d = case.get("delay")
    if d is None or not d.get("change") or case["T"] < 2:
        return None
    return 1 + d["change"]["at"] % (case["T"] - 1)


def delay_steps(case):
    """Per weight element delay in whole steps: None, an array shaped like the weight,
    or (delays changed during the run) a list of such arrays, one per step."""
    d = case.get("delay")
    if d is None:
        return None
    base = _steps_array(case, d["steps"], d["max"])
    at = change_step(case)
    if at is None:
        return base
    new = _steps_array(case, d["change"]["steps"], d["max"])
    return [base if t < at else new for t in range(case["T"])]


def elements_of(case):
    """Weight elements (lists of synapses) in the weight's row-major order."""
    c = case["conn"]
    _, _, ni, no = shapes_of(case)
    ds = delay_steps(case)
    if c in ("dense", "lateral"):
        return M.dense_elements(ni, no, ds)
    if c == "direct":
        return M.direct_elements(ni, ds)
    g = case["conv"]
    els, _ = M.conv2d_elements(g["channels"], g["height"], g["width"], g["filters"],
                               g["kernel"], g["stride"], g["padding"], g["dilation"], ds)
    return els


def build_connection(case):
    """The case's connection with an updater; delays set to whole multiples of dt."""
    from inferno.neural import Conv2D, DeltaCurrent, LinearDense, LinearDirect, LinearLateral

    ishape, oshape, _, _ = shapes_of(case)
    dt, B = case["dt"], case["B"]
    d = case.get("delay")
    maxdelay = None if d is None else float(d["max"] * dt)
    syn = DeltaCurrent.partialconstructor(1.0)
    kw = dict(synapse=syn, delay=maxdelay, batch_size=B, bias=bool(case.get("bias", False)))
    c = case["conn"]
    if c == "dense":
        conn = LinearDense(ishape, oshape, dt, **kw)
    elif c == "direct":
        conn = LinearDirect(ishape, dt, **kw)
    elif c == "lateral":
        conn = LinearLateral(ishape, dt, **kw)
    else:
        g = case["conv"]
        conn = Conv2D(g["height"], g["width"], g["channels"], g["filters"], dt, tuple(g["kernel"]),
                      stride=tuple(g["stride"]), padding=tuple(g["padding"]),
                      dilation=tuple(g["dilation"]), **kw)
    wdt = conn.weight.dtype
    w0 = np.asarray(case.get("w0", [0.5]), dtype=np.float64)
    n = int(np.prod(weight_shape(case)))
    wflat = np.array([w0[j % len(w0)] for j in range(n)]).reshape(weight_shape(case))
    conn.weight = torch.tensor(wflat, dtype=wdt)
    if d is not None:
        ds = delay_steps(case)
        ds0 = ds[0] if isinstance(ds, list) else ds
        conn.delay = torch.tensor(ds0.astype(np.float64) * dt, dtype=wdt)
    conn.updater = conn.defaultupdater()
    return conn


def build_neuron(case):
    from inferno.extra import ExactNeuron
    from inferno.neural import LIF

    _, oshape, _, _ = shapes_of(case)
    dt, B = case["dt"], case["B"]
    if case.get("neuron", "exact") == "lif":
        return LIF(oshape, dt, rest_v=-60.0, reset_v=-65.0, thresh_v=-50.0, refrac_t=2 * dt,
                   time_constant=20.0, resistance=30.0, batch_size=B)
    return ExactNeuron(oshape, dt, rest_v=-60.0, thresh_v=-45.0, batch_size=B)


def build_layer(case):
    """Serial(connection, neuron)."""
    from inferno.neural import Serial

    return Serial(build_connection(case), build_neuron(case))


def rule_of(case) -> dict:
    """The rule description handed to the reference model."""
    hp = case["hp"]
    r = {"dt": case["dt"], "mode": case["mode"]}
    if case["trainer"] in TRIPLET_TRAINERS:
        r["kind"] = "triplet"
        for k in ("lr_post_pair", "lr_post_triplet", "lr_pre_pair", "lr_pre_triplet",
                  "tc_post_fast", "tc_post_slow", "tc_pre_fast", "tc_pre_slow"):
            r[k] = hp[k]
    else:
        r["kind"] = "pair"
        for k in ("lr_post", "lr_pre", "tc_post", "tc_pre"):
            r[k] = hp[k]
    return r


def cell_delayed(case) -> bool:
    d = case.get("delay")
    return bool(case.get("delayed", False) if d is None else d.get("delayed", False))


def ctor_view(case) -> dict:
    """Hyper-parameters the trainer is CONSTRUCTED with. Without ``case['ctor']`` they are
    the cell's own; with it the cell overrides the keys listed in ``case['override']`` at
    ``register_cell`` (for every other key the generator made both values equal), so the
    documented behaviour is always the one of the cell's values ``hp/mode/reduction/...``."""
    c = case.get("ctor")
    if c:
        return c
    return {"hp": case["hp"], "mode": case["mode"], "reduction": case["reduction"],
            "delayed": cell_delayed(case), "inplace": bool(case.get("inplace", False))}


_KW = {"mode": "trace_mode", "reduction": "batch_reduction", "tc_elig": "tc_eligibility"}


def override_kwargs(case) -> dict:
    """Keyword arguments of ``register_cell`` for the keys the cell overrides."""
    out = {}
    for k in case.get("override") or []:
        if k == "mode":
            out["trace_mode"] = case["mode"]
        elif k == "reduction":
            out["batch_reduction"] = REDUCTIONS[case["reduction"]]
        elif k == "delayed":
            out["delayed"] = cell_delayed(case)
        elif k == "inplace":
            out["inplace"] = bool(case.get("inplace", False))
        else:
            out[_KW.get(k, k)] = case["hp"][k]
    return out


def construct_trainer(case):
    import inferno.learn as L
    from inferno.learn.trainers import two_factor_stdp as tf

    name = case["trainer"]
    cv = ctor_view(case)
    hp = cv["hp"]
    common = dict(trace_mode=cv["mode"], batch_reduction=REDUCTIONS[cv["reduction"]],
                  interp_tolerance=case.get("tolerance", 0.0))
    delayed = bool(cv.get("delayed", False))
    if name in TRIPLET_TRAINERS:
        cls = L.TripletSTDP if name == "TripletSTDP" else tf.StableTripletSTDP
        return cls(hp["lr_post_pair"], hp["lr_post_triplet"], hp["lr_pre_pair"], hp["lr_pre_triplet"],
                   hp["tc_post_fast"], hp["tc_post_slow"], hp["tc_pre_fast"], hp["tc_pre_slow"],
                   delayed=delayed, inplace=bool(cv.get("inplace", False)), **common)
    if name == "MSTDPET":
        return L.MSTDPET(hp["lr_post"], hp["lr_pre"], hp["tc_post"], hp["tc_pre"], hp["tc_elig"],
                         **common)
    cls = {"STDP": L.STDP, "StableSTDP": tf.StableSTDP, "MSTDP": L.MSTDP}[name]
    return cls(hp["lr_post"], hp["lr_pre"], hp["tc_post"], hp["tc_pre"], delayed=delayed, **common)


def build_trainer(case, layer):
    tr = construct_trainer(case)
    tr.register_cell("cell", layer.cell, **override_kwargs(case))
    return tr


def _np(t):
    return None if t is None else t.detach().to(torch.float64).reshape(-1).numpy().copy()


def call_trainer(case, trainer, t, fdt):
    """One trainer call of step ``t`` (with the step's reward for modulated rules)."""
    if case["trainer"] in MODULATED or case["trainer"].endswith(("MSTDP", "MSTDPD")):
        sig = case["signal"][t]
        if isinstance(sig, list):
            sig = torch.tensor(sig, dtype=fdt)
        trainer(sig, case.get("scale", 1.0))
    else:
        trainer()


def clear_kind(case, t):
    """None, 'keep' (trainer.clear(keepshape=True)) or 'drop' (trainer.clear()) before step t."""
    c = case.get("clear")
    return c[t] if c else None


def do_clear(case, t, trainer, layer):
    """A new episode starts before step ``t``: the trainer's monitors are cleared
    (CellTrainer.clear forwards its keyword arguments to every monitor / reducer) and the
    layer's connections (synapse history, pending updater parts) and neurons are cleared."""
    with impl(f"clear before step {t}"):
        if clear_kind(case, t) == "keep":
            trainer.clear(keepshape=True)
        else:
            trainer.clear()
        layer.clear()


def episodes(case):
    """[start, end) step ranges separated by the clears."""
    T = case["T"]
    starts = [0] + [t for t in range(1, T) if clear_kind(case, t)]
    return list(zip(starts, starts[1:] + [T]))


def _slice_elements(elements, s, e):
    return [[(i, o, d[s:e] if isinstance(d, (list, tuple)) else d) for (i, o, d) in syns]
            for syns in elements]


def drive(case, layer, trainer, param="weight", call=call_trainer, before_update=None,
          after_update=None):
    """Runs the history; returns (post history actually produced, observations).

    observations: list of ("call", t, pos, neg) after every trainer call and
    ("update", t, param value) after every connection.update(); arrays are flat
    float64 (``pos`` / ``neg`` are None when the accumulator holds no such part).
    """
    ishape, oshape, ni, no = shapes_of(case)
    B, T = case["B"], case["T"]
    scripted = case.get("neuron", "exact") == "exact"
    posts, obs = [], []
    conn = layer.connection
    fdt = conn.weight.dtype
    chg = change_step(case)
    for t in range(T):
        if clear_kind(case, t):
            do_clear(case, t, trainer, layer)
            obs.append(("clear", t))
        if chg is not None and t == chg:
            with impl(f"set delay before step {t}"):
                conn.delay = torch.tensor(delay_steps(case)[t].astype(np.float64) * case["dt"], dtype=fdt)
        pre = torch.tensor(case["pre"][t], dtype=torch.bool).reshape(B, *ishape)
        if scripted:
            post = torch.tensor(case["post"][t], dtype=torch.bool).reshape(B, *oshape)
            with impl(f"layer step {t}"):
                out = layer(pre, neuron_kwargs={"override": post})
            check(torch.equal(out.reshape(B, no), post.reshape(B, no)), "harness:override",
                  lambda: f"step {t}: ExactNeuron did not emit the scripted spikes")
        else:
            with impl(f"layer step {t}"):
                out = layer(pre)
        posts.append(out.reshape(B, no).to(torch.int64).tolist())
        if case["called"][t]:
            with impl(f"trainer step {t}"):
                call(case, trainer, t, fdt)
                acc = getattr(conn.updater, param)
                pos, neg = acc.pos, acc.neg
            obs.append(("call", t, _np(pos), _np(neg)))
        if case["update"][t] or t == T - 1:
            if before_update is not None:
                before_update(t)
            with impl(f"connection.update step {t}"):
                conn.update()
                w = getattr(conn, param)
            obs.append(("update", t, _np(w)))
            if after_update is not None:
                after_update(t)
    return posts, obs


def reference(case, posts):
    """Per-step (ltp, ltd) of the case; every episode (history between two clears) is
    evaluated on its own: for the oracle nothing exists before the episode's first step."""
    mod = case["signal"] if case["trainer"] in MODULATED else None
    elements = elements_of(case)
    outs = []
    for (s, e) in episodes(case):
        outs.append(M.reference_run(
            rule_of(case), case["pre"][s:e], posts[s:e], _slice_elements(elements, s, e),
            reduction=case["reduction"], modulation=None if mod is None else mod[s:e],
            eligibility_tc=case["hp"]["tc_elig"] if case["trainer"] == "MSTDPET" else None,
            scale=case.get("scale", 1.0)))
    return np.concatenate([o[0] for o in outs], axis=0), np.concatenate([o[1] for o in outs], axis=0)


def pair_statistics(case, posts):
    """models.stdp.pair_stats summed over the episodes."""
    elements = elements_of(case)
    tot = None
    for (s, e) in episodes(case):
        st_ = M.pair_stats(case["pre"][s:e], posts[s:e], _slice_elements(elements, s, e), case["called"][s:e])
        if tot is None:
            tot = st_
        else:
            for k in ("causal", "anti", "simul"):
                tot[k] += st_[k]
            tot["max_pre_before_post"] = max(tot["max_pre_before_post"], st_["max_pre_before_post"])
            tot["delays"] = max(tot["delays"], st_["delays"])
    return tot


def close(got, want):
    scale = max(1.0, float(np.max(np.abs(want))) if want.size else 1.0)
    return np.abs(got - want) <= ATOL * scale + RTOL * np.abs(want)


class DefaultDtype:
    def __init__(self, f64):
        self.f64 = f64

    def __enter__(self):
        self.old = torch.get_default_dtype()
        if self.f64:
            torch.set_default_dtype(torch.float64)

    def __exit__(self, *a):
        torch.set_default_dtype(self.old)


def run_pairs(case):
    with DefaultDtype(case.get("f64", False)):
        return _run_pairs(case)


def compare_obs(tag, obs, net, keep, w0, info):
    """Observations of one connection against the per-step signed reference ``net``
    ([T, n]): accumulated pos - neg after every trainer call, weight after every update."""
    n = net.shape[1]
    pending = np.zeros(n)
    applied = np.zeros(n)
    for ob in obs:
        if ob[0] == "clear":
            pending = np.zeros(n)  # documented: Connection.clear also clears the updater
            continue
        if ob[0] == "call":
            _, t, pos, neg = ob
            pending = pending + net[t]
            got = (0.0 if pos is None else pos) - (0.0 if neg is None else neg)
            got = np.broadcast_to(np.asarray(got, dtype=np.float64), (n,)) if np.ndim(got) == 0 else got
            check(got.shape == (n,), "step:shape", lambda: f"{tag} step {t}: pos-neg has {got.shape} elements, weight {n}")
            ok = close(got, pending) | ~keep
            check(bool(ok.all()), "step:value",
                  lambda: f"{tag} step {t}: accumulated pos-neg {got.tolist()} != pair sum {pending.tolist()}",
                  info=info)
        else:
            _, t, w = ob
            applied = applied + pending
            pending = np.zeros(n)
            want = w0 + np.where(keep, applied, 0.0)
            ok = close(w - w0, want - w0)
            check(bool(ok.all()), "weight:value",
                  lambda: f"{tag} after update at step {t}: weight change {(w - w0).tolist()} != pair sum {(want - w0).tolist()}",
                  info=info)


def lateral_keep(case, n):
    if case["conn"] == "lateral":
        # the diagonal of a lateral connection is not a synapse (documented mask)
        m = weight_shape(case)[0]
        return (1 - np.eye(m)).astype(bool).reshape(-1)
    return np.ones(n, dtype=bool)


def override_classes(case):
    """Class labels describing how the cell's values differ from the constructor's."""
    if not case.get("ctor"):
        return []
    cls = ["override"]
    cv, ov = case["ctor"], case.get("override") or []
    lrk = [k for k in ov if k in ("lr_post", "lr_pre", "lr_post_pair", "lr_pre_pair", "lr_causal", "lr_anti", "plasticity")]
    if any((cv["hp"][k] >= 0) != (case["hp"][k] >= 0) for k in lrk):
        cls.append("override_signmode")
    for k in ("mode", "reduction", "delayed"):
        if k in ov:
            cls.append("override_" + k)
    if any(k.startswith("tc_") for k in ov):
        cls.append("override_tc")
    return cls


def _run_pairs(case):
    torch.manual_seed(0)
    with impl("construct"):
        layer = build_layer(case)
        trainer = build_trainer(case, layer)
    w0 = _np(layer.connection.weight)
    posts, obs = drive(case, layer, trainer)
    ltp, ltd = reference(case, posts)
    net = ltp - ltd  # [T, n]
    n = net.shape[1]
    keep = lateral_keep(case, n)
    compare_obs(case["trainer"], obs, net, keep, w0,
                {"trainer": case["trainer"], "conn": case["conn"], "override": bool(case.get("ctor"))})
    stats = pair_statistics(case, posts)
    d = case.get("delay")
    hetero = d is not None and stats["delays"] >= 2
    nt = (stats["causal"] >= 1 and stats["anti"] >= 1 and stats["simul"] >= 1
          and (case["mode"] != "nearest" or stats["max_pre_before_post"] >= 2)
          and (d is None or d["max"] == 0 or hetero)
          and bool(np.any(np.abs(net[np.array(case["called"], dtype=bool)]) > 0)))
    cls = [f"trainer={case['trainer']}", f"conn={case['conn']}", f"mode={case['mode']}",
           f"red={case['reduction']}", f"B={case['B']}",
           "delay=" + ("none" if d is None else ("delayed" if d.get("delayed") else "frozen")),
           f"signs={_signs(case)}", f"neuron={case.get('neuron', 'exact')}"]
    if hetero:
        cls.append("delays_hetero")
    if d is not None and d["max"] == 0:
        cls.append("delay_zero_max")
    if change_step(case) is not None:
        cls.append("delay_changed")
    dk = "none" if d is None else ("delayed" if d.get("delayed") else "frozen")
    cls.append(f"{case['conn']}/{dk}")
    cls.append(f"{case['trainer']}/{dk}")
    if case["trainer"] in MODULATED:
        per = any(isinstance(s, list) for s in case["signal"])
        cls.append("signal=" + ("persample" if per else "scalar"))
    if case.get("f64"):
        cls.append("f64")
    if not all(case["called"]):
        cls.append("skipped_calls")
    if case.get("clear"):
        cls.append("episodes")
        for kind in sorted(set(k for k in case["clear"] if k)):
            cls.append("clear=" + kind)
        multislot = (case["trainer"] in TRIPLET_TRAINERS
                     or (d is not None and d.get("delayed") and d["max"] > 0 and case["trainer"] != "MSTDPET"))
        cls.append("episodes_multislot" if multislot else "episodes_singleslot")
        if d is not None and d.get("delayed") and hetero:
            cls.append("episodes_delayed_hetero")
    cls += override_classes(case)
    return {"nt": bool(nt), "cls": cls}


# --------------------------------------------------------------------------------------
# several cells of one layer trained by one trainer


def expand_cells(case):
    """The single-cell views of a multi-cell case: every cell is a complete single-cell
    case (own connection geometry, delays, effective hyper-parameters, override list)
    sharing trainer, constructor values, batch, step time, length, calls and reward."""
    shared = {k: case[k] for k in ("trainer", "B", "dt", "T", "called", "update", "ctor", "signal",
                                   "scale", "tolerance", "clear") if k in case}
    subs = []
    for k, c in enumerate(case["cells"]):
        sub = dict(shared)
        sub.update(c)
        sub.setdefault("neuron", "exact")
        sub.setdefault("pre", case.get("pre_shared"))
        sub.setdefault("post", case.get("post_shared"))
        subs.append(sub)
    return subs


class Scene:
    """Layer with the cells of a multi-cell case.

    layouts: 'fanin'  -- Biclique, two connections onto ONE neuron group (cells share the
                         postsynaptic population and its monitors' attribute);
             'fanout' -- Biclique, ONE connection onto two neuron groups (cells share the
                         connection, its presynaptic monitors' attribute and its accumulator);
             'twice'  -- one Serial cell registered under two names."""

    def __init__(self, case, subs):
        from inferno.neural import Biclique, Serial

        self.layout = case["layout"]
        self.subs = subs
        if self.layout == "fanin":
            self.conns = [build_connection(subs[0]), build_connection(subs[1])]
            self.layer = Biclique((("c0", self.conns[0]), ("c1", self.conns[1])),
                                  (("n0", build_neuron(subs[0])),))
            self.cells = [self.layer.get_cell("c0", "n0"), self.layer.get_cell("c1", "n0")]
            self.conn_of = [0, 1]
        elif self.layout == "fanout":
            self.conns = [build_connection(subs[0])]
            self.layer = Biclique((("c0", self.conns[0]),),
                                  (("n0", build_neuron(subs[0])), ("n1", build_neuron(subs[1]))))
            self.cells = [self.layer.get_cell("c0", "n0"), self.layer.get_cell("c0", "n1")]
            self.conn_of = [0, 0]
        elif self.layout == "twice":
            self.conns = [build_connection(subs[0])]
            self.layer = Serial(self.conns[0], build_neuron(subs[0]))
            self.cells = [self.layer.cell, self.layer.cell]
            self.conn_of = [0, 0]
        else:
            raise ValueError(self.layout)

    def step(self, t):
        """One layer step with scripted post spikes; returns the post spikes per cell."""
        subs = self.subs
        B = subs[0]["B"]

        def tin(sub):
            return torch.tensor(sub["pre"][t], dtype=torch.bool).reshape(B, *shapes_of(sub)[0])

        def tout(sub):
            return torch.tensor(sub["post"][t], dtype=torch.bool).reshape(B, *shapes_of(sub)[1])

        if self.layout == "fanin":
            out = self.layer({"c0": (tin(subs[0]),), "c1": (tin(subs[1]),)},
                             neuron_kwargs={"n0": {"override": tout(subs[0])}})
            outs = [out["n0"], out["n0"]]
        elif self.layout == "fanout":
            out = self.layer({"c0": (tin(subs[0]),)},
                             neuron_kwargs={"n0": {"override": tout(subs[0])},
                                            "n1": {"override": tout(subs[1])}})
            outs = [out["n0"], out["n1"]]
        else:
            o = self.layer(tin(subs[0]), neuron_kwargs={"override": tout(subs[0])})
            outs = [o, o]
        res = []
        for sub, o in zip(subs, outs):
            no = shapes_of(sub)[3]
            check(torch.equal(o.reshape(B, no), tout(sub).reshape(B, no)), "harness:override",
                  lambda: f"step {t}: ExactNeuron did not emit the scripted spikes")
            res.append(o.reshape(B, no).to(torch.int64).tolist())
        return res


def drive_multi(case, scene, trainer, params=None, call=call_trainer, before_update=None,
                after_update=None):
    """Runs a multi-cell history (one trainer call per step for all cells). Returns the
    post histories per cell and one observation list per distinct connection (format of
    :func:`drive`). ``params[j]`` is the trained parameter of connection ``j``."""
    T = case["T"]
    nconn = len(scene.conns)
    params = params or ["weight"] * nconn
    posts = [[] for _ in scene.subs]
    obs = [[] for _ in range(nconn)]
    fdt = scene.conns[0].weight.dtype
    for t in range(T):
        if clear_kind(case, t):
            do_clear(case, t, trainer, scene.layer)
            for j in range(nconn):
                obs[j].append(("clear", t))
        with impl(f"layer step {t}"):
            outs = scene.step(t)
        for k, o in enumerate(outs):
            posts[k].append(o)
        if case["called"][t]:
            with impl(f"trainer step {t}"):
                call(scene.subs[0], trainer, t, fdt)
                parts = []
                for j, conn in enumerate(scene.conns):
                    acc = getattr(conn.updater, params[j])
                    parts.append((acc.pos, acc.neg))
            for j, (pos, neg) in enumerate(parts):
                obs[j].append(("call", t, _np(pos), _np(neg)))
        if case["update"][t] or t == T - 1:
            for j, conn in enumerate(scene.conns):
                if before_update is not None:
                    before_update(j, t)
                with impl(f"connection.update step {t}"):
                    conn.update()
                    w = getattr(conn, params[j])
                obs[j].append(("update", t, _np(w)))
                if after_update is not None:
                    after_update(j, t)
    return posts, obs


_POOL_KEYS = ("hp", "mode", "reduction")


def cells_differ(subs):
    """Names of the effective hyper-parameters in which the two cells differ."""
    a, b = subs[0], subs[1]
    diff = [k for k in a["hp"] if a["hp"][k] != b["hp"].get(k)]
    diff += [k for k in ("mode", "reduction") if a[k] != b[k]]
    if cell_delayed(a) != cell_delayed(b):
        diff.append("delayed")
    return diff


def run_multi(case):
    with DefaultDtype(case.get("f64", False)):
        return _run_multi(case)


def _run_multi(case):
    torch.manual_seed(0)
    subs = expand_cells(case)
    with impl("construct"):
        scene = Scene(case, subs)
        trainer = construct_trainer(subs[0])
        for k, (sub, cell) in enumerate(zip(subs, scene.cells)):
            trainer.register_cell("ab"[k], cell, **override_kwargs(sub))
    w0 = [_np(c.weight) for c in scene.conns]
    posts, obs = drive_multi(case, scene, trainer)
    nets = []
    for sub, ps in zip(subs, posts):
        ltp, ltd = reference(sub, ps)
        nets.append(ltp - ltd)
    diff = cells_differ(subs)
    for j in range(len(scene.conns)):
        members = [k for k in range(len(subs)) if scene.conn_of[k] == j]
        net = sum(nets[k] for k in members)
        n = net.shape[1]
        keep = lateral_keep(subs[members[0]], n)
        tag = f"{case['trainer']} {case['layout']} connection {j} (cells {members})"
        compare_obs(tag, obs[j], net, keep, w0[j],
                    {"trainer": case["trainer"], "layout": case["layout"], "differ": diff})
    called = np.array(case["called"], dtype=bool)
    live = [bool(np.any(np.abs(nk[called]) > 0)) for nk in nets]
    stats = [pair_statistics(sub, ps) for sub, ps in zip(subs, posts)]
    nt = all(live) and bool(diff) and all(st_["causal"] + st_["simul"] >= 1 and st_["anti"] + st_["simul"] >= 1
                                         for st_ in stats)
    cls = [f"trainer={case['trainer']}", f"layout={case['layout']}",
           "cells=" + ("identical" if not diff else "differ"),
           f"signs={_signs(subs[0])}|{_signs(subs[1])}"]
    for k in diff:
        cls.append("differ:" + ("lr" if k.startswith("lr_") else "tc" if k.startswith("tc_") else k))
    cls = sorted(set(cls))
    for sub in subs:
        d = sub.get("delay")
        cls.append("delay=" + ("none" if d is None else ("delayed" if d.get("delayed") else "frozen")))
    if case["trainer"] in MODULATED:
        cls.append("signal=" + ("persample" if any(isinstance(s_, list) for s_ in case["signal"]) else "scalar"))
    if case.get("clear"):
        cls.append("episodes")
    return {"nt": bool(nt), "cls": cls}


def _signs(case):
    hp = case["hp"]
    a = hp.get("lr_post", hp.get("lr_post_pair"))
    b = hp.get("lr_pre", hp.get("lr_pre_pair"))
    return ("+" if a >= 0 else "-") + ("+" if b >= 0 else "-")


# --------------------------------------------------------------------------------------
# generators

_TC = [2.0, 5.0, 10.0, 20.0, 3.7, 1.0]
_LR = [1.0, 0.5, 0.25, 0.1, 0.75, 0.03]
_SIG = [1.0, -1.0, 0.5, -0.5, 2.0, 0.0, -0.25, 1.5]


def _bits(draw, n, p_num):
    # element-wise (shrinks towards silence); p = p_num/4
    pal = [0] * (4 - p_num) + [1] * p_num
    return [draw(st.sampled_from(pal)) for _ in range(n)]


@st.composite
def hyper(draw, trainer):
    sp = draw(st.sampled_from([1, -1]))
    sq = draw(st.sampled_from([-1, 1]))
    if trainer in TRIPLET_TRAINERS:
        f1, f2 = draw(st.sampled_from(_TC)), draw(st.sampled_from(_TC))
        return {
            "lr_post_pair": sp * draw(st.sampled_from(_LR)),
            "lr_post_triplet": draw(st.sampled_from([1, 1, -1])) * draw(st.sampled_from(_LR)),
            "lr_pre_pair": sq * draw(st.sampled_from(_LR)),
            "lr_pre_triplet": draw(st.sampled_from([1, 1, -1])) * draw(st.sampled_from(_LR)),
            "tc_post_fast": f1, "tc_post_slow": f1 * draw(st.sampled_from([1.5, 2.0, 4.0])),
            "tc_pre_fast": f2, "tc_pre_slow": f2 * draw(st.sampled_from([1.5, 2.0, 4.0])),
        }
    hp = {"lr_post": sp * draw(st.sampled_from(_LR)), "lr_pre": sq * draw(st.sampled_from(_LR)),
          "tc_post": draw(st.sampled_from(_TC)), "tc_pre": draw(st.sampled_from(_TC))}
    if trainer == "MSTDPET":
        hp["tc_elig"] = draw(st.sampled_from(_TC))
    return hp


def override_groups(trainer):
    """Keys a cell may override at registration (keys of one group are overridden together)."""
    if trainer in TRIPLET_TRAINERS:
        return [["lr_post_pair"], ["lr_pre_pair"], ["lr_post_triplet"], ["lr_pre_triplet"],
                ["tc_post_fast", "tc_post_slow"], ["tc_pre_fast", "tc_pre_slow"],
                ["mode"], ["reduction"], ["delayed"], ["inplace"]]
    g = [["lr_post"], ["lr_pre"], ["tc_post"], ["tc_pre"], ["mode"], ["reduction"]]
    if trainer == "MSTDPET":
        g.append(["tc_elig"])
    else:
        g.append(["delayed"])
    return g


_LR_KEYS = ("lr_post", "lr_pre", "lr_post_pair", "lr_pre_pair", "lr_causal", "lr_anti", "plasticity")


def _get(case, key):
    if key in ("mode", "reduction"):
        return case[key]
    if key == "delayed":
        return cell_delayed(case)
    if key == "inplace":
        return bool(case.get("inplace", False))
    return case["hp"][key]


def _set(case, key, val):
    if key in ("mode", "reduction"):
        case[key] = val
    elif key == "delayed":
        if case.get("delay") is None:
            case["delayed"] = bool(val)
        else:
            case["delay"] = dict(case["delay"], delayed=bool(val))
    elif key == "inplace":
        case["inplace"] = bool(val)
    else:
        case["hp"] = dict(case["hp"], **{key: val})


def _cv_get(cv, key):
    return cv[key] if key in ("mode", "reduction", "delayed", "inplace") else cv["hp"][key]


def _cv_set(cv, key, val):
    if key in ("mode", "reduction", "delayed", "inplace"):
        cv[key] = val
    else:
        cv["hp"][key] = val


@st.composite
def ctor_values(draw, trainer, hyper_strategy):
    """A full, independent set of constructor hyper-parameters."""
    return {"hp": dict(draw(hyper_strategy)), "mode": draw(st.sampled_from(["cumulative", "nearest"])),
            "reduction": draw(st.sampled_from(["sum", "mean", "amax"])),
            "delayed": draw(st.booleans()), "inplace": draw(st.booleans())}


def choose_overrides(draw, groups):
    chosen = []
    for g in groups:
        if draw(st.booleans()):
            chosen += g
    return chosen or list(groups[0])


def apply_overrides(draw, case, groups, cv):
    """Single cell: the trainer is constructed with ``cv`` and the cell overrides a drawn
    subset of keys with its own values; every other constructor value is set to the
    cell's. Learning rates the cell overrides get, in half of the cases, the opposite
    sign in the constructor (the constructor's sign mode then differs from the cell's)."""
    chosen = choose_overrides(draw, groups)
    flip = draw(st.booleans())
    for g in groups:
        for k in g:
            if k in chosen:
                if flip and k in _LR_KEYS:
                    v = abs(_cv_get(cv, k))
                    _cv_set(cv, k, -v if _get(case, k) >= 0 else v)
            else:
                _cv_set(cv, k, _get(case, k))
    case["ctor"] = cv
    case["override"] = chosen
    return case


def cell_from_ctor(draw, cell, groups, cv, force=None):
    """Several cells: the constructor values ``cv`` are shared; the cell keeps its own drawn
    values for a drawn subset of keys (registered as overrides) and takes the constructor's
    for the rest."""
    chosen = choose_overrides(draw, groups) if force is None else force
    for g in groups:
        for k in g:
            if k not in chosen:
                _set(cell, k, _cv_get(cv, k))
    cell["override"] = chosen
    return cell


def conv_enabled() -> bool:
    """Conv2D cells are generated only once Conv2D.presyn_receptive works (fix #15)."""
    global _CONV
    if _CONV is None:
        try:
            from inferno.neural import Conv2D, DeltaCurrent

            c = Conv2D(2, 2, 1, 1, 1.0, 1, synapse=DeltaCurrent.partialconstructor(1.0))
            c.presyn_receptive(torch.zeros(1, 1, 4))
            _CONV = True
        except Exception:  # noqa: BLE001 - the pinned tree raises EinopsError here
            _CONV = False
    return _CONV


_CONV = None


@st.composite
def cell_geometry(draw, tier, allow_conv=True):
    kinds = ["dense", "dense", "dense", "direct", "lateral"]
    if allow_conv and conv_enabled():
        kinds += ["conv", "conv"]
    conn = draw(st.sampled_from(kinds))
    big = tier == "thorough"
    out = {"conn": conn}
    if conn == "dense":
        out["in_shape"] = draw(st.sampled_from([[1], [2], [3], [2, 2]] + ([[4], [5]] if big else [])))
        out["out_shape"] = draw(st.sampled_from([[1], [2], [3]] + ([[2, 2]] if big else [])))
    elif conn in ("direct", "lateral"):
        out["shape"] = draw(st.sampled_from([[1], [2], [3], [2, 2]] if conn == "direct" else [[2], [3], [2, 2]]))
    else:
        k = draw(st.sampled_from([[1, 1], [2, 2], [2, 1], [1, 2]]))
        g = {"channels": draw(st.sampled_from([1, 2])), "filters": draw(st.sampled_from([1, 2])),
             "height": draw(st.sampled_from([2, 3])), "width": draw(st.sampled_from([2, 3])),
             "kernel": k, "stride": draw(st.sampled_from([[1, 1], [2, 1], [1, 2]])),
             "padding": draw(st.sampled_from([[0, 0], [0, 0], [1, 0], [1, 1]])),
             "dilation": draw(st.sampled_from([[1, 1], [1, 1], [2, 1]]))}
        # keep the output non-empty
        for ax, size in ((0, g["height"]), (1, g["width"])):
            if size + 2 * g["padding"][ax] - g["dilation"][ax] * (g["kernel"][ax] - 1) - 1 < 0:
                g["dilation"][ax] = 1
        out["conv"] = g
    return out


@st.composite
def pairs_case(draw, tier="quick", trainers=TRAINERS):
    # 1 case in 4 consists of several episodes separated by clear(); those cases lean towards the
    # configurations whose reducers keep more than one time slot (triplet slow traces, 'delayed'
    # mode with non-zero delays), where stale pre-clear history could leak into the next episode
    episodic = draw(st.integers(0, 3)) == 3
    if episodic:
        trainer = draw(st.sampled_from(tuple(trainers) + TRIPLET_TRAINERS + ("STDP", "MSTDP")))
    else:
        trainer = draw(st.sampled_from(trainers))
    case = {"trainer": trainer}
    case.update(draw(cell_geometry(tier)))
    case["B"] = draw(st.sampled_from([1, 2, 2, 3]))
    if episodic:
        dkind = draw(st.sampled_from(["delayed", "delayed", "delayed", "frozen", "none"]))
    else:
        dkind = draw(st.sampled_from(["none", "none", "frozen", "delayed", "delayed", "flag_only"]))
    if trainer == "MSTDPET" and dkind == "delayed":
        dkind = "frozen"  # MSTDPET has no 'delayed' mode
    if dkind in ("frozen", "delayed"):
        case["dt"] = draw(st.sampled_from([1.0, 0.5, 2.0, 0.25]))
        case["delay"] = {"max": draw(st.sampled_from([2, 3, 1] if episodic else [2, 1, 3, 2, 0])),
                         "steps": draw(st.lists(st.integers(0, 3), min_size=1, max_size=6)),
                         "delayed": dkind == "delayed"}
        if dkind == "delayed" and draw(st.integers(0, 2)) == 2:
            # 'delayed' mode: the delays may change while training
            case["delay"]["change"] = {"at": draw(st.integers(0, 12)),
                                       "steps": draw(st.lists(st.integers(0, 3), min_size=1, max_size=6))}
    else:
        case["dt"] = draw(st.sampled_from([1.0, 0.5, 2.0, 1.3, 0.7]))
        case["delay"] = None
        case["delayed"] = dkind == "flag_only"
    case["hp"] = draw(hyper(trainer))
    case["mode"] = draw(st.sampled_from(["cumulative", "nearest"]))
    case["reduction"] = draw(st.sampled_from(["sum", "mean", "amax", "sum"]))
    case["w0"] = draw(st.sampled_from([[0.5], [0.0], [0.25, 1.0, -0.5]]))
    tmax = 10 if tier == "quick" else 16
    T = draw(st.integers(4 if episodic else 2, tmax))
    case["T"] = T
    ishape, oshape, ni, no = shapes_of(case)
    B = case["B"]
    p_pre, p_post = draw(st.sampled_from([1, 2, 2, 3])), draw(st.sampled_from([1, 2, 2, 3]))
    case["pre"] = [[_bits(draw, ni, p_pre) for _ in range(B)] for _ in range(T)]
    case["neuron"] = draw(st.sampled_from(["exact"] * 6 + ["driven", "lif"]))
    if case["neuron"] == "exact":
        case["post"] = [[_bits(draw, no, p_post) for _ in range(B)] for _ in range(T)]
    elif case["neuron"] == "lif":
        case["w0"] = [1.0, 0.5, 2.0]
    else:
        case["w0"] = [0.5, 0.0, 1.0]
    if trainer in MODULATED:
        per = draw(st.booleans())
        if per:
            case["reduction"] = "sum"  # documented: per-sample parts differ in batch size otherwise
            case["signal"] = [[draw(st.sampled_from(_SIG)) for _ in range(B)] for _ in range(T)]
        else:
            case["signal"] = [draw(st.sampled_from(_SIG)) for _ in range(T)]
        case["scale"] = draw(st.sampled_from([1.0, 1.0, 0.5, 2.0, 0.1, -0.5]))
    if draw(st.integers(0, 3)) == 3:
        case["called"] = [draw(st.sampled_from([True, True, True, False])) for _ in range(T)]
    else:
        case["called"] = [True] * T
    ukind = draw(st.sampled_from(["every", "end", "some"]))
    case["update"] = ([True] * T if ukind == "every" else [False] * T if ukind == "end"
                      else [draw(st.booleans()) for _ in range(T)])
    case["f64"] = draw(st.integers(0, 7)) == 7
    if trainer in TRIPLET_TRAINERS:
        case["inplace"] = draw(st.booleans())
    if episodic:
        draw_clears(draw, case)
    if draw(st.integers(0, 4)) >= 3:
        # the trainer is constructed with other values, the cell overrides them at registration
        apply_overrides(draw, case, override_groups(trainer), draw(ctor_values(trainer, hyper(trainer))))
    return case


def draw_clears(draw, case):
    """One or two clears (never before step 1, never two in a row); the trainer is called on the
    step that follows a clear, so every episode contributes."""
    T = case["T"]
    clear = [None] * T
    n = draw(st.sampled_from([1, 1, 2]))
    for _ in range(n):
        t = 1 + draw(st.integers(0, T - 2))
        if clear[t] is None and clear[t - 1] is None and (t + 1 >= T or clear[t + 1] is None):
            clear[t] = draw(st.sampled_from(["keep", "drop", "keep"]))
            case["called"][t] = True
    if any(clear):
        case["clear"] = clear


@st.composite
def multi_case(draw, tier="quick", trainers=TRAINERS):
    layout = draw(st.sampled_from(["fanin", "fanin", "fanout", "twice"]))
    pool = [t for t in trainers if not (t == "MSTDPET" and layout == "twice")]
    # (MSTDPET reads its traces through the cell's own monitor-name map, which a second
    #  registration of the same cell redirects: known finding of C15, not generated here)
    trainer = draw(st.sampled_from(pool))
    case = {"trainer": trainer, "layout": layout, "B": draw(st.sampled_from([1, 2, 2, 3]))}
    nout = draw(st.sampled_from([1, 2, 3]))
    dkind = draw(st.sampled_from(["none", "none", "frozen", "delayed"]))
    if trainer == "MSTDPET" and dkind == "delayed":
        dkind = "frozen"
    case["dt"] = draw(st.sampled_from([1.0, 0.5, 2.0] + ([1.3] if dkind == "none" else [0.25])))
    T = draw(st.integers(2, 8 if tier == "quick" else 14))
    case["T"] = T
    B = case["B"]
    groups = override_groups(trainer)
    cv = draw(ctor_values(trainer, hyper(trainer)))
    case["ctor"] = cv
    same = draw(st.integers(0, 4)) == 4  # both cells register identical values: pooling may share

    def geometry(fixed_out):
        kind = draw(st.sampled_from(["dense", "dense", "direct", "lateral"]))
        if kind == "lateral" and nout < 2:
            kind = "dense"
        if kind == "dense":
            g = {"conn": "dense", "in_shape": [draw(st.sampled_from([1, 2, 3]))], "out_shape": [fixed_out]}
        else:
            g = {"conn": kind, "shape": [fixed_out]}
        if dkind != "none":
            g["delay"] = {"max": draw(st.sampled_from([2, 1, 3])),
                          "steps": draw(st.lists(st.integers(0, 3), min_size=1, max_size=6)),
                          "delayed": dkind == "delayed"}
        else:
            g["delay"] = None
            g["delayed"] = False
        g["w0"] = draw(st.sampled_from([[0.5], [0.0], [0.25, 1.0, -0.5]]))
        return g

    def spikes(n):
        p = draw(st.sampled_from([2, 1, 3]))
        return [[_bits(draw, n, p) for _ in range(B)] for _ in range(T)]

    g0 = geometry(nout)
    g1 = geometry(nout) if layout == "fanin" else {k: (dict(v) if isinstance(v, dict) else v) for k, v in g0.items()}
    cells = []
    for k, g in enumerate((g0, g1)):
        cell = dict(g)
        if k == 1 and same:
            for key in ("hp", "mode", "reduction", "inplace", "override"):
                if key in cells[0]:
                    cell[key] = cells[0][key]
            if cell.get("delay") is not None:
                cell["delay"] = dict(cell["delay"], delayed=cell_delayed(cells[0]))
            else:
                cell["delayed"] = cell_delayed(cells[0])
        else:
            cell["hp"] = draw(hyper(trainer))
            cell["mode"] = draw(st.sampled_from(["cumulative", "nearest"]))
            cell["reduction"] = draw(st.sampled_from(["sum", "mean", "amax"]))
            if trainer in TRIPLET_TRAINERS:
                cell["inplace"] = draw(st.booleans())
            if dkind == "none":
                cell["delayed"] = draw(st.booleans())  # flag without a delayed connection: no effect
            elif trainer != "MSTDPET":
                cell["delay"] = dict(cell["delay"], delayed=draw(st.booleans()) if dkind == "delayed" else False)
            cell_from_ctor(draw, cell, groups, cv)
        cells.append(cell)
    ni0 = shapes_of(dict(cells[0], B=B, dt=case["dt"]))[2]
    ni1 = shapes_of(dict(cells[1], B=B, dt=case["dt"]))[2]
    if layout == "fanin":
        cells[0]["pre"], cells[1]["pre"] = spikes(ni0), spikes(ni1)
        case["post_shared"] = spikes(nout)
    elif layout == "fanout":
        case["pre_shared"] = spikes(ni0)
        cells[0]["post"], cells[1]["post"] = spikes(nout), spikes(nout)
    else:
        case["pre_shared"], case["post_shared"] = spikes(ni0), spikes(nout)
    case["cells"] = cells
    if trainer in MODULATED:
        if draw(st.booleans()):
            for c in cells:
                c["reduction"] = "sum"
                if "reduction" not in c["override"] and cv["reduction"] != "sum":
                    c["override"] = c["override"] + ["reduction"]
            case["signal"] = [[draw(st.sampled_from(_SIG)) for _ in range(B)] for _ in range(T)]
        else:
            case["signal"] = [draw(st.sampled_from(_SIG)) for _ in range(T)]
        case["scale"] = draw(st.sampled_from([1.0, 1.0, 0.5, 2.0, -0.5]))
    case["called"] = ([True] * T if draw(st.integers(0, 3)) < 3
                      else [draw(st.sampled_from([True, True, True, False])) for _ in range(T)])
    ukind = draw(st.sampled_from(["every", "end", "some"]))
    case["update"] = ([True] * T if ukind == "every" else [False] * T if ukind == "end"
                      else [draw(st.booleans()) for _ in range(T)])
    case["f64"] = draw(st.integers(0, 9)) == 9
    if T >= 4 and draw(st.integers(0, 3)) == 3:
        draw_clears(draw, case)
    return case


# --------------------------------------------------------------------------------------
# exhaustive 1x1 leg

_SIGNS = [(1, -1), (-1, 1), (1, 1), (-1, -1)]


def _exh_cases(tier):
    tmax = {"STDP": 4, "TripletSTDP": 3, "MSTDPET": 3} if tier == "quick" else \
           {"STDP": 6, "TripletSTDP": 5, "MSTDPET": 5}
    for trainer in ("STDP", "TripletSTDP", "MSTDPET"):
        for T in range(1, tmax[trainer] + 1):
            for code in range(4 ** T):
                for mode in ("cumulative", "nearest"):
                    for si, _ in enumerate(_SIGNS):
                        yield {"trainer": trainer, "T": T, "code": code, "mode": mode, "signs": si}


def exh_to_case(e):
    T, code = e["T"], e["code"]
    pre, post = [], []
    for t in range(T):
        digit = (code >> (2 * t)) & 3
        pre.append([[digit & 1]])
        post.append([[digit >> 1]])
    sp, sq = _SIGNS[e["signs"]]
    trainer = e["trainer"]
    if trainer == "TripletSTDP":
        hp = {"lr_post_pair": sp * 0.5, "lr_post_triplet": 0.75, "lr_pre_pair": sq * 0.25,
              "lr_pre_triplet": 0.5, "tc_post_fast": 3.0, "tc_post_slow": 7.0,
              "tc_pre_fast": 2.0, "tc_pre_slow": 5.0}
    else:
        hp = {"lr_post": sp * 0.5, "lr_pre": sq * 0.25, "tc_post": 3.0, "tc_pre": 2.0}
        if trainer == "MSTDPET":
            hp["tc_elig"] = 4.0
    case = {"trainer": trainer, "conn": "dense", "in_shape": [1], "out_shape": [1], "B": 1,
            "dt": 1.0, "delay": None, "hp": hp, "mode": e["mode"], "reduction": "sum",
            "w0": [0.5], "T": T, "pre": pre, "post": post, "neuron": "exact",
            "called": [True] * T, "update": [False] * T, "f64": False}
    if trainer == "MSTDPET":
        case["signal"] = [[1.0, -0.5, 2.0][t % 3] for t in range(T)]
        case["scale"] = 1.0
    return case


def run_exhaustive(e):
    case = exh_to_case(e)
    out = _run_pairs(case)
    stats = M.pair_stats(case["pre"], case["post"], elements_of(case), case["called"])
    out["nt"] = stats["causal"] + stats["anti"] + stats["simul"] >= 1
    out["cls"] = [f"trainer={e['trainer']}", f"T={e['T']}", f"mode={e['mode']}", f"signs={e['signs']}"]
    return out


LEGS = [
    Leg(
        name="pairs",
        run=run_pairs,
        strategy=lambda tier: pairs_case(tier),
        quick=360, thorough=2600, quick_shards=8, thorough_shards=16, nt_floor=0.3,
        rule="history with >= 1 causal, >= 1 anti-causal and >= 1 simultaneous pre/post pair whose "
             "triggering spike falls on a step where the trainer is called, a non-zero expected update, "
             "in nearest mode >= 2 pre spikes up to one post spike, with delays (max > 0) >= 2 distinct "
             "delays; distinct by SHA-1 of the case",
    ),
    Leg(
        name="multi",
        run=run_multi,
        strategy=lambda tier: multi_case(tier),
        quick=200, thorough=1800, quick_shards=6, thorough_shards=16, nt_floor=0.25,
        rule="ONE trainer, constructed with one set of hyper-parameters, trains TWO cells of one layer "
             "(two connections onto one neuron group / one connection onto two neuron groups / the same "
             "Serial cell under two names) that register different per-cell overrides; one trainer call "
             "per step; every connection's accumulator and weight equal the sum of the pair sums of its "
             "cells computed with each cell's own values. Non-trivial: the cells differ in at least one "
             "effective hyper-parameter and both have a non-zero expected update",
    ),
    Leg(
        name="exhaustive",
        run=run_exhaustive,
        enumerate=_exh_cases,
        quick_shards=6, thorough_shards=16, nt_floor=0.4,
        rule="1x1 dense cell, every pre/post history (4^T) x {cumulative, nearest} x 4 sign modes: STDP "
             "T<=4 (quick) / T<=6 (thorough); TripletSTDP and MSTDPET (reward cycling through +1, -0.5, +2) "
             "T<=3 (quick) / T<=5 (thorough); non-trivial = at least one pre/post pair exists",
        exhaustive_note="finite history domain enumerated completely up to the stated T",
    ),
]

ASSUMPTIONS = [
    "CPU only; DeltaCurrent synapses; connection delays are whole multiples of a dyadic dt (exact in float32), "
    "so every delayed read is on-grid (off-grid interpolation of delays is C02/C04/C06's subject)",
    "implementation runs in float32 (float64 default dtype in 1/8 of the cases); compared with the float64 "
    "pair sum at rtol 1e-4 / atol 2e-5*max(1,|expected|)",
    "per-sample reward tensors only with batch_reduction=sum (documented: the parts' batch sizes differ otherwise)",
    "MSTDPET: the property's update is signal*scale*z(t) (no extra dt factor; the class docstring's formula "
    "shows one that the implementation does not apply -- with dt = 1 they coincide)",
    "lateral connections: the diagonal is not a synapse (documented mask); only off-diagonal elements are compared",
    "no bounding / weight dependence configured (C10's subject)",
    "multi: dense/direct/lateral connections, scripted post spikes; MSTDPET is not registered twice on the same "
    "cell (its eligibility monitors read the traces through the cell's monitor-name map, C15's known finding)",
]

"""C09 -- every trainer's LTP/LTD split is non-negative and nets to the signed rule.

Legs
  split     : every trainer (STDP, StableSTDP, TripletSTDP, StableTripletSTDP, MSTDP, MSTDPET,
              KernelSTDP, DelayAdjusted{STDP,STDPD,KernelSTDP,KernelSTDPD,MSTDP,MSTDPD},
              LinearHomeostasis on weight/bias/delay) on generated cells and histories with
              *recording* half-bounds on the trained parameter. After every trainer call: the
              potentiating part equals the documented one (where this property owns the
              formula), both parts are element-wise >= 0, the sign mode routes "potentiative
              only" / "depressive only" rules into one part; at every update the upper-bound
              function sees exactly the potentiating part, the lower-bound function exactly the
              depressing part, and the applied change is pos - neg.
  direction : metamorphic directions: purely causal / purely anti-causal histories move the
              parameter in the direction of the sign of the responsible learning rate (and only
              that part is non-zero), negating the reward negates the change and swaps the
              parts, a rate above / below the homeostatic target moves weight and bias down / up
              and the delay up / down.
  multi     : ONE trainer, two connections onto one neuron group, different per-cell overrides; all
              split checks per cell with the cell's own values.
  (split and direction also construct the trainer with other values -- often another sign mode --
   and let the cell override them at register_cell in 2 of 5 cases.)
Oracles: pbt.models.stdp (pair sums; STDP family), pbt.models.homeostasis (docstring formula).
The exact formula of the kernel / delay-adjusted rules is C18's subject and is not asserted here.
"""

from __future__ import annotations

import numpy as np
import torch
from hypothesis import strategies as st

from ..harness import Leg, check, impl
from ..models import homeostasis as H
from ..models import stdp as M
from . import c08

PAIR_FAMILY = c08.TRAINERS
KERNEL = ("KernelSTDP", "DelayAdjustedKernelSTDP", "DelayAdjustedKernelSTDPD")
DELAY_ADJ = ("DelayAdjustedSTDP", "DelayAdjustedSTDPD", "DelayAdjustedMSTDP", "DelayAdjustedMSTDPD",
             "DelayAdjustedKernelSTDP", "DelayAdjustedKernelSTDPD")
HOMEO = "LinearHomeostasis"
ALL = PAIR_FAMILY + ("KernelSTDP",) + DELAY_ADJ + (HOMEO,)
MODULATED = ("MSTDP", "MSTDPET", "DelayAdjustedMSTDP", "DelayAdjustedMSTDPD")
TRAINS_DELAY = ("DelayAdjustedSTDPD", "DelayAdjustedMSTDPD", "DelayAdjustedKernelSTDPD")


def param_of(case) -> str:
    if case["trainer"] == HOMEO:
        return case["hp"]["param"]
    return "delay" if case["trainer"] in TRAINS_DELAY else "weight"


def causal_lr(case) -> tuple[float, float]:
    """(learning rate of the term for post-after-pre timing, of the term for pre-after-post)."""
    hp = case["hp"]
    if case["trainer"] in c08.TRIPLET_TRAINERS:
        return hp["lr_post_pair"], hp["lr_pre_pair"]
    if case["trainer"] in PAIR_FAMILY:
        return hp["lr_post"], hp["lr_pre"]
    return hp["lr_causal"], hp["lr_anti"]


def param_shape(case):
    p = param_of(case)
    if p != "bias":
        return c08.weight_shape(case)
    _, oshape, _, no = c08.shapes_of(case)
    return (case["conv"]["filters"],) if case["conn"] == "conv" else (no,)


def keep_mask(case):
    """Elements of the trained parameter that exist as synapses (lateral diagonal excluded)."""
    shp = param_shape(case)
    if case["conn"] == "lateral" and param_of(case) != "bias":
        return (1 - np.eye(shp[0])).astype(bool).reshape(-1)
    return np.ones(int(np.prod(shp)), dtype=bool)


# --------------------------------------------------------------------------------------
# trainers


def _da_names(name):
    """Keyword names of (lr_causal, lr_anti, tc_causal, tc_anti) for a delay-adjusted rule."""
    if name in ("DelayAdjustedSTDP", "DelayAdjustedMSTDP"):
        return {"lr_causal": "lr_pos", "lr_anti": "lr_neg", "tc_causal": "tc_pos", "tc_anti": "tc_neg"}
    # delay-training variants: the t_delta >= 0 term carries lr_neg / tc_neg
    return {"lr_causal": "lr_neg", "lr_anti": "lr_pos", "tc_causal": "tc_neg", "tc_anti": "tc_pos"}


def construct_trainer(case):
    """The trainer built from its CONSTRUCTOR values (c08.ctor_view): the cell's own, or
    case['ctor'] when the cell overrides them at registration."""
    name = case["trainer"]
    if name in PAIR_FAMILY:
        return c08.construct_trainer(case)
    import inferno.functional as F
    import inferno.learn as L

    cv = c08.ctor_view(case)
    hp = cv["hp"]
    red = c08.REDUCTIONS[cv["reduction"]]
    if name == HOMEO:
        if case.get("ctor"):
            tgt = hp.get("target")
        else:
            tgt = hp["target"] if isinstance(hp["target"], float) and hp.get("target_at") == "ctor" else None
        return L.LinearHomeostasis(hp["plasticity"], tgt, hp["param"], batch_reduction=red)
    inplace = bool(cv.get("inplace", False))
    lc, la, tc, ta = hp["lr_causal"], hp["lr_anti"], hp["tc_causal"], hp["tc_anti"]
    if name in KERNEL:
        kpost = dict(learning_rate=lc, time_constant=tc)
        kpre = dict(learning_rate=la, time_constant=ta)
        if name == "KernelSTDP":
            return L.KernelSTDP(F.exp_stdp_post_kernel, F.exp_stdp_pre_kernel, kpost, kpre,
                                delayed=bool(cv.get("delayed", False)), batch_reduction=red, inplace=inplace)
        return getattr(L, name)(F.exp_stdp_post_kernel, F.exp_stdp_pre_kernel, kpost, kpre,
                                batch_reduction=red, inplace=inplace)
    nm = _da_names(name)
    return getattr(L, name)(**{nm["lr_causal"]: lc, nm["lr_anti"]: la, nm["tc_causal"]: tc,
                               nm["tc_anti"]: ta}, batch_reduction=red, inplace=inplace)


def override_kwargs(case, fdt=None):
    """register_cell keyword arguments for the keys the cell overrides."""
    name = case["trainer"]
    if name in PAIR_FAMILY:
        return c08.override_kwargs(case)
    ov = case.get("override") or []
    hp = case["hp"]
    out = {}
    if "reduction" in ov:
        out["batch_reduction"] = c08.REDUCTIONS[case["reduction"]]
    if "inplace" in ov:
        out["inplace"] = bool(case.get("inplace", False))
    if "delayed" in ov:
        out["delayed"] = c08.cell_delayed(case)
    if name == HOMEO:
        if "plasticity" in ov:
            out["plasticity"] = hp["plasticity"]
        if "param" in ov:
            out["param"] = hp["param"]
        if "target" in ov:
            tgt = hp["target"]
            if isinstance(tgt, list):
                _, oshape, _, _ = c08.shapes_of(case)
                tgt = torch.tensor(tgt, dtype=fdt or torch.get_default_dtype()).reshape(1, *oshape)
            out["target"] = tgt
        return out
    if name in KERNEL:
        if "lr_causal" in ov or "tc_causal" in ov:
            out["kernel_post_kwargs"] = dict(learning_rate=hp["lr_causal"], time_constant=hp["tc_causal"])
        if "lr_anti" in ov or "tc_anti" in ov:
            out["kernel_pre_kwargs"] = dict(learning_rate=hp["lr_anti"], time_constant=hp["tc_anti"])
        return out
    nm = _da_names(name)
    for k in ("lr_causal", "lr_anti", "tc_causal", "tc_anti"):
        if k in ov:
            out[nm[k]] = hp[k]
    return out


def build_trainer(case, layer):
    tr = construct_trainer(case)
    tr.register_cell("cell", layer.cell, **override_kwargs(case))
    return tr


def homeo_target(case, fdt):
    """Target handed over at call time (None: the registered / constructor target is used)."""
    hp = case["hp"]
    tgt = hp["target"]
    if hp.get("target_at") in ("ctor", "register"):
        return None
    if isinstance(tgt, list):
        _, oshape, _, _ = c08.shapes_of(case)
        return torch.tensor(tgt, dtype=fdt).reshape(1, *oshape)
    return float(tgt)


def call_trainer(case, trainer, t, fdt):
    if case["trainer"] == HOMEO:
        trainer(homeo_target(case, fdt))
    else:
        c08.call_trainer(case, trainer, t, fdt)


def homeo_groups(case):
    """Postsynaptic elements whose rates belong to one row of the trained parameter."""
    _, oshape, _, no = c08.shapes_of(case)
    if case["conn"] == "conv":
        L_ = oshape[1] * oshape[2]
        return [[f * L_ + l for l in range(L_)] for f in range(oshape[0])]
    return [[o] for o in range(no)]


def expand_rows(case, rows):
    """Row values of the homeostatic update broadcast to the trained parameter."""
    shp = param_shape(case)
    rows = np.asarray(rows, dtype=np.float64)
    if param_of(case) == "bias" or len(shp) == 1:
        return rows.copy()
    return np.broadcast_to(rows.reshape((shp[0],) + (1,) * (len(shp) - 1)), shp).reshape(-1).copy()


# --------------------------------------------------------------------------------------
# one run with recording half-bounds


class Recorder:
    def __init__(self):
        self.up, self.lo = [], []

    def f_up(self, param, update, limit, **kw):
        self.up.append(update.detach().clone())
        return update

    def f_lo(self, param, update, limit, **kw):
        self.lo.append(update.detach().clone())
        return update


def expected_parts(case, posts):
    """(ltp, ltd) arrays [T, n_param] where this property owns the formula, else None."""
    T = case["T"]
    n = int(np.prod(param_shape(case)))
    if case["trainer"] in PAIR_FAMILY:
        return c08.reference(case, posts)
    if case["trainer"] == HOMEO:
        hp = case["hp"]
        ltp, ltd = np.zeros((T, n)), np.zeros((T, n))
        groups = homeo_groups(case)
        for t in range(T):
            p, d = H.parts(posts, t, hp["target"], hp["plasticity"], hp["param"], groups,
                           case["reduction"])
            ltp[t], ltd[t] = expand_rows(case, p), expand_rows(case, d)
        return ltp, ltd
    return None


class Probe:
    """Recording half-bounds on the trained parameter of one connection plus every check that
    holds for any history (routing, applied change; after the run: parts vs documented
    values, non-negativity, net rule)."""

    def __init__(self, case, conn, tag=None):
        self.case, self.conn = case, conn
        self.param = param_of(case)
        self.rec = Recorder()
        self.acc = getattr(conn.updater, self.param)
        self.acc.upperbound(self.rec.f_up, 1.0e9)
        self.acc.lowerbound(self.rec.f_lo, -1.0e9)
        self.shp = param_shape(case)
        self.keep = keep_mask(case)
        self.tag = (tag or case["trainer"]) + (f"[{self.param}]" if case["trainer"] == HOMEO else "")
        self.info = {"trainer": case["trainer"], "param": self.param, "override": bool(case.get("ctor"))}
        self.prev = c08._np(getattr(conn, self.param))
        self.pos = self.neg = None
        self.applied = []

    def before_update(self, t):
        with impl("accumulator parts"):
            self.pos, self.neg = self.acc.pos, self.acc.neg
        self.rec.up.clear()
        self.rec.lo.clear()

    def after_update(self, t):
        pos, neg, tag, info, shp = self.pos, self.neg, self.tag, self.info, self.shp
        for nm, part, seen in (("upper", pos, self.rec.up), ("lower", neg, self.rec.lo)):
            want = 0 if part is None else 1
            check(len(seen) == want, "routing:calls",
                  lambda: f"{tag} update at step {t}: {nm}-bound function called {len(seen)}x, "
                          f"accumulator {'holds' if want else 'has no'} such part", info)
            if want:
                check(tuple(seen[0].shape) == tuple(part.shape) and torch.equal(seen[0], part),
                      "routing:value",
                      lambda: f"{tag} update at step {t}: {nm}-bound function saw {seen[0].tolist()}, "
                              f"the {'potentiating' if nm == 'upper' else 'depressing'} part is {part.tolist()}",
                      info)
        now = c08._np(getattr(self.conn, self.param))
        p = np.zeros(shp) if pos is None else np.broadcast_to(pos.detach().to(torch.float64).numpy(), shp)
        q = np.zeros(shp) if neg is None else np.broadcast_to(neg.detach().to(torch.float64).numpy(), shp)
        want = np.where(self.keep, (p - q).reshape(-1), 0.0)
        got = now - self.prev
        ok = c08.close(got, want)
        check(bool(ok.all()), "applied:value",
              lambda: f"{tag} update at step {t}: {self.param} changed by {got.tolist()}, pos - neg is {want.tolist()}",
              info)
        self.applied.append(want)
        self.prev = now

    def evaluate(self, posts, obs):
        case, tag, info, shp, keep = self.case, self.tag, self.info, self.shp, self.keep
        n = int(np.prod(shp))
        exp = expected_parts(case, posts)
        lc, la = (None, None) if case["trainer"] == HOMEO else causal_lr(case)
        pend_p, pend_d = np.zeros(n), np.zeros(n)
        calls = []
        for ob in obs:
            if ob[0] in ("update", "clear"):
                pend_p, pend_d = np.zeros(n), np.zeros(n)
                continue
            _, t, pos, neg = ob
            # shapes: a part must broadcast to the trained parameter
            fp, fn = _bcast(case, pos), _bcast(case, neg)
            check(fp is not None and fn is not None, "split:shape",
                  lambda: f"{tag} step {t}: parts of {None if pos is None else pos.size} / "
                          f"{None if neg is None else neg.size} elements do not broadcast to {shp}", info)
            if exp is not None:
                pend_p, pend_d = pend_p + exp[0][t], pend_d + exp[1][t]
                ok = c08.close(fp, pend_p) | ~keep
                check(bool(ok.all()), "split:ltp-value",
                      lambda: f"{tag} step {t}: potentiating part {fp.tolist()} != documented {pend_p.tolist()}", info)
            for nm, part in (("pos", fp), ("neg", fn)):
                bad = ~(part >= 0)  # also catches NaN
                check(not bool(bad.any()), "split:negative",
                      lambda: f"{tag} step {t}: the {'potentiating' if nm == 'pos' else 'depressing'} part has "
                              f"negative (or NaN) elements: {part.tolist()}",
                      dict(info, part=nm))
            if exp is not None:
                ok = c08.close(fn, pend_d) | ~keep
                check(bool(ok.all()), "split:ltd-value",
                      lambda: f"{tag} step {t}: depressing part {fn.tolist()} != documented {pend_d.tolist()}",
                      dict(info, part="neg"))
                net = pend_p - pend_d
                ok = c08.close(fp - fn, net) | ~keep
                check(bool(ok.all()), "net:value",
                      lambda: f"{tag} step {t}: pos - neg {(fp - fn).tolist()} != signed rule {net.tolist()}", info)
            calls.append((t, fp, fn))
        return {"posts": posts, "calls": calls, "applied": self.applied, "exp": exp,
                "final": self.prev, "lc": lc, "la": la}


def run_recorded(case, negate_signal=False):
    """Builds the cell, runs the history and applies every check that holds for any
    history. Returns a dict with the observations for the metamorphic legs."""
    if negate_signal:
        case = dict(case)
        case["signal"] = [([-x for x in s] if isinstance(s, list) else -s) for s in case["signal"]]
    torch.manual_seed(0)
    with impl("construct"):
        layer = c08.build_layer(case)
        probe = Probe(case, layer.connection)
        trainer = build_trainer(case, layer)
    posts, obs = c08.drive(case, layer, trainer, param=probe.param, call=call_trainer,
                           before_update=probe.before_update, after_update=probe.after_update)
    return probe.evaluate(posts, obs)


def run_multi(case):
    """ONE trainer, two connections onto one neuron group, per-cell overrides: every cell is
    judged with its own values exactly like a single cell."""
    torch.manual_seed(0)
    subs = c08.expand_cells(case)
    with impl("construct"):
        scene = c08.Scene(case, subs)
        probes = [Probe(sub, conn, tag=f"{case['trainer']} cell {'ab'[k]}")
                  for k, (sub, conn) in enumerate(zip(subs, scene.conns))]
        if case["trainer"] == HOMEO:
            tdiff = subs[0]["hp"]["target"] != subs[1]["hp"]["target"]
            for pr in probes:
                pr.info["targets_differ"] = bool(tdiff)
        trainer = construct_trainer(subs[0])
        fdt = scene.conns[0].weight.dtype
        for k, (sub, cell) in enumerate(zip(subs, scene.cells)):
            trainer.register_cell("ab"[k], cell, **override_kwargs(sub, fdt))
    posts, obs = c08.drive_multi(case, scene, trainer, params=[p.param for p in probes],
                                 call=call_trainer,
                                 before_update=lambda j, t: probes[j].before_update(t),
                                 after_update=lambda j, t: probes[j].after_update(t))
    both = []
    for k, (sub, probe) in enumerate(zip(subs, probes)):
        res = probe.evaluate(posts[k], obs[k])
        mode_routing(sub, res)
        both.append(any(np.any(fp > 0) or np.any(fn > 0) for (_, fp, fn) in res["calls"]))
    diff = c08.cells_differ(subs)
    cls = [f"trainer={case['trainer']}", "cells=" + ("differ" if diff else "identical")]
    for k in sorted(set("lr" if d.startswith(("lr_", "plasticity")) else "tc" if d.startswith("tc_") else d
                        for d in diff)):
        cls.append("differ:" + k)
    if case["trainer"] != HOMEO:
        sg = []
        for sub in subs:
            lc, la = causal_lr(sub)
            sg.append(("+" if lc >= 0 else "-") + ("+" if la >= 0 else "-"))
        if sg[0] != sg[1]:
            cls.append("signmodes_differ")
    return {"nt": bool(all(both) and diff), "cls": cls}


def _bcast(case, part):
    shp = param_shape(case)
    n = int(np.prod(shp))
    if part is None:
        return np.zeros(n)
    if part.size == n:
        return part
    if part.size == 1:
        return np.full(n, float(part.reshape(-1)[0]))
    if len(shp) > 1 and part.size == shp[0]:  # one value per row (homeostasis)
        return np.broadcast_to(part.reshape((shp[0],) + (1,) * (len(shp) - 1)), shp).reshape(-1).copy()
    return None


def mode_routing(case, res):
    """'Potentiative only' / 'depressive only' sign modes hand over one part only: terms
    whose learning rate is >= 0 are potentiating, the others depressing; a negative reward
    swaps them."""
    if case["trainer"] == HOMEO:
        return
    lc, la = res["lc"], res["la"]
    if (lc >= 0) != (la >= 0):
        return
    sgn = 1.0
    if case["trainer"] in MODULATED:
        flat = []
        for t, s in enumerate(case["signal"]):
            if case["called"][t]:
                flat.extend(s if isinstance(s, list) else [s])
        if any(x > 0 for x in flat) and any(x < 0 for x in flat):
            return
        if not any(x != 0 for x in flat):
            return
        sgn = -1.0 if any(x < 0 for x in flat) else 1.0
    positive = (lc >= 0) == (sgn > 0)
    info = {"trainer": case["trainer"], "param": param_of(case)}
    for (t, fp, fn) in res["calls"]:
        empty = fn if positive else fp
        check(not bool(np.any(np.abs(empty) > 0)), "split:mode-routing",
              lambda: f"{case['trainer']} step {t}: both learning rates {'>= 0' if lc >= 0 else '< 0'} "
                      f"(reward sign {sgn:+.0f}) but the {'depressing' if positive else 'potentiating'} "
                      f"part is non-zero: {empty.tolist()}", info)


def run_split(case):
    with c08.DefaultDtype(case.get("f64", False)):
        res = run_recorded(case)
    mode_routing(case, res)
    both = any(np.any(fp > 0) and np.any(fn > 0) for (_, fp, fn) in res["calls"])
    anyp = any(np.any(fp > 0) for (_, fp, fn) in res["calls"])
    anyn = any(np.any(fn > 0) for (_, fp, fn) in res["calls"])
    d = case.get("delay")
    cls = [f"trainer={case['trainer']}", f"conn={case['conn']}", f"red={case['reduction']}",
           f"param={param_of(case)}", f"B={case['B']}",
           "delay=" + ("none" if d is None else ("delayed" if d.get("delayed") else "frozen"))]
    if case["trainer"] != HOMEO:
        lc, la = causal_lr(case)
        cls.append("signs=" + ("+" if lc >= 0 else "-") + ("+" if la >= 0 else "-"))
    else:
        cls.append("homeo=" + case["hp"]["signed"])
    if both:
        cls.append("both_parts")
    elif anyp:
        cls.append("only_pos")
    elif anyn:
        cls.append("only_neg")
    if case["trainer"] in MODULATED:
        cls.append("signal=" + ("persample" if any(isinstance(s, list) for s in case["signal"]) else "scalar"))
    if case.get("f64"):
        cls.append("f64")
    cls += c08.override_classes(case)
    return {"nt": bool(both), "cls": cls}


# --------------------------------------------------------------------------------------
# direction leg


def run_direction(case):
    kind = case["kind"]
    res = run_recorded(case)
    mode_routing(case, res)
    tag = case["trainer"]
    info = {"trainer": case["trainer"], "param": param_of(case), "direction": kind}
    keep = keep_mask(case)
    total = np.sum(res["applied"], axis=0) if res["applied"] else np.zeros(keep.size)
    scale = max(1.0, float(np.max(np.abs(total)))) if total.size else 1.0
    eps = 1e-6 * scale
    nt = False
    if kind in ("causal", "anti"):
        lr = res["lc"] if kind == "causal" else res["la"]
        sgn = 1.0 if lr >= 0 else -1.0
        if case["trainer"] in MODULATED:
            s0 = case["signal"][0]
            sgn *= 1.0 if (s0[0] if isinstance(s0, list) else s0) >= 0 else -1.0
        word = "post-after-pre" if kind == "causal" else "pre-after-post"
        for (t, fp, fn) in res["calls"]:
            live, dead = (fp, fn) if sgn > 0 else (fn, fp)
            check(not bool(np.any(np.abs(dead[keep]) > eps)), "direction:wrong-part",
                  lambda: f"{tag} step {t}: purely {word} history, responsible learning rate {lr:+g}: the "
                          f"{'depressing' if sgn > 0 else 'potentiating'} part must stay zero, is {dead.tolist()}",
                  info)
        check(bool(np.all(sgn * total[keep] >= -eps)), "direction:sign",
              lambda: f"{tag}: purely {word} history, responsible learning rate {lr:+g}: applied change "
                      f"{total.tolist()} has elements of the opposite sign", info)
        # strictly: legitimate updates can be tiny (exp(-|t_delta|/tau) with a short time constant)
        moved = bool(np.any(sgn * total[keep] > 0))
        check(moved, "direction:nomove",
              lambda: f"{tag}: purely {word} history with at least one pair per synapse changed nothing "
                      f"({total.tolist()})", info)
        nt = moved
    elif kind == "reward":
        twin = run_recorded(case, negate_signal=True)
        tw_total = np.sum(twin["applied"], axis=0) if twin["applied"] else np.zeros(keep.size)
        ok = c08.close(tw_total, -total) | ~keep
        check(bool(ok.all()), "direction:reward-negation",
              lambda: f"{tag}: negating the reward changed the update from {total.tolist()} to "
                      f"{tw_total.tolist()} (expected the negation)", info)
        for (t, fp, fn), (_, gp, gn) in zip(res["calls"], twin["calls"]):
            ok = (c08.close(gp, fn) & c08.close(gn, fp)) | ~keep
            check(bool(ok.all()), "direction:reward-swap",
                  lambda: f"{tag} step {t}: negating the reward must swap the parts: "
                          f"(pos {fp.tolist()}, neg {fn.tolist()}) became (pos {gp.tolist()}, neg {gn.tolist()})",
                  info)
        nt = bool(np.any(np.abs(total[keep]) > eps))
    elif kind == "rate":
        hp = case["hp"]
        up = (hp["regime"] == "below") == (hp["plasticity"] >= 0)  # weight / bias go up
        if hp["param"] == "delay":
            up = not up
        sgn = 1.0 if up else -1.0
        for (t, fp, fn) in res["calls"]:
            net = fp - fn
            check(bool(np.all(sgn * net[keep] >= -eps)), "direction:rate",
                  lambda: f"{tag}[{hp['param']}] step {t}: rate {hp['regime']} target, plasticity "
                          f"{hp['plasticity']:+g}: pos - neg {net.tolist()} must be {'>= 0' if up else '<= 0'}", info)
        check(bool(np.all(sgn * total[keep] >= -eps)) and bool(np.any(sgn * total[keep] > eps)),
              "direction:rate",
              lambda: f"{tag}[{hp['param']}]: rate {hp['regime']} target, plasticity {hp['plasticity']:+g}: "
                      f"{hp['param']} changed by {total.tolist()}, must move {'up' if up else 'down'}", info)
        nt = True
    cls = [f"trainer={case['trainer']}", f"kind={kind}", f"conn={case['conn']}", f"param={param_of(case)}"]
    if case["trainer"] != HOMEO:
        lc, la = causal_lr(case)
        cls.append("signs=" + ("+" if lc >= 0 else "-") + ("+" if la >= 0 else "-"))
    else:
        cls.append("homeo=" + case["hp"]["regime"])
    cls += c08.override_classes(case)
    return {"nt": bool(nt), "cls": cls}


# --------------------------------------------------------------------------------------
# generators

_TC, _LR, _SIG = c08._TC, c08._LR, c08._SIG


@st.composite
def hyper9(draw, trainer):
    if trainer in PAIR_FAMILY:
        return draw(c08.hyper(trainer))
    if trainer == HOMEO:
        return None  # filled by the caller (needs the history)
    return {"lr_causal": draw(st.sampled_from([1, -1])) * draw(st.sampled_from(_LR)),
            "lr_anti": draw(st.sampled_from([-1, 1])) * draw(st.sampled_from(_LR)),
            "tc_causal": draw(st.sampled_from(_TC)), "tc_anti": draw(st.sampled_from(_TC))}


def override_groups(trainer):
    if trainer in PAIR_FAMILY:
        return c08.override_groups(trainer)
    if trainer == HOMEO:
        return [["plasticity"], ["target"], ["param"], ["reduction"]]
    g = [["lr_causal"], ["lr_anti"], ["tc_causal"], ["tc_anti"], ["reduction"], ["inplace"]]
    if trainer == "KernelSTDP":
        g.append(["delayed"])
    return g


def ctor_hyper(trainer):
    """Strategy for an independent set of constructor hyper-parameters."""
    if trainer == HOMEO:
        return st.fixed_dictionaries({
            "plasticity": st.sampled_from([1.0, 0.5, 0.1, 2.0, -0.5]),
            "target": st.sampled_from([0.5, 1.0, 2.0, 0.25, 4.0]),
            "param": st.sampled_from(["weight", "bias", "delay"])})
    return hyper9(trainer)


def maybe_override(draw, case, always=False):
    """In 2 of 5 cases the trainer is constructed with other hyper-parameters (often another
    sign mode) and the cell overrides them at registration; documented behaviour follows the
    cell's values."""
    if not always and draw(st.integers(0, 4)) < 3:
        return case
    trainer = case["trainer"]
    cv = draw(c08.ctor_values(trainer, ctor_hyper(trainer)))
    c08.apply_overrides(draw, case, override_groups(trainer), cv)
    if trainer == HOMEO:
        hp = case["hp"]
        if "target" in case["override"]:
            hp["target_at"] = "register"  # float or per-output tensor handed over at registration
            if isinstance(cv["hp"]["target"], list):
                cv["hp"]["target"] = 3.0
        else:
            # not overridden: constructor / call-time target exactly as without overrides
            cv["hp"]["target"] = (hp["target"] if isinstance(hp["target"], float)
                                  and hp.get("target_at") == "ctor" else None)
    return case


_SPLIT_TRAINERS = ALL + (HOMEO, HOMEO)  # three parameters to cover


@st.composite
def base_case(draw, tier, trainer):
    """Cell, delays, batch, reduction, hyper-parameters -- everything but the history."""
    case = {"trainer": trainer}
    case.update(draw(c08.cell_geometry(tier)))
    case["B"] = draw(st.sampled_from([2, 1, 2, 3]))
    needs_delay = trainer in DELAY_ADJ
    hparam = None
    if trainer == HOMEO:
        hparam = draw(st.sampled_from(["weight", "bias", "delay"]))
        needs_delay = hparam == "delay"
        case["bias"] = hparam == "bias"
    elif draw(st.integers(0, 5)) == 5:
        case["bias"] = True
    if needs_delay:
        dkind = "frozen"
    elif trainer in ("MSTDPET", HOMEO):
        dkind = draw(st.sampled_from(["none", "none", "frozen"]))
    elif trainer in PAIR_FAMILY or trainer == "KernelSTDP":
        dkind = draw(st.sampled_from(["none", "none", "frozen", "delayed", "flag_only"]))
    else:
        dkind = "none"
    if dkind in ("frozen", "delayed"):
        case["dt"] = draw(st.sampled_from([1.0, 0.5, 2.0, 0.25]))
        case["delay"] = {"max": draw(st.sampled_from([2, 1, 3, 0])),
                         "steps": draw(st.lists(st.integers(0, 3), min_size=1, max_size=6)),
                         "delayed": dkind == "delayed"}
    else:
        case["dt"] = draw(st.sampled_from([1.0, 0.5, 2.0, 1.3, 0.7]))
        case["delay"] = None
        case["delayed"] = dkind == "flag_only"
    case["hp"] = draw(hyper9(trainer))
    if trainer == HOMEO:
        case["hp"] = {"param": hparam}
    case["mode"] = draw(st.sampled_from(["cumulative", "nearest"]))
    case["reduction"] = draw(st.sampled_from(["sum", "mean", "amax", "sum"]))
    case["w0"] = draw(st.sampled_from([[0.5], [0.0], [0.25, 1.0, -0.5]]))
    case["neuron"] = "exact"
    case["f64"] = False
    if trainer not in PAIR_FAMILY or trainer in c08.TRIPLET_TRAINERS:
        case["inplace"] = draw(st.booleans())
    return case


def _signals(draw, case, T, constant_sign=None):
    B = case["B"]
    if constant_sign is not None:
        pal = [1.0, 0.5, 2.0, 0.25]
        if draw(st.booleans()):
            case["signal"] = [constant_sign * draw(st.sampled_from(pal)) for _ in range(T)]
        else:  # per-sample rewards that all agree in sign
            case["reduction"] = "sum"
            case["signal"] = [[constant_sign * draw(st.sampled_from(pal)) for _ in range(B)] for _ in range(T)]
    elif draw(st.booleans()):
        case["reduction"] = "sum"
        case["signal"] = [[draw(st.sampled_from(_SIG)) for _ in range(B)] for _ in range(T)]
    else:
        case["signal"] = [draw(st.sampled_from(_SIG)) for _ in range(T)]
    case["scale"] = draw(st.sampled_from([1.0, 1.0, 0.5, 2.0, 0.1, -0.5]))


def _homeo_hp(draw, case, want):
    """Target and plasticity. ``want``: 'nonneg' (the documented signed term is >= 0 for every
    neuron at every step), 'neg' (< 0 everywhere), 'mixed', or 'below' / 'above' (every rate
    strictly below / above its target). Sets hp['regime'] (below/above/mixed) and hp['signed']."""
    _, _, _, no = c08.shapes_of(case)
    B, T = case["B"], case["T"]
    hp = case["hp"]
    hp["plasticity"] = draw(st.sampled_from([1.0, 0.5, 0.1, 2.0, -0.5]))
    eff_pos = (hp["plasticity"] >= 0) != (hp["param"] == "delay")  # sign of the factor of (r* - r)
    if want in ("nonneg", "neg"):
        regime = "below" if (want == "nonneg") == eff_pos else "above"
    else:
        regime = want
    hp["regime"] = regime
    if regime == "mixed":
        hp["signed"] = "mixed"
    else:
        hp["signed"] = "nonneg" if (regime == "below") == eff_pos else "neg"
    if regime == "below":
        pal = [1.0, 1.5, 2.0, 4.0]
        # strictly below: silent first and last step, so every rate is < 1 <= target
        case["post"][0] = [[0] * no for _ in range(B)]
        case["post"][-1] = [[0] * no for _ in range(B)]
    elif regime == "above":
        pal = [0.25, 0.5, 0.125, 0.75]
        case["post"] = [[[1] * no for _ in range(B)] for _ in range(T)]  # rate 1 > target
    else:
        pal = [0.5, 0.25, 0.75, 1.0, 0.125]
    if draw(st.booleans()):
        hp["target"] = [draw(st.sampled_from(pal)) for _ in range(no)]  # per-output tensor at call time
    else:
        hp["target"] = draw(st.sampled_from(pal))
        hp["target_at"] = draw(st.sampled_from(["ctor", "call"]))


@st.composite
def split_case(draw, tier="quick"):
    trainer = draw(st.sampled_from(_SPLIT_TRAINERS))
    case = draw(base_case(tier, trainer))
    tmax = 8 if tier == "quick" else 14
    T = draw(st.integers(2, tmax))
    case["T"] = T
    _, _, ni, no = c08.shapes_of(case)
    B = case["B"]
    p_pre, p_post = draw(st.sampled_from([2, 1, 3])), draw(st.sampled_from([2, 1, 3]))
    case["pre"] = [[c08._bits(draw, ni, p_pre) for _ in range(B)] for _ in range(T)]
    case["post"] = [[c08._bits(draw, no, p_post) for _ in range(B)] for _ in range(T)]
    if trainer in MODULATED:
        _signals(draw, case, T)
    if trainer != HOMEO and draw(st.booleans()):
        # bias towards the two mixed sign modes (they are the ones that produce both parts)
        hp = case["hp"]
        a, b_ = (("lr_post_pair", "lr_pre_pair") if trainer in c08.TRIPLET_TRAINERS else
                 ("lr_post", "lr_pre") if trainer in PAIR_FAMILY else ("lr_causal", "lr_anti"))
        hp[b_] = -abs(hp[b_]) if hp[a] >= 0 else abs(hp[b_])
    if trainer == HOMEO:
        # most cases stay in the region where the signed term is >= 0 everywhere (known finding
        # C09-homeostasis-negative-part makes the rest unreachable for the remaining checks)
        _homeo_hp(draw, case, draw(st.sampled_from(["nonneg", "nonneg", "nonneg", "mixed", "neg"])))
    if draw(st.integers(0, 3)) == 3:
        case["called"] = [draw(st.sampled_from([True, True, True, False])) for _ in range(T)]
    else:
        case["called"] = [True] * T
    ukind = draw(st.sampled_from(["every", "end", "some"]))
    case["update"] = ([True] * T if ukind == "every" else [False] * T if ukind == "end"
                      else [draw(st.booleans()) for _ in range(T)])
    case["f64"] = draw(st.integers(0, 9)) == 9
    return maybe_override(draw, case)


# modulated rules appear twice: they have the extra scalar / per-sample reward dimension to cover
_DIR_TRAINERS = tuple(t for t in ALL if t != HOMEO) + MODULATED


@st.composite
def direction_case(draw, tier="quick"):
    kind = draw(st.sampled_from(["causal", "anti", "reward", "rate", "causal", "anti"]))
    if kind == "rate":
        trainer = HOMEO
    elif kind == "reward":
        trainer = draw(st.sampled_from(MODULATED))
    else:
        trainer = draw(st.sampled_from(_DIR_TRAINERS))
    case = draw(base_case(tier, trainer))
    case["kind"] = kind
    if trainer in KERNEL and case["reduction"] == "amax":
        # the kernel rules reduce signed kernel values over the batch; what a non-linear reduction
        # means for them is not documented (C18), so directions are asserted for sum / mean only
        case["reduction"] = "mean"
    _, _, ni, no = c08.shapes_of(case)
    B = case["B"]
    dmax = 0 if case.get("delay") is None else case["delay"]["max"]
    if kind in ("causal", "anti"):
        a = draw(st.integers(1, 3))  # length of the first block
        b = draw(st.integers(1, 3))  # length of the second block
        T = a + dmax + b
        first = [[c08._bits(draw, ni if kind == "causal" else no, 2) for _ in range(B)] for _ in range(a)]
        second = [[c08._bits(draw, no if kind == "causal" else ni, 2) for _ in range(B)] for _ in range(b)]
        # at least one pair on every synapse: sample 0 fires everywhere at the block edges
        first[0][0] = [1] * len(first[0][0])
        second[-1][0] = [1] * len(second[-1][0])
        zi, zo = [[0] * ni for _ in range(B)], [[0] * no for _ in range(B)]
        if kind == "causal":
            # raw pre spikes in [0, a), post spikes in [a + dmax, T): also after the delay shift
            # every pre spike is strictly earlier than every post spike
            case["pre"] = first + [zi] * (dmax + b)
            case["post"] = [zo] * (a + dmax) + second
        else:
            # post spikes in [0, a), raw pre spikes in [a, a + b); dmax trailing steps so that the
            # delayed pre spikes still arrive within the history
            case["post"] = first + [zo] * (b + dmax)
            case["pre"] = [zi] * a + second + [zi] * dmax
        case["T"] = T
        if trainer in MODULATED:
            _signals(draw, case, T, constant_sign=draw(st.sampled_from([1.0, -1.0])))
        case["called"] = [True] * T
        if param_of(case) == "delay":
            case["update"] = [False] * T  # the delays being trained stay fixed during the history
        else:
            case["update"] = draw(st.sampled_from([[False] * T, [True] * T]))
    elif kind == "reward":
        T = draw(st.integers(2, 7))
        case["T"] = T
        case["pre"] = [[c08._bits(draw, ni, 2) for _ in range(B)] for _ in range(T)]
        case["post"] = [[c08._bits(draw, no, 2) for _ in range(B)] for _ in range(T)]
        _signals(draw, case, T)
        case["called"] = [True] * T
        case["update"] = draw(st.sampled_from([[False] * T, [True] * T])) if param_of(case) != "delay" else [False] * T
    else:
        T = draw(st.integers(2, 7))
        case["T"] = T
        case["pre"] = [[c08._bits(draw, ni, 2) for _ in range(B)] for _ in range(T)]
        case["post"] = [[c08._bits(draw, no, 2) for _ in range(B)] for _ in range(T)]
        _homeo_hp(draw, case, draw(st.sampled_from(["below", "above"])))
        case["called"] = [True] * T
        case["update"] = draw(st.sampled_from([[False] * T, [True] * T]))
    return maybe_override(draw, case)


@st.composite
def multi_case(draw, tier="quick"):
    """Two connections onto one neuron group (Biclique), one trainer, per-cell overrides."""
    trainer = draw(st.sampled_from(ALL + MODULATED))
    B = draw(st.sampled_from([2, 1, 3]))
    case = {"trainer": trainer, "layout": "fanin", "B": B}
    nout = draw(st.sampled_from([2, 1, 3]))
    if trainer in DELAY_ADJ or trainer == HOMEO:
        dkind = "frozen"
    elif trainer == "MSTDPET":
        dkind = draw(st.sampled_from(["none", "frozen"]))
    elif trainer in PAIR_FAMILY or trainer == "KernelSTDP":
        dkind = draw(st.sampled_from(["none", "frozen", "delayed"]))
    else:
        dkind = "none"
    case["dt"] = draw(st.sampled_from([1.0, 0.5, 2.0]))
    T = draw(st.integers(2, 7 if tier == "quick" else 12))
    case["T"] = T
    groups = override_groups(trainer)
    cv = draw(c08.ctor_values(trainer, ctor_hyper(trainer)))
    case["ctor"] = cv

    def spikes(n, p=None):
        p = p or draw(st.sampled_from([2, 1, 3]))
        return [[c08._bits(draw, n, p) for _ in range(B)] for _ in range(T)]

    case["post_shared"] = spikes(nout)
    if trainer == HOMEO:
        # every rate strictly below every target (silent first and last step, targets >= 1) and a
        # non-negative documented term for both cells: outside the region of the known finding
        case["post_shared"][0] = [[0] * nout for _ in range(B)]
        case["post_shared"][-1] = [[0] * nout for _ in range(B)]
    same_target = None
    cells = []
    for k in range(2):
        kind = draw(st.sampled_from(["dense", "dense", "direct", "lateral"]))
        if kind == "lateral" and nout < 2:
            kind = "dense"
        cell = ({"conn": "dense", "in_shape": [draw(st.sampled_from([1, 2, 3]))], "out_shape": [nout]}
                if kind == "dense" else {"conn": kind, "shape": [nout]})
        if dkind != "none":
            cell["delay"] = {"max": draw(st.sampled_from([2, 1, 3])),
                             "steps": draw(st.lists(st.integers(0, 3), min_size=1, max_size=6)),
                             "delayed": dkind == "delayed" and draw(st.booleans())}
        else:
            cell["delay"] = None
            cell["delayed"] = draw(st.booleans())
        cell["w0"] = draw(st.sampled_from([[0.5], [0.0], [0.25, 1.0, -0.5]]))
        cell["mode"] = draw(st.sampled_from(["cumulative", "nearest"]))
        cell["reduction"] = draw(st.sampled_from(["sum", "mean", "amax"]))
        cell["inplace"] = draw(st.booleans())
        if trainer == HOMEO:
            cell["bias"] = True
            param = draw(st.sampled_from(["weight", "bias", "delay"]))
            mag = draw(st.sampled_from([1.0, 0.5, 0.1, 2.0]))
            cell["hp"] = {"param": param, "plasticity": -mag if param == "delay" else mag,
                          "regime": "below", "signed": "nonneg", "target_at": "register"}
            pal = [1.0, 1.5, 2.0, 4.0]
            tgt = ([draw(st.sampled_from(pal)) for _ in range(nout)] if draw(st.booleans())
                   else draw(st.sampled_from(pal)))
            # each cell registers its own target (regression for the fixed defect: forward() used
            # to keep the FIRST cell's registered target for all later cells); 1 in 4 share one
            if k == 0:
                same_target = tgt
            elif draw(st.integers(0, 3)) == 3:
                tgt = same_target
            cell["hp"]["target"] = tgt
            c08.cell_from_ctor(draw, cell, [g for g in groups if g != ["target"]], cv)
            cell["override"] = cell["override"] + ["target"]
            hp = cell["hp"]
            if (hp["plasticity"] >= 0) == (hp["param"] == "delay"):
                # keep the documented signed term >= 0 (behind the known negative-part finding)
                cell["hp"] = dict(hp, plasticity=-hp["plasticity"])
                if "plasticity" not in cell["override"]:
                    cell["override"] = cell["override"] + ["plasticity"]
        else:
            cell["hp"] = draw(hyper9(trainer))
            c08.cell_from_ctor(draw, cell, groups, cv)
        ni = c08.shapes_of(dict(cell, B=B, dt=case["dt"]))[2]
        cell["pre"] = spikes(ni)
        cells.append(cell)
    case["cells"] = cells
    if trainer in MODULATED:
        if draw(st.booleans()):
            for c in cells:
                c["reduction"] = "sum"
                if "reduction" not in c["override"] and cv["reduction"] != "sum":
                    c["override"] = c["override"] + ["reduction"]
            case["signal"] = [[draw(st.sampled_from(_SIG)) for _ in range(B)] for _ in range(T)]
        else:
            case["signal"] = [draw(st.sampled_from(_SIG)) for _ in range(T)]
        case["scale"] = draw(st.sampled_from([1.0, 1.0, 0.5, 2.0, -0.5]))
    case["called"] = [True] * T
    ukind = draw(st.sampled_from(["every", "end", "some"]))
    case["update"] = ([True] * T if ukind == "every" else [False] * T if ukind == "end"
                      else [draw(st.booleans()) for _ in range(T)])
    return case


LEGS = [
    Leg(
        name="split",
        run=run_split,
        strategy=lambda tier: split_case(tier),
        quick=220, thorough=2400, quick_shards=8, thorough_shards=16, nt_floor=0.25,
        rule="some trainer call hands over a potentiating AND a depressing part that are both non-zero "
             "somewhere; distinct by SHA-1 of the case",
    ),
    Leg(
        name="direction",
        run=run_direction,
        strategy=lambda tier: direction_case(tier),
        quick=260, thorough=2000, quick_shards=8, thorough_shards=16, nt_floor=0.5,
        rule="causal / anti: the parameter moved (every synapse of sample 0 has a pair); reward: the "
             "update being negated is non-zero; rate: always (rates strictly above / below target)",
    ),
]

LEGS.append(Leg(
    name="multi",
    run=run_multi,
    strategy=lambda tier: multi_case(tier),
    quick=160, thorough=1500, quick_shards=6, thorough_shards=16, nt_floor=0.25,
    rule="ONE trainer (any of the 14), constructed with one set of hyper-parameters, trains two cells "
         "(two connections onto one neuron group) registered with different overrides; all split checks "
         "(parts vs documented values where owned, non-negativity, sign-mode routing, bound routing, applied "
         "change) are evaluated per cell with the cell's own values. Non-trivial: the cells differ in an "
         "effective hyper-parameter and both hand over a non-zero part",
))

ASSUMPTIONS = [
    "same cells, histories, delays and tolerances as C08; one trainer per cell (two trainers with differently "
    "shaped parts on one cell is the Accumulator defect #18 / C10)",
    "kernel and delay-adjusted rules: only non-negativity, sign-mode routing, bound routing, pos - neg applied, "
    "and the direction metamorphics are asserted; their exact formula is C18's",
    "KernelSTDP family is run with the shipped exponential kernels (exp_stdp_post_kernel / exp_stdp_pre_kernel)",
    "recording half-bounds return their argument unchanged (limits +-1e9), so 'no bounding' holds for the applied change",
    "LinearHomeostasis: the rate is the cumulative average of the spike indicator since construction",
]

"""C13 — resizing a record keeps the newest observations in order and the size formula;
constraint bookkeeping stays consistent.

Legs
  temporal    : ring state (any pointer / fill level / storage kind) then sequences of
                dt / duration / inclusive assignments interleaved with pushes
  sizegrid    : exhaustive grid dt, duration in multiples of 0.1 (<= 3.0) x inclusive: size
                formula, constructor == setter path, from an aligned and a rotated record
  constraints : operation sequences of reconstrain add / edit / remove, value assignment,
                on ShapedTensor and RecordTensor, strict / non-strict, +/- dims
"""

from __future__ import annotations

import math
from fractions import Fraction

import numpy as np
import torch
import torch.nn as nn
from hypothesis import strategies as st

from ..harness import Leg, Violation, check, impl
from ..models.ring import Ring

DT = {"float32": torch.float32, "float64": torch.float64, "int64": torch.int64}


def sizes(dt: float, duration: float, incl: bool):
    """Documented formula max(ceil(T/dt) + incl, 1): exact-rational and float evaluation."""
    ex = max(math.ceil(Fraction(duration) / Fraction(dt)) + int(bool(incl)), 1)
    fl = max(math.ceil(duration / dt) + int(bool(incl)), 1)
    return ex, fl


def _mk(kind, dtype, shape, dt, duration, incl, live=False):
    from inferno.core.infrastructure import Module, RecordTensor

    owner = Module()
    tdt = DT[dtype]
    if kind == "zeros":
        v = torch.zeros(shape, dtype=tdt)
    elif kind == "param":
        v = nn.Parameter(torch.zeros(shape, dtype=tdt), requires_grad=False)
    elif kind == "none":
        v = None
    elif kind == "empty0":
        v = torch.empty(0, dtype=tdt)
    elif kind == "ubuf":
        v = nn.UninitializedBuffer(dtype=tdt)
    elif kind == "uparam":
        v = nn.UninitializedParameter(requires_grad=False, dtype=tdt)
    RecordTensor.create(owner, "rec", dt, duration, v, inclusive=incl, live=live)
    return owner, owner.rec


def _check_size(rt, dt, duration, incl, what, stats):
    ex, fl = sizes(dt, duration, incl)
    with impl("recordsz " + what):
        got = rt.recordsz
    if ex != fl:
        stats["amb"] += 1
    check(got in (ex, fl), "size:formula",
          lambda: f"{what}: recordsz {got} but max(ceil({duration!r}/{dt!r}) + {int(incl)}, 1) = {ex}"
                  f"{'' if ex == fl else f' (float evaluation {fl})'}")
    with impl("fresh construct " + what):
        _, fresh = _mk("zeros", "float32", (), dt, duration, incl)
        fsz = fresh.recordsz
    check(got == fsz, "size:ctor-vs-setter",
          lambda: f"{what}: recordsz {got} after assignment but a freshly constructed record has {fsz}")
    return got


def _vals(pool, i, numel, shape):
    return np.array([pool[(i * 5 + j * 3) % len(pool)] * 0.5 + 1 + i for j in range(numel)], dtype=np.float64).reshape(shape)


def run_temporal(case):
    shape = tuple(case["shape"])
    numel = int(np.prod(shape)) if shape else 1
    dt, dur, incl = case["dt"], case["duration"], case["inclusive"]
    stats = dict.fromkeys(["amb", "resize_ptr", "resize", "grow", "shrink", "noop", "uninit_resize"], 0)
    with impl("construct"):
        owner, rt = _mk(case["kind"], case["dtype"], shape, dt, dur, incl, case.get("live", False))
    n = _check_size(rt, dt, dur, incl, "construct", stats)
    ring = Ring(n, shape, case["dtype"]) if case["kind"] in ("zeros", "param") else None
    pushes = 0
    for i, op in enumerate(case["ops"]):
        what = f"op#{i} {op}"
        if op[0] == "push":
            vals = _vals(op[1], i, numel, shape)
            if case["dtype"] == "int64":
                vals = np.trunc(vals) + (2 ** 24 + 1 if op[1][0] % 2 else 0)
            with impl(what):
                rt.push(torch.tensor(vals, dtype=DT[case["dtype"]]), inplace=op[2])
                n = rt.recordsz
            if ring is None:
                ring = Ring(n, shape, case["dtype"])
            ring.push(vals)
            pushes += 1
        elif op[0] == "incr":
            if ring is None:
                continue
            with impl(what):
                rt.incr(op[1] % n)
            ring.incr(op[1] % n)
        else:
            old_n = n
            ptr_before = rt.pointer if ring is not None else 0
            with impl(what + f" (storage {'initialised' if ring is not None else 'uninitialised'}, recordsz {old_n})"):
                if op[0] == "dt":
                    rt.dt = op[1]
                    dt = op[1]
                elif op[0] == "duration":
                    rt.duration = op[1]
                    dur = op[1]
                elif op[0] == "inclusive":
                    rt.inclusive = op[1]
                    incl = op[1]
            with impl("getters after " + what):
                g = (rt.dt, rt.duration, bool(rt.inclusive))
            check(g == (dt, dur, bool(incl)), "getter",
                  lambda: f"{what}: getters report {g}, assigned {(dt, dur, bool(incl))}")
            n = _check_size(rt, dt, dur, incl, what, stats)
            if ring is None:
                stats["uninit_resize"] += 1 if n != old_n else 0
                with impl("ignored after " + what):
                    check(rt.ignored, "uninit:materialised", f"{what}: storage became initialised by a setter")
                continue
            if n != old_n:
                stats["resize"] += 1
                stats["grow" if n > old_n else "shrink"] += 1
                if ptr_before != 0 and pushes >= old_n:
                    stats["resize_ptr"] += 1
                new = Ring(n, shape, case["dtype"])
                for k in range(1, min(old_n, n) + 1):
                    new.hist[k % n] = ring.read(k)
                ring = new
            else:
                stats["noop"] += 1
        if ring is not None:
            with impl("state after " + what):
                val, ptr = rt.value, rt.pointer
            check(val.shape[0] == n and tuple(val.shape[1:]) == shape, "state:shape",
                  lambda: f"{what}: storage shape {tuple(val.shape)} for recordsz {n}, obs shape {shape}")
            check(0 <= ptr < n, "state:pointer", lambda: f"{what}: pointer {ptr} outside [0,{n})")
            check(val.dtype == DT[case["dtype"]], "state:dtype",
                  lambda: f"{what}: storage dtype became {val.dtype}, the record's dtype is {case['dtype']} (observations altered beyond conversion to the record's own type)")
            for k in range(n):
                with impl(f"read({k}) after {what}"):
                    got = rt.read(k).detach().to(torch.float64).numpy().reshape(shape)
                check(np.array_equal(got, ring.read(k)), "preserve",
                      lambda: f"{what}: read({k}) = {got.tolist()} but the {k}-steps-back observation was "
                              f"{ring.read(k).tolist()} (recordsz now {n})")
    cls = [f"kind={case['kind']}"] + [k for k in ("resize", "grow", "shrink", "noop", "resize_ptr", "uninit_resize", "amb") if stats[k]]
    nt = stats["resize_ptr"] >= 1 or stats["uninit_resize"] >= 1
    return {"nt": bool(nt), "cls": cls, "amb": stats["amb"]}


_pool = st.lists(st.integers(-9, 9), min_size=1, max_size=5)
_dts = [0.1, 0.25, 0.5, 1.0, 1.3, 0.7, 2.0]


def _dur(draw, dt):
    kind = draw(st.integers(0, 5))
    if kind <= 2:
        return draw(st.integers(0, 7)) * dt
    if kind == 3:
        return draw(st.sampled_from([0.0, 0.3, 0.7, 1.1, 2.5, 0.6, 1.2, 3.0]))
    return (draw(st.integers(0, 6)) + draw(st.sampled_from([0.25, 0.5, 0.9]))) * dt


@st.composite
def temporal_case(draw, tier="quick"):
    dt = draw(st.sampled_from(_dts))
    dur = _dur(draw, dt)
    incl = draw(st.booleans())
    kind = draw(st.sampled_from(["zeros", "zeros", "zeros", "param", "none", "empty0", "ubuf", "uparam"]))
    dtype = draw(st.sampled_from(["float32", "float32", "float64", "int64"]))
    shape = draw(st.sampled_from([[], [2], [2, 2], [1]]))
    n0 = sizes(dt, dur, incl)[0]
    ops = []
    if kind in ("zeros", "param") or draw(st.booleans()):
        for _ in range(draw(st.integers(0, 2 * n0 + 2))):
            ops.append(["push", draw(_pool), draw(st.booleans())])
    cur = dt
    for _ in range(draw(st.integers(1, 6 if tier == "quick" else 10))):
        k = draw(st.integers(0, 5))
        if k == 0:
            cur = draw(st.sampled_from(_dts))
            ops.append(["dt", cur])
        elif k in (1, 2):
            ops.append(["duration", _dur(draw, cur)])
        elif k == 3:
            ops.append(["inclusive", draw(st.booleans())])
        elif k == 4:
            for _ in range(draw(st.integers(1, 4))):
                ops.append(["push", draw(_pool), draw(st.booleans())])
        else:
            ops.append(["incr", draw(st.integers(0, 9))])
    return {"dt": dt, "duration": dur, "inclusive": incl, "kind": kind, "dtype": dtype, "shape": shape, "ops": ops,
            "live": draw(st.booleans())}


# ---------------------------------------------------------------------------- size grid


def grid_cases(tier):
    for a in range(1, 31):
        for b in range(0, 31):
            for incl in (False, True):
                yield {"dt": a / 10, "duration": b / 10, "inclusive": incl}


def run_grid(case):
    dt, dur, incl = case["dt"], case["duration"], case["inclusive"]
    stats = {"amb": 0}
    # path 1: constructor
    with impl("construct"):
        _, rt = _mk("zeros", "float32", (), dt, dur, incl)
    n = _check_size(rt, dt, dur, incl, "constructor", stats)
    # path 2: setters from a rotated 3-slot record holding 1,2,3,4 (newest 4)
    with impl("construct start"):
        _, r2 = _mk("zeros", "float32", (), 1.0, 3.0, False)
        for v in (1.0, 2.0, 3.0, 4.0):
            r2.push(torch.tensor(v))
        r2.inclusive = incl
        r2.dt = dt
        r2.duration = dur
    n2 = _check_size(r2, dt, dur, incl, "setters (inclusive, dt, duration)", stats)
    # sizes along the path are taken by whichever formula the intermediate states gave; the
    # newest observation always survives (every size >= 1)
    with impl("read(1)"):
        newest = float(r2.read(1))
    check(newest == 4.0, "preserve", lambda: f"newest observation lost on the setter path: read(1) = {newest}")
    return {"nt": True, "cls": [f"N={min(n, 9)}"], "amb": stats["amb"]}


# ---------------------------------------------------------------------------- constraints


def model_valid(shape, cons, strict):
    nd = len(shape)
    if not cons:
        return True
    pos = [d for d in cons if d >= 0]
    neg = [d for d in cons if d < 0]
    if strict:
        need = (max(pos) + 1 if pos else 0) + (-min(neg) if neg else 0)
    else:
        need = max(max(pos) + 1 if pos else 0, -min(neg) if neg else 0)
    if nd < need:
        return False
    return all(shape[d] == s for d, s in cons.items())


def run_constraints(case):
    from inferno.core.infrastructure import Module, RecordTensor, ShapedTensor

    rec = case["record"]
    strict = case["strict"]
    shape = tuple(case["shape"])
    owner = Module()
    cons0 = {int(d): s for d, s in case["cons"]}
    data0 = torch.arange(int(np.prod(shape)) if shape else 1, dtype=torch.float32).reshape(shape) + 1
    stats = dict.fromkeys(["refused", "edit_resize", "removed", "added", "invalid_seen", "edits"], 0)
    # initial constraints are made compatible with the initial value by construction
    init = {}
    for d, s in cons0.items():
        if -len(shape) <= d < len(shape):
            init[d] = shape[d]
    if strict and not model_valid(shape, init, True):
        init = {d: s for d, s in init.items() if d >= 0}
    with impl("construct"):
        if rec:
            RecordTensor.create(owner, "x", 1.0, float(case["n"]), data0.clone(), constraints=init,
                                strict=strict, live=case["live"])
        else:
            ShapedTensor.create(owner, "x", data0.clone() if not case["param"] else nn.Parameter(data0.clone(), False),
                                constraints=init, strict=strict, live=case["live"])
        x = owner.x
    model = dict(init)

    def user_cons():
        with impl("constraints getter"):
            return dict(x.constraints)

    def vshape():
        v = x.value
        return tuple(v.shape[1:]) if rec else tuple(v.shape)

    check(user_cons() == model, "cons:getter", lambda: f"after construct constraints {user_cons()} != {model}")
    for i, op in enumerate(case["ops"]):
        what = f"op#{i} {op}"
        v_before = x.value
        snap = v_before.detach().clone()
        cons_before = user_cons()
        shp = vshape()
        if op[0] == "reconstrain":
            dim, size = op[1], op[2]
            lim = 0 if rec else 1  # a record's dims are those of an observation; never address the record dim
            if dim >= len(shp) + lim or dim < -len(shp) - lim:
                dim = dim % max(len(shp), 1)
            try:
                x.reconstrain(dim, size)
                raised = None
            except (ValueError, RuntimeError) as e:
                raised = e
            except Exception as e:  # noqa: BLE001
                raise Violation(f"crash:{type(e).__name__}@reconstrain", f"{what}: {type(e).__name__}: {e}") from e
            after = user_cons()
            v_after = x.value
            was_valid = model_valid(shp, model, strict)
            if size is None:
                if dim not in model:
                    check(isinstance(raised, ValueError), "remove:unconstrained",
                          lambda: f"{what}: removing an unconstrained dim must raise ValueError, got {raised!r}")
                    check(after == cons_before, "remove:sideeffect", f"{what}: constraints changed by a refused removal")
                else:
                    # removal itself always happens; data never altered
                    model.pop(dim)
                    stats["removed"] += 1
                    check(after == model, "remove:bookkeeping", lambda: f"{what}: constraints {after} != {model}")
                check(torch.equal(x.value.detach(), snap), "remove:data", f"{what}: data altered by constraint removal")
            elif dim not in model:
                # add: refused without side effects if the (valid) tensor is incompatible
                would = model_valid(shp, {**model, dim: size}, strict)
                if was_valid and would:
                    check(raised is None, "add:refused-compatible", lambda: f"{what}: compatible constraint refused: {raised!r}")
                    model[dim] = size
                    stats["added"] += 1
                else:
                    check(raised is not None, "add:accepted-incompatible",
                          lambda: f"{what}: incompatible constraint accepted (shape {shp}, constraints {model}, strict={strict})")
                    stats["refused"] += 1
                check(after == model, "add:bookkeeping", lambda: f"{what}: constraints {after} != {model} (raised {raised!r})")
                check(torch.equal(x.value.detach(), snap), "add:data", f"{what}: data altered by adding a constraint")
            else:
                # edit
                stats["edits"] += 1
                nd_ = len(shp)
                norm = {}
                consistent = True
                pos_ = [d for d in model if d >= 0]
                neg_ = [d for d in model if d < 0]
                need = ((max(pos_) + 1 if pos_ else 0) + (-min(neg_) if neg_ else 0)) if strict else max(max(pos_) + 1 if pos_ else 0, -min(neg_) if neg_ else 0)
                if nd_ >= need:
                    for dd, ss in {**model, dim: size}.items():
                        key = dd if dd >= 0 else nd_ + dd
                        if norm.setdefault(key, ss) != ss:
                            consistent = False
                    # documented: a tensor of sufficient dimensionality under consistent constraints is resized, not refused
                    check(consistent or raised is not None, "edit:accepted-inconsistent",
                          lambda: f"{what}: edit accepted although {model} | {{{dim}: {size}}} put two different sizes on one axis of a "
                                  f"{nd_}-d tensor (strict={strict}); documented: RuntimeError, tensor cannot be made valid")
                    check(not (consistent and raised is not None), "edit:refused-valid",
                          lambda: f"{what}: edit refused ({raised!r}) although the tensor (shape {shp}) has sufficient dimensionality and "
                                  f"the constraints {model} | {{{dim}: {size}}} are consistent (strict={strict}, live={case['live']})")
                if raised is None:
                    model[dim] = size
                    check(after == model, "edit:bookkeeping", lambda: f"{what}: constraints {after} != {model}")
                    newshp = vshape()
                    if model_valid(shp, model, strict):
                        check(torch.equal(x.value.detach(), snap), "edit:compatible-altered",
                              f"{what}: already compatible tensor was altered")
                    else:
                        nd = dim if dim >= 0 else len(shp) + dim
                        if 0 <= nd < len(shp) and all((dd if dd >= 0 else len(shp) + dd) == nd or shp[dd] == ss
                                                       for dd, ss in model.items() if -len(shp) <= dd < len(shp)):
                            # only this dimension was off: it is resized, tail kept, zeros prepended
                            check(newshp[nd] == size and all(newshp[j] == shp[j] for j in range(len(shp)) if j != nd),
                                  "edit:shape", lambda: f"{what}: shape {shp} -> {newshp}, wanted dim {nd} = {size}")
                            old = snap if not rec else snap
                            new = x.value.detach()
                            ax = nd + (1 if rec else 0)
                            keep = min(shp[nd], size)
                            sl_new = [slice(None)] * new.ndim
                            sl_old = [slice(None)] * old.ndim
                            sl_new[ax] = slice(size - keep, None)
                            sl_old[ax] = slice(shp[nd] - keep, None)
                            check(torch.equal(new[tuple(sl_new)], old[tuple(sl_old)]), "edit:tail",
                                  f"{what}: tail not preserved on resize")
                            if size > shp[nd]:
                                sl_new[ax] = slice(0, size - shp[nd])
                                check(bool((new[tuple(sl_new)] == 0).all()), "edit:zeros", f"{what}: grown part not zero")
                            stats["edit_resize"] += 1
                else:
                    check(after == cons_before, "edit:sideeffect", lambda: f"{what}: refused edit changed constraints {cons_before} -> {after}")
                    check(torch.equal(x.value.detach(), snap), "edit:refused-data", f"{what}: refused edit altered data")
        elif op[0] == "assign":
            newshape = tuple(max(0, s) for s in op[1])[: max(1, len(shp))] if op[2] == 0 else shp
            if not rec and len(newshape) <= 1:
                # a 1-d tensor without elements is the documented "ignored" placeholder: keep such values non-empty
                newshape = tuple(max(1, s) for s in newshape)
            if rec:
                full = (x.recordsz,) + tuple(newshape)
            else:
                full = tuple(newshape)
            t = torch.ones(full)
            ok_model = model_valid(tuple(newshape), model, strict)
            try:
                x.value = t
                raised = None
            except ValueError as e:
                raised = e
            except Exception as e:  # noqa: BLE001
                raise Violation(f"crash:{type(e).__name__}@value.setter", f"{what}: {type(e).__name__}: {e}") from e
            if case["live"]:
                if not ok_model:
                    check(raised is not None, "live:accepted-invalid",
                          lambda: f"{what}: live assignment of shape {newshape} accepted under {model} strict={strict}")
                    check(torch.equal(x.value.detach(), snap), "live:sideeffect", f"{what}: refused assignment altered data")
                else:
                    check(raised is None, "live:refused-valid", lambda: f"{what}: valid assignment refused: {raised!r}")
            else:
                check(raised is None, "assign:raised", lambda: f"{what}: non-live assignment raised {raised!r}")
        # invariant: reported valid => every constraint holds
        with impl("valid getter"):
            rep = x.valid
        mv = model_valid(vshape(), model, strict)
        if not mv:
            stats["invalid_seen"] += 1
        check((not rep) or mv, "valid:wrong",
              lambda: f"after {what}: reported valid but shape {vshape()} violates {model} (strict={strict})")
        check(user_cons() == model, "cons:getter", lambda: f"after {what}: constraints {user_cons()} != model {model}")
    cls = [("record" if rec else "shaped"), f"strict={strict}"] + [k for k, v in stats.items() if v]
    nt = stats["refused"] >= 1 and (stats["edit_resize"] >= 1 or stats["removed"] >= 1)
    return {"nt": bool(nt), "cls": cls}


@st.composite
def constraints_case(draw, tier="quick"):
    shape = draw(st.sampled_from([[2], [2, 3], [3, 2, 2], [1, 4], [2, 2, 2, 2]]))
    nd = len(shape)
    dims = st.integers(-nd, nd - 1)
    cons = draw(st.lists(st.tuples(dims, st.integers(1, 4)), max_size=3, unique_by=lambda t: t[0]))
    ops = []
    for _ in range(draw(st.integers(2, 10 if tier == "quick" else 20))):
        k = draw(st.integers(0, 9))
        if k <= 5:
            d = draw(st.integers(-nd - 1, nd))
            size = draw(st.sampled_from([None, None, 1, 2, 3, 4, 5, 0] if nd >= 2 else [None, None, 1, 2, 3, 4, 5]))
            if draw(st.booleans()) and size is not None and -nd <= d < nd:
                size = draw(st.sampled_from([shape[d], shape[d], size]))
            ops.append(["reconstrain", d, size])
        else:
            ops.append(["assign", draw(st.lists(st.sampled_from([1, 2, 3, 4, 0]), min_size=nd, max_size=nd)), draw(st.integers(0, 1))])
    return {"record": draw(st.booleans()), "strict": draw(st.booleans()), "live": draw(st.booleans()),
            "param": draw(st.booleans()), "n": draw(st.integers(1, 3)), "shape": shape,
            "cons": [list(c) for c in cons], "ops": ops}


LEGS = [
    Leg(name="temporal", run=run_temporal, strategy=lambda tier: temporal_case(tier),
        quick=400, thorough=4000, quick_shards=4, thorough_shards=8, nt_floor=0.15, fuzz_runs=10_000,
        rule="record in a generated ring state (6 storage kinds) then dt/duration/inclusive assignments interleaved with "
             "pushes and pointer moves; non-trivial = a size change with pointer != 0 after >= N pushes, or a size change on "
             "uninitialised storage"),
    Leg(name="sizegrid", run=run_grid, enumerate=grid_cases, quick_shards=2, thorough_shards=4, nt_floor=0.5,
        rule="all (dt, duration) in multiples of 0.1 up to 3.0 x inclusive (1860 triples): documented size formula "
             "(exact-rational or float evaluation), constructor == setter path, newest observation survives",
        exhaustive_note="finite grid enumerated completely"),
    Leg(name="constraints", run=run_constraints, strategy=lambda tier: constraints_case(tier),
        quick=400, thorough=4000, quick_shards=4, thorough_shards=8, nt_floor=0.1,
        rule="sequences of reconstrain add/edit/remove (+/- dims, strict/non-strict) and value assignments (live on/off) on "
             "ShapedTensor and RecordTensor; non-trivial = >= 1 refused add and >= 1 resizing edit or removal"),
]

ASSUMPTIONS = [
    "the size formula is accepted in either its exact-rational or its float evaluation when the two differ (counted ambiguous)",
    "value preservation is asserted on what read(k) returns, not on storage layout",
]

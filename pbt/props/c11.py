"""C11 — batch samples never interact: a batch run equals independent single-sample runs.

2-safety by construction of B+1 (+1) executions: one batched instance, B batch-size-1
instances with identical parameters, and one batched instance fed a permutation of the batch.
At every step every observable of sample b (outputs, voltages, refractory state, currents,
spikes, delayed reads of the whole history) must equal that of single run b, and permuting the
batch must permute the observables.  Training: with batch_reduction=sum the accumulated
potentiating / depressing parts of a batched trainer step equal the sum of the per-sample ones.
"""

from __future__ import annotations

import numpy as np
import torch
from hypothesis import strategies as st

from .. import builders as B
from ..harness import Leg, check, impl
from . import c17 as L


def _cmp(a, b, exact, what, kind):
    check(a.shape == b.shape, kind + ":shape", lambda: f"{what}: shapes {tuple(a.shape)} vs {tuple(b.shape)}")
    if exact or a.dtype == torch.bool:
        ok = torch.equal(a, b)
    else:
        ok = torch.allclose(a.double(), b.double(), rtol=1e-5, atol=1e-5)
    check(ok, kind, lambda: f"{what}: batched sample differs from its single-sample run "
                            f"(max abs diff {float((a.double() - b.double()).abs().max()):.6g}, exact={exact})")


class Rig:
    """builds the component for a batch size and exposes step(t, inputs) -> observables."""

    def __init__(self, case, batch):
        self.case, self.batch = case, batch
        self.kind = case["leg"]
        dt = case["dt"]
        if self.kind == "neuron":
            self.obj = B.make_neuron(case["neuron"], dt, batch)
        elif self.kind == "synapse":
            self.obj = B.synapse_ctor(case["syn"])(tuple(case["shape"]), dt, case["K"] * dt, batch)
        elif self.kind == "connection":
            self.obj = B.make_connection(case["conn"], dt, batch)
        elif self.kind == "layer":
            lc = dict(case["layer"])
            lc["batch"] = batch
            self.obj, self.comps = L.build(lc, True)
            self.lcase = lc

    def step(self, t, x):
        k = self.kind
        c = self.case
        if k == "neuron":
            kw = {"adapt": False} if c["neuron"]["cls"] in B.ADAPTIVE else {}
            if c.get("refrac_lock") is not None:
                kw["refrac_lock"] = c["refrac_lock"]
            out = self.obj(x["cur"], **kw)
            return {"out": out, "voltage": self.obj.voltage, "refrac": self.obj.refrac, "spike": self.obj.spike}
        if k == "synapse":
            args = (x["spk"],) if c["syn"]["cls"] != "DeltaPlusCurrent" else (x["spk"].float(), x["inj"])
            out = self.obj(*args)
            obs = {"out": out, "current": self.obj.current, "spike": self.obj.spike}
            for j in range(c["K"] + 1):
                sel = torch.full(self.obj.batchedshape, j * c["dt"])
                obs[f"current_at[{j}]"] = self.obj.current_at(sel)
                obs[f"spike_at[{j}]"] = self.obj.spike_at(sel)
            sel = x["sel"]
            obs["current_at[sel]"] = self.obj.current_at(sel)
            obs["spike_at[sel]"] = self.obj.spike_at(sel)
            return obs
        if k == "connection":
            args = (x["spk"],) if c["conn"]["syn"]["cls"] != "DeltaPlusCurrent" else (x["spk"].float(), x["inj"])
            out = self.obj(*args)
            return {"out": out, "syncurrent": self.obj.syncurrent, "synspike": self.obj.synspike,
                    "current": self.obj.synapse.current}
        if k == "layer":
            xs = {kk: v for kk, v in x.items()}
            outs, _ = _layer_step(self.lcase, self.obj, xs)
            obs = {f"out:{n}": v for n, v in outs.items()}
            for n, neu in self.comps["neur"].items():
                obs[f"voltage:{n}"] = neu.voltage
                obs[f"refrac:{n}"] = neu.refrac
            for n, con in self.comps["conn"].items():
                obs[f"current:{n}"] = con.synapse.current
            return obs
        raise ValueError(k)


def _layer_step(lcase, layer, xs):
    kind = lcase["kind"]
    if kind == "serial":
        return {"n0": layer(xs["c0"])}, None
    if kind == "biclique":
        return dict(layer({k: (v,) for k, v in xs.items()})), None
    r = layer(xs["ff"])
    return {"nff": r[0], "nfb": r[1]}, None


def _inputs(case, Bsz):
    """dict name -> tensor (steps, B, ...) on a dyadic grid / boolean spikes; pure function of the case."""
    k, T, seed = case["leg"], case["steps"], case["sseed"]
    out = {}
    if k == "neuron":
        shape = tuple(case["neuron"]["shape"])
        rng = np.random.Generator(np.random.PCG64(seed))
        base = rng.uniform(-60.0, 900.0, size=(T, Bsz) + shape) * (rng.random(size=(T, Bsz) + shape) < 0.8)
        out["cur"] = torch.tensor(base, dtype=torch.float32)
    elif k == "synapse":
        shape = tuple(case["shape"])
        out["spk"] = torch.tensor(B.spikes_from(seed, T, (Bsz,) + shape, case["rate"]))
        out["inj"] = torch.tensor(B.dyadic(seed + 1, (T, Bsz) + shape, -16, 16, 4), dtype=torch.float32)
        rng = np.random.Generator(np.random.PCG64(seed + 2))
        sel = rng.integers(0, 4 * (case["K"] + 1), size=(T, Bsz) + shape) / 4.0 * case["dt"]
        tol = case["syn"].get("tol", 0.0)
        jitter = rng.choice([0.0, 0.0, 0.5 * tol, -0.5 * tol], size=sel.shape)
        sel = np.clip(sel + jitter, 0.0, case["K"] * case["dt"])
        out["sel"] = torch.tensor(sel, dtype=torch.float32)
    elif k == "connection":
        inshape, _ = B.conn_shapes(case["conn"])
        out["spk"] = torch.tensor(B.spikes_from(seed, T, (Bsz,) + inshape, case["rate"]))
        out["inj"] = torch.tensor(B.dyadic(seed + 1, (T, Bsz) + inshape, -16, 16, 4), dtype=torch.float32)
    elif k == "layer":
        lc = case["layer"]
        for name, c in lc["conns"].items():
            if lc["kind"] == "recurrent" and name != "ff":
                continue
            inshape, _ = B.conn_shapes(c)
            out[name] = torch.tensor(B.spikes_from(seed + L.hash_name(name), T, (Bsz,) + inshape, case["rate"]))
    return out


def run_component(case):
    Bsz, T = case["batch"], case["steps"]
    exact = case["exact"]
    xs = _inputs(case, Bsz)
    perm = case["perm"][:Bsz]
    perm = sorted(range(Bsz), key=lambda i: (perm[i], i))
    with impl("build"):
        big = Rig(case, Bsz)
        bigp = Rig(case, Bsz)
        singles = [Rig(case, 1) for _ in range(Bsz)]
    some_spike = all_spike = 0
    differ = True
    for b1 in range(Bsz):
        for b2 in range(b1 + 1, Bsz):
            if all(torch.equal(v[:, b1], v[:, b2]) for v in xs.values()):
                differ = False
    poke = case.get("poke")
    for t in range(T):
        if poke and poke["at"] == t and case["leg"] == "neuron":
            # clear(), then write ONE sample's state in place through the public state tensors:
            # the other samples must keep their (cleared) state
            b0 = poke["b"] % Bsz
            with impl(f"clear() then in-place write of sample {b0}'s voltage/refrac before step {t}"):
                for rig in [big, bigp] + singles:
                    rig.obj.clear()
                val, rf = float(poke["v"]), float(poke["r"]) * case["dt"]
                big.obj.voltage[b0] = val
                big.obj.refrac[b0] = rf
                bigp.obj.voltage[perm.index(b0)] = val
                bigp.obj.refrac[perm.index(b0)] = rf
                singles[b0].obj.voltage[0] = val
                singles[b0].obj.refrac[0] = rf
        with impl(f"step {t} batched"):
            ob = big.step(t, {k: v[t] for k, v in xs.items()})
            ob = {k: v.detach().clone() for k, v in ob.items()}
        with impl(f"step {t} permuted batch"):
            op = bigp.step(t, {k: v[t][perm] for k, v in xs.items()})
            op = {k: v.detach().clone() for k, v in op.items()}
        for b in range(Bsz):
            with impl(f"step {t} single sample {b}"):
                o1 = singles[b].step(t, {k: v[t][b:b + 1] for k, v in xs.items()})
            check(set(o1) == set(ob), "harness:keys", "observable sets differ")
            for name in ob:
                _cmp(ob[name][b:b + 1], o1[name].detach(), exact, f"step {t} sample {b} of {Bsz} '{name}' ({_desc(case)})", "independence")
        for name in ob:
            _cmp(ob[name][perm], op[name], exact, f"step {t} '{name}' under batch permutation {perm} ({_desc(case)})", "permutation")
        outs = [v for k, v in ob.items() if k.startswith("out") and v.dtype == torch.bool]
        for o in outs:
            per = o.reshape(Bsz, -1).any(1)
            some_spike += int(per.any())
            all_spike += int(per.all())
    nt = differ and (case["leg"] in ("synapse", "connection") or some_spike >= 1)
    return {"nt": bool(nt), "cls": [case["leg"], _desc(case), "exact" if exact else "rtol"]}


def _desc(case):
    k = case["leg"]
    if k == "neuron":
        return case["neuron"]["cls"]
    if k == "synapse":
        return case["syn"]["cls"]
    if k == "connection":
        return f"{case['conn']['type']}/{case['conn']['syn']['cls']}/{'delay' if case['conn'].get('delay') else 'nodelay'}"
    return case["layer"]["kind"]


# ---------------------------------------------------------------------------- training


def _trainer(tc):
    from inferno import learn

    name = tc["cls"]
    if name == "STDP":
        return learn.STDP(lr_post=tc["a"], lr_pre=tc["b"], tc_post=20.0, tc_pre=15.0, delayed=tc["delayed"],
                          interp_tolerance=1e-5, trace_mode=tc["mode"], batch_reduction=torch.sum)
    if name == "TripletSTDP":
        return learn.TripletSTDP(lr_post_pair=tc["a"], lr_post_triplet=tc["a"] / 2, lr_pre_pair=tc["b"], lr_pre_triplet=tc["b"] / 2,
                                 tc_post_fast=20.0, tc_post_slow=60.0, tc_pre_fast=15.0, tc_pre_slow=50.0,
                                 delayed=tc["delayed"], interp_tolerance=1e-5, trace_mode=tc["mode"], batch_reduction=torch.sum)
    if name == "MSTDP":
        return learn.MSTDP(lr_post=tc["a"], lr_pre=tc["b"], tc_post=20.0, tc_pre=15.0, delayed=tc["delayed"],
                           interp_tolerance=1e-5, trace_mode=tc["mode"], batch_reduction=torch.sum)
    if name == "MSTDPET":
        return learn.MSTDPET(lr_post=tc["a"], lr_pre=tc["b"], tc_post=20.0, tc_pre=15.0, tc_eligibility=25.0,
                             interp_tolerance=1e-5, trace_mode=tc["mode"], batch_reduction=torch.sum)
    if name == "DelayAdjustedSTDP":
        return learn.DelayAdjustedSTDP(lr_pos=tc["a"], lr_neg=tc["b"], tc_pos=20.0, tc_neg=15.0, interp_tolerance=1e-5,
                                       batch_reduction=torch.sum)
    if name == "LinearHomeostasis":
        return learn.LinearHomeostasis(plasticity=tc["a"], target=0.3, param="weight", batch_reduction=torch.sum)
    raise ValueError(name)


def _train_rig(case, batch):
    from inferno import neural as sn
    from inferno.extra import ExactNeuron

    dt = case["dt"]
    conn = B.make_connection(case["conn"], dt, batch)
    conn.updater = conn.defaultupdater()
    _, outshape = B.conn_shapes(case["conn"])
    neuron = ExactNeuron(outshape, dt, rest_v=-60.0, thresh_v=-50.0, batch_size=batch)
    layer = sn.Serial(conn, neuron)
    trainer = _trainer(case["trainer"])
    trainer.register_cell("cell", layer.cell)
    return layer, trainer


def run_train(case):
    Bsz, T = case["batch"], case["steps"]
    inshape, outshape = B.conn_shapes(case["conn"])
    pre = torch.tensor(B.spikes_from(case["sseed"], T, (Bsz,) + inshape, case["rate"]))
    post = torch.tensor(B.spikes_from(case["sseed"] + 1, T, (Bsz,) + outshape, case["rate"]))
    rng = np.random.Generator(np.random.PCG64(case["sseed"] + 2))
    reward = torch.tensor(rng.integers(-4, 5, size=(T, Bsz)) / 4.0, dtype=torch.float32)
    three = case["trainer"]["cls"] in ("MSTDP", "MSTDPET")
    with impl("build"):
        big = _train_rig(case, Bsz)
        singles = [_train_rig(case, 1) for _ in range(Bsz)]
    nz = 0
    for t in range(T):
        def one(rig, sl, what):
            layer, trainer = rig
            with impl(f"step {t} {what}"):
                layer(pre[t][sl], neuron_kwargs={"override": post[t][sl]})
                if three:
                    trainer(reward[t][sl])
                else:
                    trainer()
                acc = layer.updater.weight
                p, n = acc.pos, acc.neg
                p = torch.zeros_like(layer.connection.weight) if p is None else p.detach().clone() + torch.zeros_like(layer.connection.weight)
                n = torch.zeros_like(layer.connection.weight) if n is None else n.detach().clone() + torch.zeros_like(layer.connection.weight)
                layer.connection.updater.clear()
            return p, n
        pb, nb = one(big, slice(None), "batched")
        ps = ns = 0
        for b in range(Bsz):
            p1, n1 = one(singles[b], slice(b, b + 1), f"single {b}")
            ps, ns = ps + p1, ns + n1
        for name, a, s in (("potentiating", pb, ps), ("depressing", nb, ns)):
            scale = 1 + float(s.abs().max())
            check(torch.allclose(a, s, rtol=1e-4, atol=1e-5 * scale), "train:sum",
                  lambda: f"step {t}: {name} part of the batched {case['trainer']['cls']} step != sum of the {Bsz} single-sample steps "
                          f"(max abs diff {float((a - s).abs().max()):.6g})")
        nz += int((pb != 0).any() or (nb != 0).any())
    return {"nt": nz >= 1, "cls": [case["trainer"]["cls"], case["conn"]["type"], "delayed" if case["trainer"]["delayed"] else "undelayed"]}


# ---------------------------------------------------------------------------- generators


@st.composite
def component_case(draw, tier="quick"):
    leg = draw(st.sampled_from(["neuron", "neuron", "synapse", "connection", "connection", "layer", "layer"]))
    case = {"leg": leg, "dt": draw(st.sampled_from([1.0, 0.5, 0.1, 0.3, 1.3] if leg == "neuron" else [1.0, 0.5])), "batch": draw(st.integers(2, 4)),
            "steps": draw(st.integers(5, 20 if leg != "layer" else 10)), "sseed": draw(st.integers(0, 99999)),
            "rate": draw(st.sampled_from([0.3, 0.6])), "perm": draw(st.permutations([0, 1, 2, 3])), "exact": True}
    if leg == "neuron":
        case["neuron"] = {"cls": draw(st.sampled_from(B.NEURONS)), "shape": draw(st.sampled_from([[1], [3], [2, 2]])),
                          "refrac": draw(st.sampled_from([0, 1, 2, 3, 3, 2.5]))}
        case["refrac_lock"] = draw(st.sampled_from([None, True, False]))
        if draw(st.booleans()):
            case["poke"] = {"at": draw(st.integers(1, case["steps"] - 1)), "b": draw(st.integers(0, 3)),
                            "v": draw(st.sampled_from([-58.0, -52.5, -70.0])), "r": draw(st.sampled_from([0, 1, 2]))}
    elif leg == "synapse":
        case["syn"] = {"cls": draw(st.sampled_from(B.SYNAPSES)), "q": 30.0, "interp": draw(st.sampled_from(["previous", "nearest"])),
                       "tol": draw(st.sampled_from([1e-5, 1e-3, 0.0])), "inplace": draw(st.booleans())}
        case["shape"] = draw(st.sampled_from([[1], [3], [2, 2]]))
        case["K"] = draw(st.integers(0, 4))
    elif leg == "connection":
        t = draw(st.sampled_from(["dense", "direct", "lateral", "conv"]))
        syncls = draw(st.sampled_from(B.SYNAPSES))
        stratum = draw(st.sampled_from(["exact", "exact", "real"]))
        wmode = "real" if stratum == "real" else ("dyadic" if syncls.startswith("Delta") else "onehot")
        conn = {"type": t, "syn": {"cls": syncls, "q": 32.0, "inplace": draw(st.booleans()), "tol": 1e-5},
                "bias": draw(st.booleans()), "delay": draw(st.sampled_from([None, None, 2, 4])),
                "wseed": draw(st.integers(0, 9999)), "dseed": draw(st.integers(0, 9999)), "wmode": wmode}
        if t == "dense":
            conn["inshape"], conn["outshape"] = draw(st.sampled_from([[3], [2, 2]])), draw(st.sampled_from([[2], [3]]))
        elif t in ("direct", "lateral"):
            conn["inshape"] = draw(st.sampled_from([[3], [2, 2]]))
        else:
            conn.update({"H": 3, "W": draw(st.integers(2, 4)), "C": draw(st.integers(1, 2)), "F": 2, "k": [2, draw(st.integers(1, 2))],
                         "padding": [draw(st.integers(0, 1)), 0]})
            if wmode == "onehot":
                conn["wmode"] = "dyadic" if syncls.startswith("Delta") else "onehot"
        case["conn"] = conn
        case["exact"] = stratum != "real"
        if case["dt"] != 1.0 and not syncls.startswith("Delta"):
            pass
    else:
        lc = draw(L.layer_case(tier, False))
        lc["steps"] = case["steps"]
        # exactness strata: delta synapses with dyadic weights, or one-hot weights for exponential synapses
        for c in lc["conns"].values():
            c["wmode"] = "dyadic" if c["syn"]["cls"].startswith("Delta") else "onehot"
            c["syn"]["q"] = 64.0
        if lc["kind"] == "biclique" and lc.get("combine") == "mean":
            lc["combine"] = "sum"
        lc["dt"] = case["dt"]
        lc["train"] = False  # adaptation frozen: eval mode
        case["layer"] = lc
    return case


@st.composite
def train_case(draw, tier="quick"):
    t = draw(st.sampled_from(["dense", "dense", "direct", "lateral", "conv"]))
    K = draw(st.sampled_from([None, 2, 3]))
    cls = draw(st.sampled_from(["STDP", "STDP", "TripletSTDP", "MSTDP", "MSTDPET", "DelayAdjustedSTDP", "LinearHomeostasis"]))
    if cls == "DelayAdjustedSTDP":
        K = 2
    delayed = K is not None and cls in ("STDP", "TripletSTDP", "MSTDP") and draw(st.integers(0, 3)) > 0
    conn = {"type": t, "syn": {"cls": "DeltaCurrent", "q": 32.0, "tol": 1e-5}, "bias": False, "delay": K,
            "wseed": draw(st.integers(0, 9999)), "dseed": draw(st.integers(0, 9999))}
    if t == "dense":
        conn["inshape"], conn["outshape"] = draw(st.sampled_from([[3], [2, 2]])), draw(st.sampled_from([[2], [3]]))
    elif t in ("direct", "lateral"):
        conn["inshape"] = draw(st.sampled_from([[3], [2, 2]]))
    else:
        conn.update({"H": 3, "W": 3, "C": draw(st.integers(1, 2)), "F": 2, "k": [2, 2]})
    return {"dt": draw(st.sampled_from([1.0, 0.5])), "batch": draw(st.integers(2, 4)), "steps": draw(st.integers(3, 10)),
            "sseed": draw(st.integers(0, 99999)), "rate": draw(st.sampled_from([0.3, 0.6])), "conn": conn,
            "trainer": {"cls": cls, "a": draw(st.sampled_from([0.5, -0.5, 1.0])), "b": draw(st.sampled_from([-0.25, 0.25, -1.0])),
                        "mode": draw(st.sampled_from(["cumulative", "nearest"])), "delayed": delayed}}


LEGS = [
    Leg(name="components", run=run_component, strategy=lambda tier: component_case(tier),
        quick=60, thorough=800, quick_shards=8, thorough_shards=12, nt_floor=0.3,
        rule="8 neuron classes (adaptation frozen) / 4 synapses with delays and per-sample selectors / 4 connection types x 4 "
             "synapses +- delays (exact strata: dyadic weights with delta synapses, one-hot weights with exponential synapses; real "
             "weights at rtol 1e-5) / Serial, Biclique, RecurrentSerial layers; B in 2..4, 5-20 steps; every observable of sample b "
             "vs its batch-size-1 run, and batch permutation; non-trivial = pairwise different samples (and >= 1 spike for neurons/layers)"),
    Leg(name="training", run=run_train, strategy=lambda tier: train_case(tier),
        quick=40, thorough=500, quick_shards=6, thorough_shards=8, nt_floor=0.3,
        rule="STDP / TripletSTDP / MSTDP / MSTDPET / DelayAdjustedSTDP / LinearHomeostasis with batch_reduction=sum on dense, direct, "
             "lateral, conv cells (+- delays, delayed mode), scripted pre/post spikes, per-sample rewards: batched pos/neg parts == "
             "sum over single-sample runs at every step; non-trivial = a non-zero update"),
]

ASSUMPTIONS = [
    "bit-exact comparison only where arithmetic is exact by construction (element-wise components; dyadic weights and currents; "
    "one non-zero weight per output row for non-dyadic currents); otherwise rtol 1e-5",
    "adaptive neurons are run with adapt=False / layers in eval mode (the property freezes adaptation)",
]

"""C04 — synapse currents equal the impulse-response sum; delayed reads see the past.

One leg per shipped synapse class (delta, deltaplus, singleexp, doubleexp).  A case is a
configuration plus an operation list (step / clear / query) interpreted against TWO instances
(inplace False and True) and against the closed-form model ``pbt.models.synapses``:

  * after every step: returned current == ``synapse.current`` == closed-form sum over the recorded
    inputs; ``synapse.spike`` == the step's input spikes (bool); shapes ``(B, *shape)``;
  * every query ``current_at / spike_at / pos_current_at / neg_current_at`` element-wise equals the
    time-model read of the model's own per-step history (overbound value / value at the limit beyond
    ``delay + tol``; grid sample within ``tol`` of a step; else the synapse's interpolation rule);
  * the two instances agree bit-for-bit on everything they return.

Discontinuities (range boundary, grid boundary, nearest at half a step) go through the ambiguity
bands of the time model; ambiguous elements accept every alternative and are not counted.

Known finding (proposed id ``C04-undelayed-extra-dim``): on a synapse with delay 0 (record size 1) a
selector with the documented extra trailing dimension D is not supported by the undelayed branch
(RuntimeError / mis-shaped result).  Every failure of such a query is reported under the single kind
``at:undelayed_extra_dim``; the generator produces that region only once the finding is registered
in known_findings.json (1 case in 16), so the rest of the domain is searched undisturbed.
"""

from __future__ import annotations

import contextlib
import itertools
import math

import numpy as np
import torch
from hypothesis import strategies as st

from ..harness import Leg, Violation, check, impl, load_known
from ..models.synapses import WD, SynapseModel, classify_bound, classify_time

TDT = {"float32": torch.float32, "float64": torch.float64}
SHAPES = [[1], [3], [2, 2]]
FRACS = [0.25, 0.5, 0.75, 0.3, 0.9, 0.0625]
DELAY_K = [0.0, 0.5, 1.0, 2.0, 2.5, 4.0]
QUANT = {"delta": ["current", "spike"], "deltaplus": ["current", "spike"],
         "singleexp": ["current", "spike"], "doubleexp": ["current", "spike", "pos", "neg"]}
METHOD = {"current": "current_at", "spike": "spike_at", "pos": "pos_current_at", "neg": "neg_current_at"}


# ---------------------------------------------------------------------------- construction


def _build(case, inplace):
    from inferno.neural import (DeltaCurrent, DeltaPlusCurrent, DoubleExponentialCurrent,
                                SingleExponentialCurrent)

    kind = case["cls"]
    dt = case["dt"]
    delay = case["delay_k"] * dt
    common = dict(spike_charge=case["q"], delay=delay, interp_tol=case["tol"],
                  current_overbound=case["cob"], spike_overbound=case["sob"],
                  batch_size=case["batch"], inplace=inplace)
    shape = tuple(case["shape"])
    if case.get("via_partial"):
        # the path every connection uses: Synapse.partialconstructor(...)(shape, step_time, delay, batch_size)
        pk = dict(interp_tol=case["tol"], current_overbound=case["cob"], spike_overbound=case["sob"], inplace=inplace)
        if kind == "delta":
            ctor = DeltaCurrent.partialconstructor(case["q"], interp_mode=case["mode"], **pk)
        elif kind == "deltaplus":
            ctor = DeltaPlusCurrent.partialconstructor(case["q"], interp_mode=case["mode"], **pk)
        elif kind == "singleexp":
            ctor = SingleExponentialCurrent.partialconstructor(case["q"], case["tau"], spike_interp_mode=case["mode"], **pk)
        else:
            ctor = DoubleExponentialCurrent.partialconstructor(case["q"], case["tau_d"], case["tau_r"],
                                                               spike_interp_mode=case["mode"], **pk)
        return ctor(shape, dt, delay, case["batch"])
    if kind == "delta":
        return DeltaCurrent(shape, dt, interp_mode=case["mode"], **common)
    if kind == "deltaplus":
        return DeltaPlusCurrent(shape, dt, interp_mode=case["mode"], **common)
    if kind == "singleexp":
        return SingleExponentialCurrent(shape, dt, time_constant=case["tau"],
                                        spike_interp_mode=case["mode"], **common)
    if kind == "doubleexp":
        return DoubleExponentialCurrent(shape, dt, tc_decay=case["tau_d"], tc_rise=case["tau_r"],
                                        spike_interp_mode=case["mode"], **common)
    raise ValueError(kind)


def _model(case, bshape):
    kind = case["cls"]
    p = {}
    if kind == "singleexp":
        p = {"tau": case["tau"]}
    elif kind == "doubleexp":
        p = {"tau_d": case["tau_d"], "tau_r": case["tau_r"]}
    return SynapseModel(kind, bshape, case["dt"], case["q"], **p)


def _cyc(pool, n, phase=0):
    return [pool[(j + phase) % len(pool)] for j in range(n)]


def _selector_value(spec, dt, delay, tol):
    """Selector element (float64) from a stratum spec [name, kraw, fidx]."""
    name, kraw, fidx = spec
    span = delay / dt
    whole = int(math.floor(span + 1e-9))
    eps = dt / 64.0
    if name == "grid":
        return (kraw % (whole + 1)) * dt
    if name == "off":
        cells = max(1, int(math.ceil(span - 1e-9)))
        k = kraw % cells
        x = k + FRACS[fidx % len(FRACS)]
        if x > span and span > 0:
            x = k + FRACS[fidx % len(FRACS)] * (span - k)
        return x * dt
    if name == "delay":
        return delay
    if name == "delay_tol_in":
        return delay + tol / 2
    if name == "over_small":
        return delay + 2 * tol + eps
    if name == "over_big":
        return 3 * delay + dt * (1 + kraw % 3)
    if name == "neg_in":
        return -tol / 2
    if name == "neg_over":
        return -(2 * tol + eps) if kraw % 2 else -0.5 * dt
    if name == "grid_tol_in":
        k = kraw % (whole + 1)
        return k * dt + (tol / 2 if (fidx % 2 or k == 0) else -tol / 2)
    if name == "grid_tol_edge":  # exactly on the tolerance boundary (decisive only for dyadic data)
        k = kraw % (whole + 1)
        return k * dt + (tol if (fidx % 2 or k == 0) else -tol)
    if name == "near":  # just off the grid
        k = kraw % (whole + 1)
        return k * dt + ((2 * tol + eps) if (fidx % 2 or k == 0) else -(2 * tol + eps))
    raise ValueError(name)


# ---------------------------------------------------------------------------- comparison


def _rtol(case, quantity, f64):
    if quantity == "spike":
        return 0.0
    if case["cls"] in ("delta", "deltaplus"):
        return 1e-12 if f64 else 2e-6
    return 1e-9 if f64 else 1e-4


def _close(got, want, scale, rtol):
    if want == got:
        return True
    return abs(got - want) <= rtol * max(scale, abs(want))


def _expect_query(case, model, quantity, selvals, w, nrec, stats):
    """Per element of the selector (numpy array, actual values of dtype w): list of acceptable
    (value, scale) pairs or None (skip).  ``selvals`` has the batched shape + optional D."""
    dt, tol = case["dt"], case["tol"]
    delay = case["delay_k"] * dt
    ob = case["sob"] if quantity == "spike" else case["cob"]
    bnd = len(model.bshape)
    out = np.empty(selvals.shape, dtype=object)
    memo: dict = {}
    for idx in itertools.product(*(range(s) for s in selvals.shape)):
        eidx = idx[:bnd]
        t = float(selvals[idx])
        if t not in memo:
            b_ = classify_bound(t, delay, tol, w)
            memo[t] = (b_, classify_time(b_.t_eff, b_.t_eff_w, dt, tol, w))
        b, tr_ = memo[t]
        acc = []
        decisive = not b.amb
        inrange = b.where == "in"
        want_in = inrange or b.amb or ob is None
        if (not inrange or b.amb) and ob is not None:
            acc.append((float(ob), 0.0))
        skip = False
        if want_in:
            tr = tr_
            if tr.kmax > nrec - 1:
                # an alternative of an ambiguous classification lies outside the record
                skip = True
            decisive = decisive and not tr.amb
            for rd in tr.alts:
                if (rd.k if rd.kind == "grid" else rd.older) > nrec - 1:
                    continue
                vals = model.read(quantity, rd, eidx, case["mode"])
                if len(vals) > 1:
                    decisive = False
                acc.extend(vals)
            rd0 = tr.alts[0]
            if decisive and inrange:
                present = float(model.value(quantity, 0)[eidx])
                v0 = acc[0][0]
                delayed = (rd0.kind == "grid" and rd0.k >= 1) or rd0.kind == "interp"
                if delayed:
                    stats["delayed"] += 1
                    if rd0.kind == "interp":
                        stats["offgrid"] += 1
                    if v0 != present:
                        stats["delayed_diff"] += 1
                if v0 != 0:
                    stats["in_nonzero"] += 1
        if skip:
            out[idx] = None
            stats["amb"] += 1
            continue
        if not decisive:
            stats["amb"] += 1
        elif not inrange:
            stats["over"] += 1
            if ob is None:
                stats["over_none"] += 1
        out[idx] = acc
    return out


def _check_at(case, quantity, got, exp, selvals, f64, what):
    shape = tuple(selvals.shape)
    check(isinstance(got, torch.Tensor), f"at:{quantity}:type", lambda: f"{what}: got {type(got)}")
    check(tuple(got.shape) == shape, f"at:{quantity}:shape",
          lambda: f"{what}: result shape {tuple(got.shape)} != selector shape {shape}")
    if quantity == "spike":
        check(got.dtype == torch.bool, "at:spike:dtype", lambda: f"{what}: dtype {got.dtype} is not bool")
    else:
        check(got.dtype.is_floating_point, f"at:{quantity}:dtype", lambda: f"{what}: dtype {got.dtype}")
    g = got.detach().to(torch.float64).numpy()
    rtol = _rtol(case, quantity, f64)  # f64: default dtype AND selector are float64 (else float32 accuracy)
    for idx in itertools.product(*(range(s) for s in shape)):
        acc = exp[idx]
        if acc is None:
            continue
        gv = float(g[idx])
        ok = any(_close(gv, v, s, rtol) for v, s in acc)
        check(ok, f"at:{quantity}:value",
              lambda: f"{what}: element {idx} selector {float(selvals[idx])!r}: got {gv!r}, acceptable "
                      f"{sorted(set(round(v, 9) for v, _ in acc))} (dt={case['dt']} delay={case['delay_k']}*dt "
                      f"tol={case['tol']} mode={case['mode']} cob={case['cob']} sob={case['sob']})")


def _check_step(case, model, syn, out, spk, f64, what):
    bshape = model.bshape
    check(tuple(out.shape) == bshape, "step:shape", lambda: f"{what}: returned shape {tuple(out.shape)} != {bshape}")
    with impl(what + " .current/.spike"):
        cur, sp = syn.current, syn.spike
    check(tuple(cur.shape) == bshape and tuple(sp.shape) == bshape, "step:attrshape",
          lambda: f"{what}: current {tuple(cur.shape)} spike {tuple(sp.shape)}")
    check(torch.equal(cur, out), "step:current_attr", lambda: f"{what}: synapse.current differs from the returned current")
    check(sp.dtype == torch.bool, "step:spike_dtype", lambda: f"{what}: synapse.spike dtype {sp.dtype}")
    check(np.array_equal(sp.numpy(), spk), "step:spike",
          lambda: f"{what}: synapse.spike {sp.int().tolist()} != input {spk.astype(int).tolist()}")
    want, scale = model.value("current", 0), model.scale("current", 0)
    g = out.detach().to(torch.float64).numpy()
    rtol = _rtol(case, "current", f64)
    bad = np.abs(g - want) > rtol * np.maximum(scale, np.abs(want))
    check(not bad.any(), "step:current",
          lambda: f"{what}: current {g.tolist()} != closed form {want.tolist()} "
                  f"(cls={case['cls']} q={case['q']} dt={case['dt']} steps since clear={len(model.spikes)})")


@contextlib.contextmanager
def _default_dtype(f64):
    old = torch.get_default_dtype()
    if f64:
        torch.set_default_dtype(torch.float64)
    try:
        yield
    finally:
        torch.set_default_dtype(old)


# ---------------------------------------------------------------------------- run


def run_case(case):
    case = dict(case)
    f64 = bool(case.get("f64"))
    with _default_dtype(f64):
        return _run(case, f64)


def _run(case, f64):
    kind = case["cls"]
    bshape = (case["batch"],) + tuple(case["shape"])
    nel = int(np.prod(bshape))
    dt = case["dt"]
    delay = case["delay_k"] * dt
    with impl("construct"):
        syns = [_build(case, False), _build(case, True)]
        nrec = syns[0].spike_.recordsz
        rdelay, rdt = syns[0].delay, syns[0].dt
    check(rdelay == delay and rdt == dt, "ctor:params", lambda: f"delay {rdelay} dt {rdt} != configured {delay} {dt}")
    # the record must cover the supported delay (the size formula itself is C13's subject)
    check((nrec - 1) * dt >= delay * (1 - 1e-12), "ctor:recordsz",
          lambda: f"recordsz {nrec} does not cover delay {delay} at dt {dt}")
    model = _model(case, bshape)
    stats = dict.fromkeys(["amb", "over", "over_none", "delayed", "delayed_diff", "offgrid", "in_nonzero",
                           "steps", "clears", "queries", "queries_D"], 0)
    spike_steps = np.zeros(bshape, dtype=np.int64)
    fdt = torch.float64 if f64 else torch.float32

    for i, op in enumerate(case["ops"]):
        name = op[0]
        what = f"op#{i} {name}"
        if name == "step":
            _, pool, phase, sdtype, injs = op
            spk = np.array(_cyc(pool, nel, phase), dtype=np.int64).reshape(bshape) != 0
            x = torch.tensor(spk) if sdtype == "bool" else torch.tensor(spk.astype(np.float64), dtype=fdt)
            extra_np, extra_t = [], []
            if kind == "deltaplus":
                for shp_kind, ipool in injs:
                    shp = {"full": bshape, "row": (1,) + bshape[1:], "elem": bshape[1:], "one": (1,)}[shp_kind]
                    n = int(np.prod(shp))
                    a = np.array([v * 0.25 for v in _cyc(ipool, n, phase)], dtype=np.float64).reshape(shp)
                    extra_np.append(a)
                    extra_t.append(torch.tensor(a, dtype=fdt))
            model.step(spk, extra_np)
            spike_steps += spk
            outs = []
            for syn in syns:
                with impl(what):
                    out = syn(x, *extra_t)
                _check_step(case, model, syn, out, spk, f64, what + f" (inplace={syn.inplace})")
                outs.append(out)
            check(torch.equal(outs[0], outs[1]), "inplace:step",
                  lambda: f"{what}: in-place and out-of-place currents differ")
            stats["steps"] += 1
        elif name == "clear":
            model.clear()
            for syn in syns:
                with impl(what):
                    syn.clear()
            stats["clears"] += 1
        elif name == "query":
            _, quantity, specs, dcols, seldtype, phase = op
            if quantity not in QUANT[kind]:
                quantity = "current"
            if f64 and seldtype == "default":
                seldtype = "float64"
            elif seldtype == "default":
                seldtype = "float32"
            w = WD[seldtype]
            sshape = bshape + ((dcols,) if dcols else ())
            n = int(np.prod(sshape))
            vals64 = [_selector_value(s, dt, delay, case["tol"]) for s in specs]
            sel64 = np.array(_cyc(vals64, n, phase), dtype=np.float64).reshape(sshape)
            selw = sel64.astype(w)
            sel_t = torch.tensor(selw)
            exp = _expect_query(case, model, quantity, selw, w, nrec, stats)
            gots = []
            qf64 = f64 and seldtype == "float64"  # accuracy of an interpolated read: the coarser dtype
            for syn in syns:
                w2 = f"{what} {METHOD[quantity]}(shape {sshape}, {seldtype}) inplace={syn.inplace}"
                try:
                    with impl(w2):
                        got = getattr(syn, METHOD[quantity])(sel_t.clone())
                    _check_at(case, quantity, got, exp, selw, qf64, w2)
                except Violation as v:
                    if nrec == 1 and dcols:
                        # one root cause (undelayed branch ignores the extra dimension D), many symptoms
                        raise Violation("at:undelayed_extra_dim", f"[{v.kind}] {v.detail}",
                                        {"recordsz": nrec, "D": dcols, "orig": v.kind}) from v
                    raise
                gots.append(got)
            check(torch.equal(gots[0], gots[1]), "inplace:at",
                  lambda: f"{what}: in-place and out-of-place {METHOD[quantity]} results differ")
            stats["queries"] += 1
            stats["queries_D"] += 1 if dcols else 0
        else:
            raise ValueError(name)

    two_ages = bool((spike_steps >= 2).any())
    if case["delay_k"] > 0:
        nt = two_ages and stats["delayed_diff"] >= 1 and stats["over"] >= 1
    else:
        nt = two_ages and stats["in_nonzero"] >= 1 and stats["over"] >= 1
    cls = [f"delay={case['delay_k']}dt", f"mode={case['mode']}", f"tol={'0' if case['tol'] == 0 else '>0'}",
           f"cob={'None' if case['cob'] is None else 'val'}", f"sob={case['sob']}", f"nrec={min(nrec, 5)}",
           "f64" if f64 else "f32", "dyadic_dt" if dt in (0.25, 0.5, 1.0, 2.0) else "nondyadic_dt"]
    for k in ("over", "over_none", "delayed_diff", "offgrid", "clears", "queries_D", "amb"):
        if stats[k]:
            cls.append("has:" + k)
    return {"nt": bool(nt), "cls": cls, "amb": stats["amb"]}


# ---------------------------------------------------------------------------- generators

KNOWN_UNDELAYED_D = "C04-undelayed-extra-dim"
_FINDING_REGISTERED = any(f.get("id") == KNOWN_UNDELAYED_D for f in load_known().get("findings", []))

_bits = st.one_of(st.just([0]), st.just([1]), st.lists(st.integers(0, 1), min_size=2, max_size=7))
_raw = st.integers(0, 11)
STRATA = ["grid", "grid", "off", "off", "off", "delay", "delay_tol_in", "over_small", "over_big", "neg_in",
          "neg_over", "grid_tol_in", "grid_tol_edge", "near"]
_spec = st.tuples(st.sampled_from(STRATA), _raw, st.integers(0, 5)).map(list)


@st.composite
def syn_case(draw, kind, tier="quick"):
    dyadic = draw(st.integers(0, 9)) < 5
    if dyadic:
        dt = draw(st.sampled_from([1.0, 0.5, 0.25, 2.0]))
        tol = draw(st.sampled_from([0.0, 0.0, 2.0 ** -10, 2.0 ** -7, 2.0 ** -20]))
    else:
        dt = draw(st.sampled_from([0.1, 1.3, 0.7, 0.3, 1.0]))
        tol = draw(st.sampled_from([0.0, 0.0, 1e-6, 1e-3, 1e-3]))
    delay_k = draw(st.sampled_from(DELAY_K + [1.0, 2.0, 2.5, 4.0]))
    shape = draw(st.sampled_from(SHAPES))
    batch = draw(st.integers(1, 3))
    q = draw(st.sampled_from([1.0, 2.0, -2.0, 0.5, 3.0, 1.3]))
    case = {"cls": kind, "dt": dt, "delay_k": delay_k, "shape": shape, "batch": batch, "q": q,
            "mode": draw(st.sampled_from(["previous", "nearest"])), "tol": tol,
            "via_partial": draw(st.booleans()),
            "cob": draw(st.sampled_from([0.0, -7.5, None])),
            "sob": draw(st.sampled_from([False, True, None])),
            "f64": draw(st.integers(0, 6)) == 0}
    if kind == "singleexp":
        case["tau"] = draw(st.sampled_from([2.0, 0.5, 5.0, 1.7]))
    if kind == "doubleexp":
        case["tau_r"] = draw(st.sampled_from([0.5, 1.0, 1.7]))
        case["tau_d"] = case["tau_r"] + draw(st.sampled_from([0.5, 2.0, 8.0]))
    # D columns on an undelayed synapse (record size 1) hit a known finding: excluded by construction,
    # searched in 1 case of 16 once the finding is registered (so other failures are still reported)
    allow_d0 = _FINDING_REGISTERED and draw(st.integers(0, 15)) == 0
    quants = QUANT[kind]

    def step():
        injs = []
        if kind == "deltaplus":
            injs = draw(st.lists(st.tuples(st.sampled_from(["full", "row", "elem", "one"]),
                                           st.lists(st.integers(-8, 8), min_size=1, max_size=5)).map(list),
                                 min_size=0, max_size=2))
        return ["step", draw(_bits), draw(st.integers(0, 5)), draw(st.sampled_from(["bool", "bool", "float"])), injs]

    def query():
        dcols = draw(st.sampled_from([0, 0, 1, 2, 3]))
        if delay_k == 0 and not allow_d0:
            dcols = 0
        return ["query", draw(st.sampled_from(quants)), draw(st.lists(_spec, min_size=1, max_size=8)), dcols,
                draw(st.sampled_from(["default", "default", "default", "float64", "float32"])), draw(st.integers(0, 7))]

    maxsteps = 25 if tier == "quick" else 40
    nops = draw(st.integers(0, maxsteps))
    ops = []
    for _ in range(nops):
        r = draw(st.integers(0, 19))
        if r < 11:
            ops.append(step())
        elif r < 12:
            ops.append(["clear"])
        else:
            ops.append(query())
    if draw(st.integers(0, 9)) >= 2:
        # construction: a filled record followed by reads of every kind
        pre = [step() for _ in range(draw(st.integers(2, 6)))]
        ops = pre + ops + [query(), query()]
    case["ops"] = ops
    return case


_RULE = ("operation list (step/clear/query) on a {0} synapse; non-trivial iff some element received spikes at >= 2 "
         "different steps, and (delay > 0) >= 1 decisive in-range delayed read (k >= 1 steps ago or between steps) whose "
         "expected value differs from the present value and >= 1 decisive out-of-range read, or (delay == 0) >= 1 decisive "
         "in-range read with non-zero value and >= 1 decisive out-of-range read; ambiguous elements never count; "
         "distinct by SHA-1 of the case")


def _leg(kind):
    return Leg(name=kind, run=run_case, strategy=lambda tier, k=kind: syn_case(k, tier),
               quick=600, thorough=6000, quick_shards=4, thorough_shards=4, nt_floor=0.3,
               rule=_RULE.format(kind))


LEGS = [_leg(k) for k in ("delta", "deltaplus", "singleexp", "doubleexp")]

ASSUMPTIONS = [
    "CPU only; float32 default dtype and (about 1 case in 7) float64 default dtype",
    "input spikes are binary (bool or 0/1 floats); injected currents are multiples of 0.25",
    "exponential currents: float32 recurrence vs float64 closed form, rtol 1e-4 relative to the sum of "
    "absolute terms (1e-9 in float64 mode); delta / delta-plus: 2e-6 (1e-12)",
    "selector elements within 4 ulp (working dtype) of the range boundary, of the grid tolerance boundary or of "
    "half a step (nearest) accept either outcome and are counted ambiguous; if an ambiguous alternative would "
    "touch a step older than the record holds the element is skipped",
    "record length is read back from recordsz (size formula is C13's subject); only its covering the delay is checked",
]

"""C15 — trainer / monitor lifecycle: one observation per training step, cells isolated,
listings reflect what is registered.

Leg ``lifecycle``: generated operation sequences (raw integer arguments reduced modulo the
live sizes) over register_cell, del_cell, add_monitor (probe PassthroughReducer with a
duration; pooled and unique), del_monitor, trainer.train()/eval(), layer.train()/eval(),
layer step, trainer step, update, clear, drop-trainer / drop-last-reference + gc.collect(),
with one or two trainers of generated type on layers whose cells share a neuron population
or a connection (Biclique 2x1 / 1x2 / 2x2, RecurrentSerial with trainable feedback) and on
pairs of layers that use the same component names (two Serial layers, two Bicliques) trained
by one trainer.  After EVERY operation the implementation is compared with
``pbt.models.lifecycle.World``: object identity partition of the pool (aliasing), attachment
of every monitor, the complete reducer contents of every monitor (values), all listings,
the number of hook handles on the layer, liveness of dropped objects.
"""

from __future__ import annotations

import gc
import weakref

import numpy as np
import torch
from hypothesis import strategies as st

from ..harness import Leg, Violation, impl
from ..models import lifecycle as M

DT = 1.0
O = 2  # neurons per population
ISZ = {"c0": 3, "c1": 2, "feedfwd": 3, "lateral": O, "feedback": O, "serial": 3, "ca": 3, "cb": 2}
KINDS = {  # layer kind -> (connections, neurons, cells), LOCAL names; consecutive cells share a population
    "bi21": (["c0", "c1"], ["n0"], [("c0", "n0"), ("c1", "n0")]),
    "bi12": (["c0"], ["n0", "n1"], [("c0", "n0"), ("c0", "n1")]),
    "bi22": (["c0", "c1"], ["n0", "n1"], [("c0", "n0"), ("c1", "n0"), ("c1", "n1"), ("c0", "n1")]),
    "rec": (["feedfwd", "lateral", "feedback"], ["feedfwd", "feedback"],
            [("feedfwd", "feedfwd"), ("feedback", "feedfwd"), ("lateral", "feedback")]),
    "ser": (["serial"], ["serial"], [("serial", "serial")]),
    # generic inferno.neural.Layer (minimal subclass, summing wiring): cells exist only once requested via add_cell
    "gen": (["ca", "cb"], ["nx"], [("ca", "nx"), ("cb", "nx")]),
}
LAYERS = {  # topology -> layers (name, kind); two-layer topologies reuse the same component names
    "bi21": [("A", "bi21")], "bi12": [("A", "bi12")], "bi22": [("A", "bi22")], "rec": [("A", "rec")],
    "ser2": [("A", "ser"), ("B", "ser")], "bi21x2": [("A", "bi21"), ("B", "bi21")], "gen": [("A", "gen")],
}
LOC = {}  # global component name -> (layer name, local name)
TOPO, CELLS = {}, {}
for _t, _ls in LAYERS.items():
    _c, _n, _k = [], [], []
    for _l, _kind in _ls:
        for x in KINDS[_kind][0] + KINDS[_kind][1]:
            LOC[f"{_l}_{x}"] = (_l, x)
        _c += [f"{_l}_{x}" for x in KINDS[_kind][0]]
        _n += [f"{_l}_{x}" for x in KINDS[_kind][1]]
        _k += [(f"{_l}_{a}", f"{_l}_{b}") for a, b in KINDS[_kind][2]]
    TOPO[_t], CELLS[_t] = (_c, _n), _k
TTYPES = ["STDP", "MSTDP", "MSTDPET", "TripletSTDP", "KernelSTDP", "LinearHomeostasis", "DelayAdjustedSTDP"]
PROBE_NAMES = ["p0", "p1"]


# ---------------------------------------------------------------------------- construction


def _connection(nin, nout, B, delayed):
    from inferno.neural import DeltaCurrent, LinearDense

    c = LinearDense((nin,), (nout,), DT, synapse=DeltaCurrent.partialconstructor(1.0),
                    delay=(2.0 * DT if delayed else None), bias=True, batch_size=B)
    c.updater = c.defaultupdater()
    return c


def _neuron(B):
    from inferno.extra import ExactNeuron

    return ExactNeuron((O,), DT, rest_v=-60.0, thresh_v=-45.0, batch_size=B)


_GENERIC = []


def _generic_layer_class():
    if not _GENERIC:
        from inferno.neural import Layer

        class SummingLayer(Layer):
            """Smallest concrete Layer: every neuron group receives the sum of all connection outputs."""

            def wiring(self, inputs, **kwargs):
                total = None
                for v in inputs.values():
                    total = v if total is None else total + v
                return {n: total for n in self.neurons_}

        _GENERIC.append(SummingLayer)
    return _GENERIC[0]


def _build_layer(kind, B, delayed):
    from inferno.neural import Biclique, RecurrentSerial, Serial

    conns, neurons, _ = KINDS[kind]
    if kind == "gen":
        layer = _generic_layer_class()()
        for c in conns:
            layer.add_connection(c, _connection(ISZ[c], O, B, delayed))
        for n in neurons:
            layer.add_neuron(n, _neuron(B))
        return layer
    if kind == "rec":
        return RecurrentSerial(
            _connection(ISZ["feedfwd"], O, B, delayed), _connection(O, O, B, delayed),
            _connection(O, O, B, delayed), _neuron(B), _neuron(B), trainable_feedback=True)
    if kind == "ser":
        return Serial(_connection(ISZ["serial"], O, B, delayed), _neuron(B))
    return Biclique([(c, _connection(ISZ[c], O, B, delayed)) for c in conns],
                    [(n, _neuron(B)) for n in neurons])


def _build_trainer(ttype):
    import inferno.learn as L

    h = M.HP[0]
    if ttype == "STDP":
        return L.STDP(h["lr_post"], h["lr_pre"], h["tc_post"], h["tc_pre"])
    if ttype == "MSTDP":
        return L.MSTDP(h["lr_post"], h["lr_pre"], h["tc_post"], h["tc_pre"])
    if ttype == "MSTDPET":
        return L.MSTDPET(h["lr_post"], h["lr_pre"], h["tc_post"], h["tc_pre"], M.TC_ELIG)
    if ttype == "TripletSTDP":
        t = M.TRIPLET
        return L.TripletSTDP(h["lr_post"], t["lr_post_triplet"], h["lr_pre"], t["lr_pre_triplet"],
                             h["tc_post"], t["tc_post_slow"], h["tc_pre"], t["tc_pre_slow"])
    if ttype == "KernelSTDP":
        return L.KernelSTDP(lambda t: torch.exp(-t.abs() / 10.0) * (t >= 0),
                            lambda t: -0.5 * torch.exp(-t.abs() / 20.0) * (t < 0), {}, {})
    if ttype == "LinearHomeostasis":
        return L.LinearHomeostasis(0.1, 0.5, "bias")
    if ttype == "DelayAdjustedSTDP":
        return L.DelayAdjustedSTDP(1.0, -0.5, 20.0, 10.0)
    raise ValueError(ttype)


def _cell_kwargs(ttype, hp):
    h = M.HP[hp]
    if ttype in ("STDP", "MSTDP", "MSTDPET"):
        return {"lr_post": h["lr_post"], "lr_pre": h["lr_pre"], "tc_post": h["tc_post"],
                "tc_pre": h["tc_pre"], "trace_mode": h["mode"]}
    if ttype == "TripletSTDP":
        return {"lr_post_pair": h["lr_post"], "lr_pre_pair": h["lr_pre"], "tc_post_fast": h["tc_post"],
                "tc_pre_fast": h["tc_pre"], "trace_mode": h["mode"]}
    return {}


class Impl:
    def __init__(self, case):
        self.topo = case["topo"]
        self.B = case["B"]
        self.delayed = case["delayed"]
        torch.manual_seed(1234)
        self.layers = {l: _build_layer(kind, self.B, self.delayed) for l, kind in LAYERS[self.topo]}
        self.kinds = dict(LAYERS[self.topo])
        self.cellrefs = {}  # generic layer: cell key -> weakref of the Cell handed out by layer.add_cell
        # expected Cell.training (what trainer() gates on): follows layer.train(mode) calls; a Cell object created
        # later (generic layer: first add_cell, re-creation after layer.del_cell) starts in training mode like any
        # new torch module, whatever mode its layer is in
        self.cell_training = {k: True for k in CELLS[self.topo] if self.kinds[LOC[k[0]][0]] != "gen"}
        self.trainers = {}
        self.held = {}  # (idx, cname, mname, uid) -> strong reference kept by the "user"
        self.refs = {}  # uid -> weakref of the implementation object
        self.pre_attr = "synapse.spike" if self.delayed else "connection.synspike"

    def cell(self, key):
        (l, c), (_, n) = LOC[key[0]], LOC[key[1]]
        return self.layers[l].get_cell(c, n)

    def request_cell(self, ctx, key):
        """The cell a user hands to register_cell.  Generic layer: layer.add_cell(connection, neuron), documented to
        create the cell only if it does not exist — asking again must return the same object."""
        (l, c), (_, n) = LOC[key[0]], LOC[key[1]]
        if self.kinds[l] != "gen":
            return self.layers[l].get_cell(c, n)
        with impl(f"{ctx.what}: layer.add_cell({c}, {n})"):
            cell = self.layers[l].add_cell(c, n)
        prev = self.cellrefs.get(key)
        prev = prev() if prev is not None else None
        check(prev is None or cell is prev, "layer:add_cell",
              lambda: f"{ctx.what}: layer.add_cell({c}, {n}) returned a new Cell although the pair already has one", ctx)
        if prev is None:
            self.cell_training[key] = True
        self.cellrefs[key] = weakref.ref(cell)
        return cell

    def connection(self, g):
        l, c = LOC[g]
        return self.layers[l].get_connection(c)


# ---------------------------------------------------------------------------- step data


def _decode(kind, B, bits):
    """bits -> {(kind, local name): bool array}; fixed layout, consecutive bits."""
    conns, neurons, _ = KINDS[kind]
    out, off = {}, 0

    def take(shape):
        nonlocal off
        n = int(np.prod(shape))
        a = np.array([(bits >> (off + j)) & 1 for j in range(n)], dtype=bool).reshape(shape)
        off += n
        return a

    for n in neurons:
        out[("n", n)] = take((B, O))
    if kind == "rec":
        out[("c", "feedfwd")] = take((B, ISZ["feedfwd"]))
    else:
        for c in conns:
            out[("c", c)] = take((B, ISZ[c]))
    return out


# ---------------------------------------------------------------------------- comparison


def _np(t):
    return t.detach().to(torch.float64).numpy()


def _close(got, want):
    return got.shape == want.shape and np.allclose(got, want, rtol=1e-5, atol=1e-6, equal_nan=True)


class Ctx:
    def __init__(self, case):
        self.case = case
        self.world = M.World()
        self.impl = None
        self.what = "construct"
        self.stats = dict.fromkeys(
            ["mode_switch", "alias_now", "late_join", "del_then_train", "del_shared_then_train", "two_on_cell",
             "tstep", "tstep_value", "train_steps", "dropped", "gc_checked", "skipped", "shadow_skipped",
             "unique_replace", "clears", "obs", "updates", "empty_add", "rereg", "readd", "eval_add", "diecell"], 0)
        self.last = "construct"
        self.probe_spec = {}  # (trainer, cell name, probe name) -> (post, k, g) of the request that created it
        self.pending_del = False  # a deletion happened, no training step of a survivor yet
        self.pending_del_shared = False
        self.feedback_prev = None

    def info(self, **kw):
        w = self.world
        d = {"shadowed": w.shadowed(),
             "op": self.last}  # the elementary action performed last (macros consist of several)
        d.update(kw)
        return d


def check(cond, kind, detail="", info=None):
    """harness.check with the (costly) model labels computed only on failure."""
    if cond:
        return
    if callable(detail):
        detail = detail()
    if isinstance(info, tuple):
        info = info[0].info(**info[1])
    elif isinstance(info, Ctx):
        info = info.info()
    raise Violation(kind, detail, info)


_FROZEN = []


def _freeze_heap():
    # gc.collect() is part of the operation alphabet; freezing the (large, static) import-time heap once
    # keeps each explicit collection cheap without changing what it collects afterwards
    if not _FROZEN:
        gc.collect()
        gc.freeze()
        _FROZEN.append(True)


def _compare(ctx: Ctx):
    w, im, what = ctx.world, ctx.impl, ctx.what
    for lname, layer in im.layers.items():
        with impl(f"layer.training after {what}"):
            lt = layer.training
        check(lt == w.layer_training[lname], "mode:layer", lambda: f"{what}: layer {lname}.training {lt}", ctx)
    attached = dict.fromkeys(im.layers, 0)
    for idx, tm in w.trainers.items():
        tr = im.trainers[idx]
        check(tr.training == tm.training, "mode:trainer", lambda: f"{what}: trainer{idx}.training {tr.training}", ctx)

        # ---- cells
        with impl(f"trainer{idx}.named_cells/cells after {what}"):
            ncells = [(n, c) for n, (c, _s) in tr.named_cells]
            cells = [c for (c, _s) in tr.cells]
        want_names = sorted(tm.cells)
        check(sorted(n for n, _ in ncells) == want_names, "listing:cells",
              lambda: f"{what}: trainer{idx} named_cells {sorted(n for n, _ in ncells)} != registered {want_names}", ctx)
        for n, c in ncells:
            check(c is im.cell(tm.cells[n].cellkey), "listing:cells",
                  lambda: f"{what}: trainer{idx} named_cells[{n}] is not the layer's cell {tm.cells[n].cellkey}", ctx)
        check(sorted(id(c) for c in cells) == sorted(id(c) for _, c in ncells), "listing:cells",
              lambda: f"{what}: trainer{idx}.cells disagrees with named_cells", ctx)

        # ---- pool entries and identity partition
        uid2obj, obj2uid = {}, {}
        want_named = set()
        for cname, e in tm.cells.items():
            with impl(f"trainer{idx}.named_monitors_of({cname}) after {what}"):
                of = dict(tr.named_monitors_of(cname))
            check(sorted(of) == sorted(e.mons), "listing:monitors_of",
                  lambda: f"{what}: trainer{idx}.named_monitors_of({cname}) = {sorted(of)} != registered {sorted(e.mons)}", ctx)
            for mname, mm in e.mons.items():
                with impl(f"trainer{idx}.get_monitor({cname},{mname}) after {what}"):
                    obj = tr.get_monitor(cname, mname)
                check(obj is not None and obj is of[mname], "listing:get_monitor",
                      lambda: f"{what}: trainer{idx}.get_monitor({cname},{mname}) -> {type(obj).__name__}, not the listed object", ctx)
                want_named.add(((cname, mname), id(obj)))
                if mm.uid in uid2obj:
                    check(uid2obj[mm.uid] is obj, "pool:alias",
                          lambda: f"{what}: trainer{idx} {cname}.{mname} should be the object shared with "
                                  f"{tm.holders(mm)} (same name, attribute and tags) but is a different object", ctx)
                else:
                    check(id(obj) not in obj2uid, "pool:alias",
                          lambda: f"{what}: trainer{idx} {cname}.{mname} aliases an object of a request with a "
                                  f"different name/attribute/tags", ctx)
                    uid2obj[mm.uid] = obj
                    obj2uid[id(obj)] = mm.uid
        with impl(f"trainer{idx}.monitors / named_monitors after {what}"):
            mons = list(tr.monitors)
            named = [((c, n), m) for (c, n), m in tr.named_monitors]
        check(len(mons) == len({id(m) for m in mons}) and {id(m) for m in mons} == set(obj2uid), "listing:monitors",
              lambda: f"{what}: trainer{idx}.monitors lists {len(mons)} objects, registered distinct objects {len(obj2uid)}", ctx)
        check(len(named) == len(want_named) and {(k, id(m)) for k, m in named} == want_named, "listing:named_monitors",
              lambda: f"{what}: trainer{idx}.named_monitors {sorted(k for k, _ in named)} != registered "
                      f"{sorted(k for k, _ in want_named)}", ctx)

        # ---- attachment + contents of every object
        for mm in tm.objects():
            obj = uid2obj[mm.uid]
            if mm.uid not in im.refs:
                im.refs[mm.uid] = weakref.ref(obj)
            with impl(f"monitor.registered after {what}"):
                reg = obj.registered
            check(reg == mm.attached, "monitor:attached",
                  lambda: f"{what}: trainer{idx} monitor {tm.holders(mm)} registered={reg}, expected {mm.attached} "
                          f"(trainer.training={tm.training})", (ctx, {"mkind": mm.kind}))
            attached[mm.layer] += 1 if mm.attached else 0
            with impl(f"monitor.dump/peek after {what}"):
                d = obj.dump()
                p = obj.peek()
            want = mm.dump()
            if want is None:
                check(d is None and p is None, "monitor:value",
                      lambda: f"{what}: trainer{idx} monitor {tm.holders(mm)} holds data but should be empty", (ctx, {"mkind": mm.kind}))
                continue
            check(d is not None and p is not None, "monitor:value",
                  lambda: f"{what}: trainer{idx} monitor {tm.holders(mm)} ({mm.kind}) is empty, expected "
                          f"{mm.nobs_total} observations so far", (ctx, {"mkind": mm.kind}))
            g = _np(d)
            check(_close(g, want), "monitor:value",
                  lambda: f"{what}: trainer{idx} monitor {tm.holders(mm)} ({mm.kind}, cap {mm.cap}) dump (newest first)\n"
                          f" got  {np.round(g, 5).tolist()}\n want {np.round(want, 5).tolist()}", (ctx, {"mkind": mm.kind}))
            check(_close(_np(p), want[0]), "monitor:peek",
                  lambda: f"{what}: trainer{idx} monitor {tm.holders(mm)} peek != newest dumped", (ctx, {"mkind": mm.kind}))
        del uid2obj, mons, named

    # ---- a monitor the user still holds after it was deleted from the pool must be detached
    live = {m.uid for m in w.all_objects()}
    for key, obj in im.held.items():
        if key[3] not in live:
            check(not obj.registered, "monitor:dangling",
                  lambda: f"{what}: monitor {key[:3]} was deleted from the pool but is still registered on the layer", ctx)

    # ---- hook handles on the layer: exactly one per attached monitor of a live trainer
    for lname, layer in im.layers.items():
        nh = len(layer._forward_hooks) + len(layer._forward_pre_hooks)
        check(nh == attached[lname], "hooks:count",
              lambda: f"{what}: layer {lname} has {nh} forward hook handles, {attached[lname]} monitors should be attached", ctx)


def _check_collected(ctx: Ctx):
    """After gc.collect(): every object that left all pools and is not held by the user is gone."""
    w, im = ctx.world, ctx.impl
    live = {m.uid for m in w.all_objects()}
    held = {k[3] for k in im.held}
    for uid, ref in list(im.refs.items()):
        if uid in live or uid in held:
            continue
        check(ref() is None, "gc:leak", lambda: f"{ctx.what}: monitor object #{uid} left the pool, is not referenced by the user, "
                                                f"but is still alive after gc.collect()", ctx)
        del im.refs[uid]
        ctx.stats["gc_checked"] += 1


# ---------------------------------------------------------------------------- operations


def _cname(key):
    return f"{key[0]}_{key[1]}"


def _register(ctx, idx, key, hp):
    w, im = ctx.world, ctx.impl
    tm = w.trainers[idx]
    cname = _cname(key)
    shared_before = {m.uid for m in tm.objects()}
    cell = im.request_cell(ctx, key)
    with impl(ctx.what):
        im.trainers[idx].register_cell(cname, cell, **_cell_kwargs(tm.ttype, hp))
    del cell
    w.register_cell(idx, cname, key, hp)
    e = tm.cells[cname]
    e.required = {s["name"] for s in M.trainer_monitors(tm.ttype, hp, DT, key[0], key[1])}
    late = False
    for s in M.trainer_monitors(tm.ttype, hp, DT, key[0], key[1]):
        sib = (e,) + tuple(s["sib"]) if s["sib"] else None
        mon, how = w.add_monitor(idx, cname, s["name"], s["source"], s["kind"], s["p"], s["cap"],
                                 s["unique"], s["tags"], sib, layer=LOC[key[0]][0])
        if how == "alias" and mon.uid in shared_before and mon.nobs_total:
            late = True
    if late:
        ctx.stats["late_join"] += 1


def _would_shadow(ctx, idx, key, names):
    """Would putting ``names`` of trainer idx into cell key's shared name map redirect an
    eligibility monitor of another (trainer, cell) entry?"""
    for j, tm in ctx.world.trainers.items():
        for e in tm.cells.values():
            if e.cellkey != key:
                continue
            for m in e.mons.values():
                if m.kind == "elig" and (j != idx) and (m.sib[1] in names or m.sib[2] in names):
                    return True
    return False


def _del_cell(ctx, idx, cname):
    w, im = ctx.world, ctx.impl
    ctx.last = "delc"
    before = w.flags["alias_del"]
    w.flags["alias_del"] = False
    with impl(ctx.what):
        im.trainers[idx].del_cell(cname)
    w.del_cell(idx, cname)
    ctx.pending_del = True
    ctx.pending_del_shared = ctx.pending_del_shared or w.flags["alias_del"]
    w.flags["alias_del"] = w.flags["alias_del"] or before


def _del_mon(ctx, idx, cname, mname):
    w, im = ctx.world, ctx.impl
    ctx.last = "delm"
    before = w.flags["alias_del"]
    w.flags["alias_del"] = False
    with impl(ctx.what):
        im.trainers[idx].del_monitor(cname, mname)
    w.del_monitor(idx, cname, mname)
    ctx.pending_del = True
    ctx.pending_del_shared = ctx.pending_del_shared or w.flags["alias_del"]
    w.flags["alias_del"] = w.flags["alias_del"] or before


def _add_probe(ctx, idx, cname, pname, post, k, unique, g, hold):
    from inferno.observe import PassthroughReducer, StateMonitor

    w, im = ctx.world, ctx.impl
    ctx.last = "addm"
    e = w.trainers[idx].cells[cname]
    attr = "neuron.spike" if post else im.pre_attr
    source = ("n", e.cellkey[1]) if post else ("c", e.cellkey[0])
    if unique and pname in e.mons:
        # unique=True replaces the entry; the docs do not say that the replaced object is detached, and the
        # property speaks about registered monitors only: the user does not keep holding a replaced object
        # (whichever cell it was first obtained through), so nothing is asserted about it
        old_uid = e.mons[pname].uid
        for hk in [hk for hk in im.held if hk[3] == old_uid]:
            del im.held[hk]
        ctx.stats["unique_replace"] += 1
    ctor = StateMonitor.partialconstructor(
        reducer=PassthroughReducer(DT, duration=k * DT, inclusive=True),
        as_prehook=False, train_update=True, eval_update=False, prepend=True)
    with impl(ctx.what):
        obj = im.trainers[idx].add_monitor(cname, pname, attr, ctor, unique, k=k, g=g)
    mon, how = w.add_monitor(idx, cname, pname, source, "pass", {"dt": DT}, k + 1, unique,
                             {"k": k, "g": g, "attr": attr}, layer=LOC[e.cellkey[0]][0])
    if how != "existing":
        ctx.probe_spec[(idx, cname, pname)] = (post, k, g)
    with impl(ctx.what):
        got = im.trainers[idx].get_monitor(cname, pname)
    check(obj is got, "listing:get_monitor", lambda: f"{ctx.what}: add_monitor returned an object that is not get_monitor()", ctx)
    if hold:
        im.held[(idx, cname, pname, mon.uid)] = obj


def _set_tmode(ctx, idx, mode, via_train=True):
    w, im = ctx.world, ctx.impl
    ctx.last = "tmode"
    if mode != w.trainers[idx].training:
        ctx.stats["mode_switch"] += 1
    with impl(ctx.what):
        r = im.trainers[idx].train(mode) if (mode or via_train) else im.trainers[idx].eval()
    check(r is im.trainers[idx], "mode:return", lambda: f"{ctx.what}: train()/eval() did not return the trainer", ctx)
    w.set_trainer_mode(idx, mode)


def _try_register(ctx, idx, key, hp):
    """register_cell unless it would enter the region of the shared-namespace known finding (excluded by
    construction in most cases)."""
    tm = ctx.world.trainers[idx]
    ctx.last = "reg"
    names = {s["name"] for s in M.trainer_monitors(tm.ttype, hp, DT, key[0], key[1])}
    if not ctx.case["allow_shadow"] and _would_shadow(ctx, idx, key, names):
        ctx.stats["shadow_skipped"] += 1
        return False
    _register(ctx, idx, key, hp)
    return True


def _apply(ctx: Ctx, op):
    w, im, case = ctx.world, ctx.impl, ctx.case
    name = op[0]
    ctx.last = name
    cells = CELLS[case["topo"]]
    live = sorted(w.trainers)
    st_ = ctx.stats

    def pick_trainer(raw):
        return live[raw % len(live)] if live else None

    if name == "reg":
        idx = pick_trainer(op[1])
        if idx is None:
            return
        tm = w.trainers[idx]
        key = cells[op[2] % len(cells)]
        hp = op[3] % len(M.HP)
        if _cname(key) in tm.cells:
            # documented rejection: a cell with the specified name already exists
            try:
                im.trainers[idx].register_cell(_cname(key), im.cell(key))
            except ValueError:
                return
            except Exception as e:  # noqa: BLE001
                raise Violation("reject:wrongexc", f"{ctx.what}: {type(e).__name__}: {e}", ctx) from e
            raise Violation("reject:accepted", f"{ctx.what}: duplicate cell name accepted", ctx)
        _try_register(ctx, idx, key, hp)
    elif name == "delc":
        idx = pick_trainer(op[1])
        if idx is None or not w.trainers[idx].cells:
            if idx is not None:
                # documented rejection
                try:
                    im.trainers[idx].del_cell("nosuchcell")
                except AttributeError:
                    return
                except Exception as e:  # noqa: BLE001
                    raise Violation("reject:wrongexc", f"{ctx.what}: {type(e).__name__}: {e}", ctx) from e
                raise Violation("reject:accepted", f"{ctx.what}: del_cell of unknown cell accepted", ctx)
            return
        tm = w.trainers[idx]
        cname = sorted(tm.cells)[op[2] % len(tm.cells)]
        _del_cell(ctx, idx, cname)
    elif name == "addm":
        idx = pick_trainer(op[1])
        if idx is None or not w.trainers[idx].cells:
            return
        tm = w.trainers[idx]
        cname = sorted(tm.cells)[op[2] % len(tm.cells)]
        _add_probe(ctx, idx, cname, PROBE_NAMES[op[3] % len(PROBE_NAMES)], (op[4] % 3) != 0, op[5] % 3,
                   (op[6] % 4) == 0, op[7] % 2, (op[8] % 4) == 0)
    elif name == "delm":
        idx = pick_trainer(op[1])
        if idx is None:
            return
        tm = w.trainers[idx]
        probes = [(c, n) for c, e in sorted(tm.cells.items()) for n in sorted(e.mons) if n in PROBE_NAMES]
        if not probes:
            if tm.cells:
                cname = sorted(tm.cells)[0]
                try:
                    im.trainers[idx].del_monitor(cname, "nosuchmonitor")
                except AttributeError:
                    return
                except Exception as e:  # noqa: BLE001
                    raise Violation("reject:wrongexc", f"{ctx.what}: {type(e).__name__}: {e}", ctx) from e
                raise Violation("reject:accepted", f"{ctx.what}: del_monitor of unknown monitor accepted", ctx)
            return
        cname, pname = probes[op[2] % len(probes)]
        _del_mon(ctx, idx, cname, pname)
    elif name == "tmode":
        idx = pick_trainer(op[1])
        if idx is None:
            return
        _set_tmode(ctx, idx, (op[2] % 3) != 0, bool(op[3] % 2))
    elif name == "lmode":
        mode = (op[1] % 3) != 0
        lname = list(im.layers)[(op[1] // 3) % len(im.layers)]
        if mode != w.layer_training[lname]:
            st_["mode_switch"] += 1
        with impl(ctx.what):
            im.layers[lname].train(mode)
        w.layer_training[lname] = mode
        for k in im.cell_training:
            if LOC[k[0]][0] == lname:
                im.cell_training[k] = mode
    elif name == "step":
        _step(ctx, op[1])
    elif name == "tstep":
        _trainer_step(ctx, pick_trainer(op[1]), op[2])
    elif name == "update":
        idx = pick_trainer(op[1])
        use_trainer = idx is not None and (op[2] % 2 == 0)
        _update(ctx, idx if use_trainer else None)
    elif name == "clear":
        idx = pick_trainer(op[1])
        if idx is None:
            return
        with impl(ctx.what):
            im.trainers[idx].clear()
        w.clear_trainer(idx)
        st_["clears"] += 1
    elif name == "lclear":
        with impl(ctx.what):
            for layer in im.layers.values():
                layer.clear()
        ctx.feedback_prev = None
    elif name == "drop":
        if len(live) < 2 and not case["allow_drop_last"]:
            return
        idx = pick_trainer(op[1])
        if idx is None:
            return
        for hk in [hk for hk in im.held if hk[0] == idx]:
            del im.held[hk]
        w.drop_trainer(idx)
        del im.trainers[idx]
        gc.collect()
        st_["dropped"] += 1
        _check_collected(ctx)
    elif name == "newtr":
        idx = op[1] % 2
        if idx in w.trainers:
            return
        ttype = case["trainers"][idx % len(case["trainers"])]
        with impl(ctx.what):
            im.trainers[idx] = _build_trainer(ttype)
        w.new_trainer(idx, ttype)
    elif name == "gc":
        im.held.clear()
        gc.collect()
        _check_collected(ctx)
    elif name == "empty":
        # del_monitor on EVERY monitor of one still-registered cell (trainer-owned ones and probes), step, then
        # add_monitor on that same cell again, step; optionally restore the cell by del_cell + register_cell
        idx = pick_trainer(op[1])
        if idx is None or not w.trainers[idx].cells:
            return
        tm = w.trainers[idx]
        cname = sorted(tm.cells)[op[2] % len(tm.cells)]
        e = tm.cells[cname]
        for mname in reversed(list(e.mons)):
            _del_mon(ctx, idx, cname, mname)
            _compare(ctx)
        _step(ctx, op[3])
        _compare(ctx)
        _add_probe(ctx, idx, cname, PROBE_NAMES[op[4] % len(PROBE_NAMES)], (op[5] % 3) != 0, op[6] % 3, False, op[7] % 2, False)
        _compare(ctx)
        _step(ctx, op[3] ^ 0x155)
        st_["empty_add"] += 1
        if op[8] % 2:
            _compare(ctx)
            key, hp = e.cellkey, e.hp
            _del_cell(ctx, idx, cname)
            _compare(ctx)
            if _try_register(ctx, idx, key, hp):
                _compare(ctx)
                _step(ctx, op[3] ^ 0x2AA)
    elif name == "rereg":
        # del_cell -> register_cell of the same cell under the same name
        idx = pick_trainer(op[1])
        if idx is None or not w.trainers[idx].cells:
            return
        tm = w.trainers[idx]
        cname = sorted(tm.cells)[op[2] % len(tm.cells)]
        key = tm.cells[cname].cellkey
        _del_cell(ctx, idx, cname)
        _compare(ctx)
        if op[4] % 2:
            _step(ctx, op[5])
            _compare(ctx)
        if _try_register(ctx, idx, key, op[3] % len(M.HP)):
            _compare(ctx)
            _step(ctx, op[5] ^ 0x155)
            st_["rereg"] += 1
    elif name == "readd":
        # del_monitor -> add_monitor of the same name / attribute / tags on the same cell
        idx = pick_trainer(op[1])
        if idx is None:
            return
        tm = w.trainers[idx]
        probes = [(c, n) for c, e in sorted(tm.cells.items()) for n in sorted(e.mons) if n in PROBE_NAMES]
        if not probes:
            return
        cname, pname = probes[op[2] % len(probes)]
        post, k, g = ctx.probe_spec[(idx, cname, pname)]
        _del_mon(ctx, idx, cname, pname)
        _compare(ctx)
        if op[3] % 2:
            _step(ctx, op[4])
            _compare(ctx)
        _add_probe(ctx, idx, cname, pname, post, k, False, g, False)
        _compare(ctx)
        _step(ctx, op[4] ^ 0x155)
        st_["readd"] += 1
    elif name == "diecell":
        # generic layer only: a registered cell dies WITHOUT trainer.del_cell (layer.del_cell, last reference dropped,
        # gc.collect()), is re-created by layer.add_cell and registered again under the same name: the pool must
        # purge the dead cell's monitor group.  (What the trainer lists between death and re-registration is not
        # specified and not examined; only generated when exactly one trainer holds the cell.)
        idx = pick_trainer(op[1])
        if idx is None or not w.trainers[idx].cells or im.kinds.get("A") != "gen":
            return
        tm = w.trainers[idx]
        cname = sorted(tm.cells)[op[2] % len(tm.cells)]
        e = tm.cells[cname]
        key, hp = e.cellkey, e.hp
        if any(e2.cellkey == key for j, t2 in w.trainers.items() if j != idx for e2 in t2.cells.values()):
            return
        (l, c), (_, n) = LOC[key[0]], LOC[key[1]]
        ref = im.cellrefs.pop(key, None)
        with impl(ctx.what + " [layer.del_cell]"):
            im.layers[l].del_cell(c, n)
        gc.collect()
        check(ref is None or ref() is None, "gc:leak", lambda: f"{ctx.what}: the Cell deleted from the layer is still alive after gc.collect()", ctx)
        for hk in [hk for hk in im.held if hk[0] == idx and hk[1] == cname]:
            del im.held[hk]
        w.del_cell(idx, cname)  # the re-registration is documented to delete what a dead cell left behind
        w.namemap.pop(key, None)
        ctx.last = "reg"
        _register(ctx, idx, key, hp)
        _compare(ctx)
        _step(ctx, op[3])
        st_["diecell"] += 1
    elif name == "evaladd":
        # trainer.eval() -> add_monitor / register_cell while in eval -> step -> train() -> step
        idx = pick_trainer(op[1])
        if idx is None:
            return
        tm = w.trainers[idx]
        _set_tmode(ctx, idx, False, bool(op[2] % 2))
        _compare(ctx)
        key = cells[op[3] % len(cells)]
        did = False
        if _cname(key) not in tm.cells and (op[4] % 2 or not tm.cells):
            did = _try_register(ctx, idx, key, op[5] % len(M.HP))
        elif tm.cells:
            cname = sorted(tm.cells)[op[3] % len(tm.cells)]
            _add_probe(ctx, idx, cname, PROBE_NAMES[op[6] % len(PROBE_NAMES)], (op[7] % 3) != 0, op[8] % 3, False, op[9] % 2, False)
            did = True
        _compare(ctx)
        _step(ctx, op[10])
        _compare(ctx)
        _set_tmode(ctx, idx, True)
        _compare(ctx)
        _step(ctx, op[10] ^ 0x155)
        if did:
            st_["eval_add"] += 1
    else:
        raise ValueError(name)


def _step(ctx: Ctx, bits):
    """One network step: every layer is stepped once (layer k with its own scripted data)."""
    w, im, case = ctx.world, ctx.impl, ctx.case
    ctx.last = "step"
    B = case["B"]
    nobs = 0

    def tt(a):
        return torch.tensor(a)

    for k, (lname, kind) in enumerate(LAYERS[case["topo"]]):
        layer = im.layers[lname]
        data = _decode(kind, B, bits ^ (k * 0x2D5A5))
        if kind == "rec":
            prev = ctx.feedback_prev if ctx.feedback_prev is not None else np.zeros((B, O), dtype=bool)
            data[("c", "lateral")] = data[("n", "feedfwd")]
            data[("c", "feedback")] = prev
            with impl(ctx.what):
                out = layer(tt(data[("c", "feedfwd")]),
                            feedfwd_neuron_kwargs={"override": tt(data[("n", "feedfwd")])},
                            feedback_neuron_kwargs={"override": tt(data[("n", "feedback")])})
            ctx.feedback_prev = data[("n", "feedback")]
            outs = {"feedfwd": out[0], "feedback": out[1]}
        elif kind == "ser":
            with impl(ctx.what):
                out = layer(tt(data[("c", "serial")]), neuron_kwargs={"override": tt(data[("n", "serial")])})
            outs = {"serial": out}
        else:
            conns, neurons, _ = KINDS[kind]
            with impl(ctx.what):
                outs = layer({c: (tt(data[("c", c)]),) for c in conns},
                             neuron_kwargs={n: {"override": tt(data[("n", n)])} for n in neurons})
        # harness self-check (not C15's subject): the scripted data is what the layer exposes
        for (ck, nm), a in data.items():
            if ck == "n":
                got = _np(outs[nm]) != 0
                if got.shape != a.shape or not np.array_equal(got, a):
                    raise RuntimeError(f"harness: neuron {nm} output {got.tolist()} != scripted {a.tolist()}")
            else:
                conn = layer.get_connection(nm)
                got = _np(conn.synapse.spike if im.delayed else conn.synspike) != 0
                if got.shape != a.shape or not np.array_equal(got, a):
                    raise RuntimeError(f"harness: connection {nm} presynaptic spikes {got.tolist()} != scripted {a.tolist()}")
        nobs += w.step({(ck, f"{lname}_{nm}"): a for (ck, nm), a in data.items()}, lname)
    ctx.stats["obs"] += nobs
    if nobs:
        ctx.stats["train_steps"] += 1
        if ctx.pending_del:
            ctx.stats["del_then_train"] += 1
            ctx.pending_del = False
        if ctx.pending_del_shared:
            ctx.stats["del_shared_then_train"] += 1
            ctx.pending_del_shared = False


def _acc_state(im):
    """(connection, param) -> (list of pos parts, list of neg parts) as float64 arrays."""
    out = {}
    for cname in TOPO[im.topo][0]:
        upd = im.connection(cname).updater
        for p in ("weight", "bias"):
            acc = getattr(upd, p)
            out[(cname, p)] = ([_np(t) for t in acc._pos], [_np(t) for t in acc._neg])
    return out


def _params(im):
    return {c: (_np(im.connection(c).weight).copy(), _np(im.connection(c).bias).copy()) for c in TOPO[im.topo][0]}


def _trainer_step(ctx: Ctx, idx, sig):
    w, im = ctx.world, ctx.impl
    if idx is None:
        return
    tm = w.trainers[idx]
    if not tm.cells or any(not m.states for m in tm.objects()) or any(not e.required <= set(e.mons) for e in tm.cells.values()):
        ctx.stats["skipped"] += 1
        return  # docs: to be called after every trainable batch — nothing recorded yet; or the user deleted a
        # monitor the trainer needs (user error, trainer() is then not called)
    before = _acc_state(im)
    tr = im.trainers[idx]
    signal = [1.0, -1.0, 0.5][sig % 3]
    with impl(ctx.what):
        if tm.ttype in ("MSTDP", "MSTDPET"):
            if (sig // 3) % 2 and im.B > 1:
                tr(torch.tensor([signal, -signal][: im.B]))
            else:
                tr(signal)
        elif tm.ttype == "LinearHomeostasis":
            tr()
        else:
            tr()
    after = _acc_state(im)
    param = "bias" if tm.ttype == "LinearHomeostasis" else "weight"
    act = [e for e in tm.cells.values() if tm.training and im.cell_training[e.cellkey]]
    touched = {(e.cellkey[0], param) for e in act}
    for key in after:
        nb = len(before[key][0]) + len(before[key][1])
        na = len(after[key][0]) + len(after[key][1])
        if key in touched:
            check(na > nb, "tstep:noupdate", lambda: f"{ctx.what}: trainer{idx} ({tm.ttype}) produced no update for {key}", ctx)
        else:
            check(na == nb, "tstep:foreign", lambda: f"{ctx.what}: trainer{idx} ({tm.ttype}) changed the accumulator of {key}, "
                                                     f"which belongs to none of its training cells", ctx)
        for side in (0, 1):
            for a, b in zip(before[key][side], after[key][side]):
                check(np.array_equal(a, b, equal_nan=True), "tstep:foreign",
                      lambda: f"{ctx.what}: trainer{idx} rewrote an already accumulated part of {key}", ctx)
    ctx.stats["tstep"] += 1
    if tm.ttype == "STDP" and act:
        want = {}
        for e in act:
            pos, neg = M.stdp_update(e)
            want.setdefault(e.cellkey[0], ([], []))
            if pos is not None:
                want[e.cellkey[0]][0].append(pos)
            if neg is not None:
                want[e.cellkey[0]][1].append(neg)
        for cname, (wp, wn) in want.items():
            key = (cname, "weight")
            for side, ws in ((0, wp), (1, wn)):
                new = after[key][side][len(before[key][side]):]
                ok = len(new) == len(ws) and all(_close(g, x) for g, x in zip(new, ws))
                check(ok, "tstep:value",
                      lambda: f"{ctx.what}: trainer{idx} STDP {'pos' if side == 0 else 'neg'} parts for {cname}\n got  "
                              f"{[np.round(g, 5).tolist() for g in new]}\n want {[np.round(x, 5).tolist() for x in ws]}", ctx)
        ctx.stats["tstep_value"] += 1


def _update(ctx: Ctx, idx):
    w, im = ctx.world, ctx.impl
    before = _acc_state(im)
    pbefore = _params(im)
    if idx is None:
        with impl(ctx.what + " [layer.update]"):
            for layer in im.layers.values():
                layer.update()
        applied = set(TOPO[im.topo][0])
    else:
        with impl(ctx.what + " [trainer.update]"):
            im.trainers[idx].update()
        applied = {e.cellkey[0] for e in w.trainers[idx].cells.values()}
    after = _acc_state(im)
    pafter = _params(im)
    for (cname, p), (pos, neg) in after.items():
        pi = 0 if p == "weight" else 1
        delta = pafter[cname][pi] - pbefore[cname][pi]
        bpos, bneg = before[(cname, p)]
        if cname in applied:
            # applied exactly once ("each updater is called once, even if present in multiple cells"):
            # default reduction is the sum of the parts, default binding pos - neg
            want = np.zeros_like(delta)
            for part in bpos:
                want = want + part
            for part in bneg:
                want = want - part
            scale = max(1.0, float(np.abs(pbefore[cname][pi]).max()), float(np.abs(pafter[cname][pi]).max()))
            ok = delta.shape == want.shape and np.allclose(delta, want, rtol=1e-4, atol=4e-6 * scale)  # float32 parameters
            check(ok, "update:value",
                  lambda: f"{ctx.what}: {cname}.{p} changed by {np.round(delta, 5).tolist()}, accumulated update was "
                          f"{np.round(want, 5).tolist()}", ctx)
            if idx is None:  # Layer.update(clear=True)
                check(not pos and not neg, "update:pending", lambda: f"{ctx.what}: accumulator {cname}.{p} not emptied by layer.update()", ctx)
        else:
            same = len(pos) == len(bpos) and len(neg) == len(bneg)
            check(same and not np.any(delta), "update:foreign",
                  lambda: f"{ctx.what}: update touched {cname}.{p}, which has no cell in trainer{idx}", ctx)
    ctx.stats["updates"] += 1


# ---------------------------------------------------------------------------- run


def run_lifecycle(case):
    _freeze_heap()
    ctx = Ctx(case)
    with impl("construct layer"):
        ctx.impl = Impl(case)
    im, w = ctx.impl, ctx.world
    w.layer_training = {l: True for l in im.layers}
    for idx, ttype in enumerate(case["trainers"]):
        with impl(f"construct trainer {ttype}"):
            im.trainers[idx] = _build_trainer(ttype)
        w.new_trainer(idx, ttype)
    _compare(ctx)
    max_two = 0
    for i, op in enumerate(case["ops"]):
        ctx.what = f"op#{i} {op[0]} {op[1:]}"
        try:
            _apply(ctx, op)
            _compare(ctx)
        except Violation as v:
            v.info = {**ctx.info(), **(v.info or {})}  # model labels for narrow matching of known findings
            raise
        # measured classes
        for tm in w.trainers.values():
            if any(len(tm.holders(m)) > 1 for m in tm.objects()):
                ctx.stats["alias_now"] += 1
                break
        keys = [e.cellkey for tm in w.trainers.values() for e in tm.cells.values()]
        if len(keys) != len(set(keys)):
            max_two = 1
    ctx.stats["two_on_cell"] = max_two
    s = ctx.stats
    cls = [f"topo={case['topo']}", "trainers=" + "+".join(case["trainers"])]
    for k in ("late_join", "del_then_train", "del_shared_then_train", "two_on_cell", "tstep", "tstep_value",
              "dropped", "gc_checked", "unique_replace", "clears", "updates", "empty_add", "rereg", "readd", "eval_add", "diecell", "mode_switch", "shadow_skipped", "alias_now"):
        if s[k]:
            cls.append(k)
    nt = bool(s["alias_now"] and s["del_then_train"] and s["mode_switch"] and s["train_steps"] >= 2)
    # release everything deterministically
    im.held.clear()
    im.trainers.clear()
    return {"nt": nt, "cls": cls}


# ---------------------------------------------------------------------------- generator

_raw = st.integers(0, 11)
_bits = st.integers(0, 2 ** 20 - 1)


def _op():
    r = _raw
    hp = st.sampled_from([0, 0, 0, 1, 2])
    weighted = [
        (3, st.tuples(st.just("reg"), r, r, hp)),
        (3, st.tuples(st.just("delc"), r, r)),
        (3, st.tuples(st.just("addm"), r, r, r, r, r, r, r, r)),
        (2, st.tuples(st.just("delm"), r, r)),
        (2, st.tuples(st.just("tmode"), r, r, r)),
        (2, st.tuples(st.just("lmode"), r)),
        (4, st.tuples(st.just("step"), _bits)),
        (2, st.tuples(st.just("tstep"), r, r)),
        (1, st.tuples(st.just("update"), r, r)),
        (1, st.tuples(st.just("clear"), r)),
        (1, st.tuples(st.just("lclear"))),
        (1, st.tuples(st.just("drop"), r)),
        (1, st.tuples(st.just("newtr"), r)),
        (1, st.tuples(st.just("gc"))),
        (1, st.tuples(st.just("empty"), r, r, _bits, r, r, r, r, r)),
        (1, st.tuples(st.just("rereg"), r, r, hp, r, _bits)),
        (1, st.tuples(st.just("readd"), r, r, r, _bits)),
        (1, st.tuples(st.just("evaladd"), r, r, r, r, hp, r, r, r, r, _bits)),
        (1, st.tuples(st.just("diecell"), r, r, _bits)),
    ]
    return st.one_of(*[s_ for w_, s_ in weighted for _ in range(w_)]).map(list)


_STRUCT = {"reg", "delc", "addm", "delm", "tmode", "lmode", "clear", "drop", "newtr"}  # macros step themselves


@st.composite
def lifecycle_case(draw, tier="quick"):
    topo = draw(st.sampled_from(["bi21", "bi21", "bi12", "bi12", "bi22", "bi22", "rec", "rec", "ser2", "bi21x2", "gen", "gen"]))
    B = draw(st.sampled_from([1, 2]))
    delayed = draw(st.integers(0, 5)) == 0
    if delayed:
        pool = ["DelayAdjustedSTDP", "DelayAdjustedSTDP", "LinearHomeostasis"]
    else:
        pool = ["STDP", "STDP", "MSTDP", "MSTDPET", "TripletSTDP", "KernelSTDP", "LinearHomeostasis"]
    ntr = draw(st.sampled_from([1, 2, 2]))
    trainers = [draw(st.sampled_from(pool)) for _ in range(ntr)]
    maxops = 24 if tier == "quick" else 50
    body = draw(st.lists(_op(), min_size=3, max_size=maxops))
    ncell = len(CELLS[topo])
    chance = lambda k: draw(st.integers(0, 9)) < k  # noqa: E731
    bits = lambda: draw(_bits)  # noqa: E731
    t0 = draw(st.integers(0, 1))
    ops = []
    # bias (DESIGN C15/NT): register two cells that share a population early, in the same trainer ...
    if chance(9):
        hp = draw(st.sampled_from([0, 0, 0, 1]))
        first = draw(st.sampled_from([0, 0, 0, 1, 2, 3])) % ncell
        ops.append(["reg", t0, first, hp])
        if chance(5):
            ops.append(["step", bits()])  # the second cell joins late: shared objects already hold history
        ops.append(["reg", t0, first + 1, draw(st.sampled_from([hp, hp, hp, 1 - min(hp, 1)]))])
        ops.append(["step", bits()])
        if ntr == 2 and chance(5):
            ops.append(["reg", t0 + 1, first + draw(st.integers(0, 1)), draw(st.sampled_from([0, 0, 1]))])
            ops.append(["step", bits()])
    blocks = []
    probes = chance(5)
    if probes:  # a pooled probe on two cells
        c, nm, at, k, g = draw(_raw), draw(_raw), draw(_raw), draw(_raw), draw(_raw)
        blocks.append([["addm", t0, c, nm, at, k, 1, g, draw(_raw)], ["addm", t0, c + 1, nm, at, k, 1, g, 1],
                       ["step", bits()]])
    early = None
    if chance(9):  # ... delete one of them, then step (in training mode unless the body switched it off)
        d = ["delm", t0, draw(_raw)] if (probes and chance(5)) else ["delc", t0, draw(_raw)]
        blk = [d, ["step", bits()], ["tstep", t0, draw(_raw)]]
        if chance(4) and d[0] == "delc":
            early = blk  # right after the registrations, before the body can switch modes
        else:
            blocks.append(blk)
    if chance(8):  # a train/eval round trip of trainer or layer with steps inside and after
        if chance(6):
            t = draw(st.integers(0, 1))
            blocks.append([["tmode", t, 0, 0], ["step", bits()], ["tmode", t, 1, draw(_raw)], ["step", bits()]])
        else:
            blocks.append([["lmode", 0], ["step", bits()], ["lmode", 1], ["step", bits()]])
    # undo-then-redo pairs of every structural op (each macro steps in between and afterwards)
    if chance(3):
        blocks.append([["empty", t0, draw(_raw), bits(), draw(_raw), draw(_raw), draw(_raw), draw(_raw), draw(_raw)]])
    if chance(3):
        blocks.append([["rereg", t0, draw(_raw), draw(st.sampled_from([0, 0, 1, 2])), draw(_raw), bits()]])
    if probes and chance(5):
        blocks.append([["readd", t0, draw(_raw), draw(_raw), bits()]])
    if chance(3):
        blocks.append([["evaladd", draw(st.integers(0, 1)), draw(_raw), draw(_raw), draw(_raw), draw(st.sampled_from([0, 0, 1, 2])),
                        draw(_raw), draw(_raw), draw(_raw), draw(_raw), bits()]])
    if topo == "gen" and chance(6):
        blocks.append([["diecell", t0, draw(_raw), bits()]])
    follow = chance(8)
    out = []
    for op in body:
        out.append([op])
        if follow and op[0] in _STRUCT:
            out[-1].append(["step", bits()])  # always follow a structural rule by a layer step
    for b in blocks:
        out.insert(draw(st.integers(0, len(out))), b)
    if early is not None:
        out.insert(0, early)
    for grp in out:
        ops.extend(grp)
    return {
        "topo": topo, "B": B, "delayed": delayed, "trainers": trainers, "ops": ops,
        # regions behind known findings are excluded by construction unless drawn in
        "allow_shadow": draw(st.integers(0, 9)) == 0,
        "allow_drop_last": draw(st.integers(0, 4)) == 0,
    }


LEGS = [
    Leg(
        name="lifecycle",
        run=run_lifecycle,
        strategy=lambda tier: lifecycle_case(tier),
        quick=300, thorough=1500, quick_shards=8, thorough_shards=16, nt_floor=0.3,
        rule="operation sequence in which, at some point, two cells of one trainer hold the same pooled monitor "
             "object, >= 1 cell/monitor deletion is followed by >= 1 layer step that is recorded (trainer and layer "
             "training) by a surviving monitor, >= 1 train/eval switch of trainer or layer, >= 2 recorded steps; "
             "distinct by SHA-1 of the case",
    ),
]

ASSUMPTIONS = [
    "a network step = every layer of the topology stepped once (two-layer topologies); layer train/eval is switched per layer",
    "CPU only; CPython reference counting + explicit gc.collect() for the drop-last-reference rules",
    "LinearDense connections with DeltaCurrent synapses, ExactNeuron populations scripted through override: what a "
    "monitor should see at a step is known from the case, independent of weights",
    "reducer contents are compared with float64 closed-form folds (rtol 1e-5, atol 1e-6); reducer arithmetic itself is C07's subject",
    "trainer() is only called once every monitor of the trainer holds >= 1 observation (documented: call after every trainable batch); "
    "its accumulator VALUES are checked for pair STDP only, for the other rules success, touched-exactly-own-connections and "
    "append-only are checked (update formulas are C08/C18)",
    "monitors deleted by the user are probes; deleting a monitor a trainer needs is user error and not generated",
]

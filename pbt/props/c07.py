"""C07 — spike traces and fold reducers equal their closed forms over any event history.

Legs
  functional : inferno.trace_* / exp*_trace_* iterated from ``trace=None`` over generated
               observation sequences (per-step step times for the exp variants); after
               every step the returned trace is compared with the closed form over the
               event list (sum / latest of A*exp(-(t-t_f)/tau), scale*input terms).
  reducer    : generated operation sequences (forward(obs[,cond]), view(scalar|tensor,
               tolerance), dump, peek/latest, clear(keepshape), dt setter, inplace) over the
               ten shipped fold reducers; after EVERY op the whole record is read back
               (peek + one on-grid view per slot) and compared with the list model.
  view       : the same machine with a filled record and many per-element view queries on /
               off the grid, on the tolerance boundary and one ulp beside the grid.
Oracle: pbt.models.traces (closed forms in float64 over the event list, exact-rational
time model with ambiguity band).

Documented interpolation rules used for off-grid views (class docstrings / interpolate()):
traces: older sample x exp(-elapsed/tau); EventReducer: older sample + elapsed;
PassthroughReducer: older sample; EMAReducer / CAReducer: linear between the neighbours.
Slots older than the first fold since a clear hold the documented fill (0; EventReducer: its
initial value).  Inside the band (time within 8 ulp of the tolerance boundary, or verdicts of
the exact and the working-dtype evaluation differ) the grid sample, either neighbouring
interpolation and, for scalar times, the grid sample carried over one whole step (what
select() yields when 1 + t/dt rounds to an integer) are all accepted and the read is not
counted as decisive.
"""

from __future__ import annotations

import contextlib
import math
from fractions import Fraction

import numpy as np
import torch
from hypothesis import strategies as st

from ..harness import Leg, Violation, check, impl
from ..models import traces as M

# ------------------------------------------------------------------------------ palettes

PAL = {
    # index 0 is the non-event / zero value so shrinking moves towards "nothing happens"
    "bool": [0, 1, 0, 0, 1, 0, 0, 0, 1, 0, 0, 0],
    "real": [0.0, 1.0, 0.0, -1.0, 0.5, 1.0, 2.0, 0.0, 1.5, 1.0, -0.5, 0.25],
    "int": [0, 1, 0, 2, -1, 1, 3, 0, 1, -2, 0, 1],
    "nondy": [0.0, 0.1, 0.0, -0.7, 1.1, 0.1, 2.2, 0.0, 0.3, 0.1, -1.3, 0.6],
}
SHAPES = [[], [1], [2], [3], [2, 2], [2, 3]]
DTS = [1.0, 0.5, 0.25, 2.0, 0.1, 1.3, 0.3]
TAUS = [5.0, 1.0, 2.5, 20.0, 0.7]
AMPS = [1.0, 1.5, -1.0, 0.5, 2.0, -0.25, 0.3]
SCALES = [1.0, 0.5, -1.0, 0.0, 2.0, 0.3]
SAMPS = [0.0, 1.0, -0.5, 1.5, 0.2]
TARGETS = {"bool": [1, 0, True], "real": [1.0, 0.0, 0.5, -1.0], "int": [1, 0, 2], "nondy": [0.1, 0.0, 1.1]}
MTOLS = [None, None, 0.5, 0.25, 1.0, 0.125]
ALPHAS = [0.25, 0.5, 0.1, 0.9, 1.0, 0.0]
VTOLS = [None, 0.0, 2.0 ** -10, 2.0 ** -6, 1e-3]
FRACS = [Fraction(1, 2), Fraction(1, 4), Fraction(3, 4), Fraction(1, 10), Fraction(9, 10), Fraction(3, 10)]
DUR_MULTS = {"0": Fraction(0), "dt": Fraction(1), "3dt": Fraction(3), "2.5dt": Fraction(5, 2), "6dt": Fraction(6)}

TCRIT = {
    "gt0": lambda h: h > 0,
    "nz": lambda h: h != 0,
    "ge1": lambda h: h >= 1,
    "lt0": lambda h: h < 0,
}
KINDS = list(M.ALL_KINDS)


def _dyadic(x):
    return M._dyadic(float(x))


@contextlib.contextmanager
def _default_dtype(f64: bool):
    old = torch.get_default_dtype()
    torch.set_default_dtype(torch.float64 if f64 else torch.float32)
    try:
        yield
    finally:
        torch.set_default_dtype(old)


def _obs(pool, shape, obs_kind):
    """(numpy float64 array of the values, torch tensor handed to the implementation)"""
    numel = int(np.prod(shape)) if shape else 1
    pal = PAL[obs_kind]
    vals = [pal[pool[j % len(pool)] % len(pal)] for j in range(numel)]
    if obs_kind == "bool":
        t = torch.tensor(vals, dtype=torch.bool).reshape(shape)
    elif obs_kind == "int":
        t = torch.tensor(vals, dtype=torch.int64).reshape(shape)
    else:
        t = torch.tensor(vals, dtype=torch.get_default_dtype()).reshape(shape)
    # the values the implementation sees (float32 rounding of non-dyadic palette values)
    a = t.to(torch.float64).numpy().copy()
    return a, t


def _cond(pool, shape):
    numel = int(np.prod(shape)) if shape else 1
    vals = [pool[j % len(pool)] % 3 == 1 for j in range(numel)]
    return np.array(vals, dtype=bool).reshape(shape), torch.tensor(vals, dtype=torch.bool).reshape(shape)


# ------------------------------------------------------------------------------ compare

PREC = {"f32": (1e-4, 1e-5), "f64": (1e-9, 1e-11)}


def _close(got, want, mag, prec):
    """elementwise: |got - want| <= rtol*|want| + atol*mag (+ denormal floor); inf / nan
    must coincide"""
    rtol, atol = PREC[prec]
    got = np.asarray(got, dtype=np.float64)
    want = np.asarray(want, dtype=np.float64)
    mag = np.asarray(mag, dtype=np.float64)
    with np.errstate(invalid="ignore"):
        fin = np.isfinite(want)
        ok_fin = np.abs(got - want) <= rtol * np.abs(want) + atol * mag + 1e-30
        ok_nan = np.isnan(want) & np.isnan(got)
        ok_inf = np.isinf(want) & (got == want)
    return np.where(fin, ok_fin & np.isfinite(got), ok_nan | ok_inf)


def _np(t):
    return t.detach().to(torch.float64).numpy()


def _cmp_array(got, want, mag, prec, kind, what, taint=None):
    check(isinstance(got, torch.Tensor), kind + ":type", lambda: f"{what}: got {type(got).__name__}")
    want = np.asarray(want)
    check(tuple(got.shape) == tuple(want.shape), kind + ":shape",
          lambda: f"{what}: shape {tuple(got.shape)} != {tuple(want.shape)}")
    g = _np(got)
    ok = _close(g, want, mag, prec)
    if taint is not None:
        ok = ok | np.broadcast_to(taint, ok.shape)
    check(bool(ok.all()), kind + ":value",
          lambda: f"{what}: got {g.tolist()} want {want.tolist()} (prec {prec})")


# ------------------------------------------------------------------------------ functional leg

FUNCS = ["trace_nearest", "trace_cumulative", "trace_nearest_scaled", "trace_cumulative_scaled",
         "trace_cumulative_value", "exp_trace_nearest", "exprate_trace_nearest",
         "exp_trace_cumulative", "exprate_trace_cumulative"]
DECAYS = [0.5, 0.9, 0.25, 1.0, 0.99, 0.1]
STEP_TIMES = [1.0, 0.5, 0.1, 2.0]
RATES = [1.0, 0.4, 0.05]


def run_functional(case):
    import inferno

    fn = case["fn"]
    f = getattr(inferno, fn)
    shape = tuple(case["shape"])
    okind = case["obs_kind"]
    prec = "f64" if case["f64"] else "f32"
    work = "float64" if case["f64"] else "float32"
    amp = case["amp"]
    steps = case["steps"]
    hs, masks, contribs, clock = [], [], [], []
    taint = np.zeros(shape, dtype=bool)
    amb = 0
    trace = None
    exp_kind = fn.startswith("exp")
    with _default_dtype(case["f64"]):
        for j, pool in enumerate(steps):
            h, obs = _obs(pool, list(shape), okind)
            what = f"{fn} step {j}"
            # ---- implementation
            if fn in ("trace_nearest", "trace_cumulative"):
                kw = dict(decay=case["decay"], amplitude=amp, target=case["target"], tolerance=case["mtol"])
            elif fn in ("trace_nearest_scaled", "trace_cumulative_scaled"):
                kw = dict(decay=case["decay"], amplitude=amp, scale=case["scale"], matchfn=TCRIT[case["crit"]])
            elif fn == "trace_cumulative_value":
                kw = dict(decay=case["decay"], scale=case["scale"])
            else:
                stime = STEP_TIMES[case["dts"][j % len(case["dts"])] % len(STEP_TIMES)]
                kw = dict(step_time=stime, amplitude=amp, target=case["target"], tolerance=case["mtol"])
                if fn.startswith("exprate"):
                    kw["rate_constant"] = case["rate"]
                else:
                    kw["time_constant"] = case["tau"]
            with impl(what):
                trace = f(obs, trace, **kw)
            # ---- closed form over the event list
            hs.append(h)
            if exp_kind:
                clock.append(clock[-1] + stime if clock else 0.0)
            if fn in ("trace_nearest_scaled", "trace_cumulative_scaled"):
                mk, am = M.CRITERIA[case["crit"]](h), np.zeros(shape, dtype=bool)
                contribs.append(case["scale"] * h + amp)
            elif fn == "trace_cumulative_value":
                mk, am = np.ones(shape, dtype=bool), np.zeros(shape, dtype=bool)
                contribs.append(case["scale"] * h)
            else:
                mk, am = M.match_mask(h, case["target"], case["mtol"], work)
                contribs.append(np.full(shape, float(amp)))
            masks.append(mk)
            taint |= am
            amb += int(am.sum())
            if exp_kind:
                rate = case["rate"] if fn.startswith("exprate") else 1.0 / case["tau"]
                w = M.weights_exp(np.array(clock), rate)
            else:
                w = M.weights_pow(len(hs), case["decay"])
            if "nearest" in fn:
                want, mag = M.closed_nearest(np.stack(contribs), np.stack(masks), w)
            else:
                want, mag = M.closed_cumulative(np.stack(contribs), np.stack(masks), w)
            _cmp_array(trace, want, mag, prec, f"fn:{fn}", what, taint)
    # non-trivial: some element with two events of different age and a non-event between
    Mk = np.stack(masks).reshape(len(masks), -1)
    H = np.stack(hs).reshape(len(hs), -1)
    nt = False
    if fn == "trace_cumulative_value":
        nt = len(hs) >= 3 and any(len(set(np.round(H[:, e], 6)) - {0.0}) >= 2 for e in range(H.shape[1]))
    else:
        for e in range(Mk.shape[1]):
            ev = [k for k in range(Mk.shape[0]) if Mk[k, e]]
            if any(b - a >= 2 for a, b in zip(ev, ev[1:])) and not taint.reshape(-1)[e]:
                nt = True
    cls = [fn, f"obs={okind}", "f64" if case["f64"] else "f32"]
    if exp_kind and len(set(case["dts"][: len(steps)])) > 1:
        cls.append("varying_dt")
    if case.get("mtol") is not None and fn not in ("trace_nearest_scaled", "trace_cumulative_scaled", "trace_cumulative_value"):
        cls.append("tolerance")
    return {"nt": bool(nt), "cls": cls, "amb": amb}


_pool = st.lists(st.integers(0, 11), min_size=1, max_size=6)


@st.composite
def functional_case(draw, tier="quick"):
    fn = draw(st.sampled_from(FUNCS))
    f64 = draw(st.integers(0, 4)) == 0
    matchy = fn not in ("trace_nearest_scaled", "trace_cumulative_scaled", "trace_cumulative_value")
    okind = draw(st.sampled_from(["bool", "real", "real", "int", "nondy"] if matchy else ["real", "real", "int", "nondy", "bool"]))
    if okind == "bool" and not matchy and fn != "trace_cumulative_value":
        okind = "real"  # criteria are numeric predicates
    mtol = draw(st.sampled_from(MTOLS)) if (matchy and okind != "bool") else None
    amp = draw(st.sampled_from(AMPS if matchy else SAMPS))
    if matchy and draw(st.integers(0, 5)) == 0:
        amp = draw(st.sampled_from([1, 2, -1]))  # integer amplitude
    tmax = 40 if tier == "quick" else 80
    nsteps = draw(st.one_of(st.integers(1, 6), st.integers(4, tmax), st.integers(4, tmax)))
    steps = draw(st.lists(_pool, min_size=nsteps, max_size=nsteps))
    case = {
        "fn": fn, "f64": f64, "obs_kind": okind, "shape": draw(st.sampled_from(SHAPES)),
        "steps": steps, "amp": amp,
        "decay": draw(st.sampled_from(DECAYS)),
        "tau": draw(st.sampled_from(TAUS)), "rate": draw(st.sampled_from(RATES)),
        "dts": draw(st.lists(st.integers(0, 3), min_size=1, max_size=8)) if draw(st.booleans()) else [draw(st.integers(0, 3))],
        "target": draw(st.sampled_from(TARGETS[okind])), "mtol": mtol,
        "scale": draw(st.sampled_from(SCALES)), "crit": draw(st.sampled_from(sorted(TCRIT))),
    }
    return case


# ------------------------------------------------------------------------------ reducer legs


def _build(case, dt, duration):
    from inferno.observe import (
        CAReducer, ConditionalCumulativeTraceReducer, ConditionalNearestTraceReducer,
        CumulativeTraceReducer, EMAReducer, EventReducer, NearestTraceReducer, PassthroughReducer,
        ScaledCumulativeTraceReducer, ScaledNearestTraceReducer,
    )

    k = case["cls"]
    kw = dict(duration=duration, inclusive=case["inclusive"], inplace=case["inplace"])
    if k == "nearest":
        return NearestTraceReducer(dt, case["tau"], case["amp"], case["target"], case["mtol"], **kw)
    if k == "cumulative":
        return CumulativeTraceReducer(dt, case["tau"], case["amp"], case["target"], case["mtol"], **kw)
    if k == "scaled_nearest":
        return ScaledNearestTraceReducer(dt, case["tau"], case["amp"], case["scale"], TCRIT[case["crit"]], **kw)
    if k == "scaled_cumulative":
        return ScaledCumulativeTraceReducer(dt, case["tau"], case["amp"], case["scale"], TCRIT[case["crit"]], **kw)
    if k == "cond_nearest":
        return ConditionalNearestTraceReducer(dt, case["tau"], case["amp"], case["scale"], **kw)
    if k == "cond_cumulative":
        return ConditionalCumulativeTraceReducer(dt, case["tau"], case["amp"], case["scale"], **kw)
    if k == "event":
        return EventReducer(dt, TCRIT[case["crit"]], case["initial"], **kw)
    if k == "passthrough":
        return PassthroughReducer(dt, **kw)
    if k == "ema":
        return EMAReducer(dt, case["alpha"], **kw)
    if k == "ca":
        return CAReducer(dt, **kw)
    raise ValueError(k)


def _state_check(red, model, prec, what, stats):
    """Reads the whole record back through the public API and compares with the model."""
    if model.initial:
        with impl(f"peek/latest/view after {what}"):
            pk, lt, vw = red.peek(), red.latest, red.view(0.0)
        check(pk is None and lt is None and vw is None, "fresh:notnone",
              lambda: f"{what}: peek/latest/view on a reducer without observations returned a value")
        return
    with impl(f"peek after {what}"):
        pk = red.peek()
    v0, m0 = model.record(0)
    _cmp_array(pk, v0, m0, prec, "peek", f"peek after {what}", model.taint)
    for k in range(model.n):
        t = float(k * model.dt)
        c = M.classify_time(t, model.dt, 1e-7, "float64")
        if not (c["decisive"] and c["on"] and c["k"] == k):
            stats["amb"] += 1
            continue
        with impl(f"view({t}) after {what}"):
            got = red.view(t)
        v, m = model.record(k)
        _cmp_array(got, v, m, prec, "record", f"view({t}) [slot {k} of {model.n}] after {what}", model.taint)


def _view_op(red, model, op, case, prec_data, stats, what):
    mode, tolidx, tdt, dcount, specs = op[1], op[2], op[3], op[4], op[5]
    vtol = VTOLS[tolidx % len(VTOLS)]
    tolv = 1e-7 if vtol is None else vtol
    n, dt = model.n, model.dt
    shape = tuple(model.shape)
    numel = int(np.prod(shape)) if shape else 1
    f64 = case["f64"]
    if mode == "scalar":
        work = "float64"
    else:
        work = {"def": "float64" if f64 else "float32", "f64": "float64", "f32": "float32"}[tdt]
    dy = _dyadic(dt) and vtol is not None and vtol > 0 and _dyadic(vtol)

    def mk_time(spec):
        stratum, kraw, fidx, sgn = spec
        sg = 1 if sgn else -1
        if stratum == 1 and n >= 2:  # strictly between two samples
            return M.grid_time(kraw % (n - 1), FRACS[fidx % len(FRACS)], dt, n, work)
        if stratum == 2 and dy:  # exactly on the tolerance boundary (on-grid, dyadic => exact)
            return M.grid_time(kraw % n, Fraction(0), dt, n, work, nudge=sg * Fraction(vtol))
        if stratum == 3 and dy and n >= 2:  # just outside the tolerance (off-grid)
            k = kraw % n
            sg2 = -1 if k == n - 1 else (1 if k == 0 else sg)
            return M.grid_time(k, Fraction(0), dt, n, work, nudge=sg2 * 2 * Fraction(vtol))
        if stratum == 4:  # one ulp beside the grid point (inside the band)
            W = np.float32 if work == "float32" else np.float64
            k = kraw % n
            t = W(M.grid_time(k, Fraction(0), dt, n, work))
            t2 = np.nextafter(t, W(np.inf if sg > 0 else -np.inf))
            if Fraction(float(t2)) > (n - 1) * Fraction(dt) or Fraction(float(t2)) < -Fraction(tolv):
                t2 = t
            return float(t2)
        return M.grid_time(kraw % n, Fraction(0), dt, n, work)

    if mode == "scalar":
        times = np.array(mk_time(specs[0]), dtype=np.float64)
        tshape = ()
        arg = float(times)
    else:
        D = 1 + dcount % 3 if mode == "SD" else 1
        cnt = numel * D if mode != "const" else 1
        ts = [mk_time(specs[j % len(specs)]) for j in range(cnt)]
        if mode == "const":
            ts = ts * numel
        tshape = shape + ((D,) if mode == "SD" else ())
        times = np.array(ts, dtype=np.float64).reshape(tshape)
        arg = torch.tensor(times, dtype=torch.float64).to(torch.float32 if work == "float32" else torch.float64)
    kwargs = {} if vtol is None else {"tolerance": vtol}
    with impl(what):
        got = red.view(arg, **kwargs)
    check(isinstance(got, torch.Tensor), "view:type", lambda: f"{what}: got {type(got).__name__}")
    want_shape = shape if mode == "scalar" else tshape
    check(tuple(got.shape) == tuple(want_shape), "view:shape",
          lambda: f"{what}: shape {tuple(got.shape)} != {tuple(want_shape)} (times {times.tolist()})")
    g = _np(got)
    prec = "f32" if (prec_data == "f32" or work == "float32") else "f64"
    cache = {}
    seen_k = set()
    for idx in np.ndindex(tuple(want_shape)):
        eidx = idx[: len(shape)]
        t = float(times) if mode == "scalar" else float(times[idx])
        key = (t, eidx)
        if key not in cache:
            cache[key] = model.view_element(t, tolv, work, eidx, scalar=(mode == "scalar"))
        cands, c = cache[key]
        seen_k.add(round(t / dt, 3))
        if model.taint[eidx]:
            continue
        ok = any(bool(_close(g[idx], v, m, prec)) for v, m in cands)
        if c["decisive"]:
            reach = c["k"] if c["on"] else c["older"]
            label = ("view_on" if c["on"] else "view_off") + ("_pad" if reach >= len(model.rec) else "")
            stats[label] = stats.get(label, 0) + 1
            check(ok, "view:ongrid" if c["on"] else "view:interp",
                  lambda: f"{what}: element {idx} time {t!r} (dt {dt}, tol {tolv}, {work}, "
                          f"{'on-grid k=' + str(c['k']) if c['on'] else 'between ' + str(c['newer']) + ' and ' + str(c['older']) + ' elapsed ' + repr(c['elapsed'])}) "
                          f"got {g[idx]!r} want {cands[0][0]!r}; record(newest first) "
                          f"{[float(model.record(j)[0][eidx]) for j in range(model.n)]}",
                  info={"on": c["on"], "cls": case["cls"]})
        else:
            stats["amb"] += 1
            stats["view_amb"] = stats.get("view_amb", 0) + 1
            check(ok, "view:band",
                  lambda: f"{what}: element {idx} time {t!r} inside the ambiguity band: got {g[idx]!r}, "
                          f"accepted {[v for v, _ in cands]}")
    if len(seen_k) > 1:
        stats["view_hetero"] = stats.get("view_hetero", 0) + 1


def run_reducer(case):
    stats = {"amb": 0}
    dt0 = case["dt"]
    mult = DUR_MULTS[case["dur"]]
    duration = float(mult * Fraction(dt0))
    prec = "f64" if case["f64"] else "f32"
    work = "float64" if case["f64"] else "float32"
    okind = case["obs_kind"]
    shape = list(case["shape"])
    cls = [case["cls"], f"dur={case['dur']}", "inplace" if case["inplace"] else "spliced", prec]
    with _default_dtype(case["f64"]):
        with impl("construct"):
            red = _build(case, dt0, duration)
            n = red.data_.recordsz
        if _dyadic(dt0):
            n_doc = max(math.ceil(mult) + (1 if case["inclusive"] else 0), 1)
            check(n == n_doc, "config:recordsz",
                  lambda: f"duration {duration} dt {dt0} inclusive {case['inclusive']}: record holds {n} steps, documented {n_doc}")
        model = M.ReducerModel(case["cls"], dt0, n, tau=case["tau"], amp=case["amp"], target=case["target"],
                               mtol=case["mtol"], scale=case["scale"], crit=case["crit"],
                               initial=case["initial"], alpha=case["alpha"])
        ignored = True  # storage not created yet (or dropped by clear(keepshape=False))
        nt_hist = False
        maxn = n
        fwd_epoch = 0
        ever_cleared_mid = False
        pending_clear_mid = False
        _state_check(red, model, prec, "construct", stats)
        for i, op in enumerate(case["ops"]):
            name = op[0]
            what = f"op#{i} {op}"
            if name == "fwd":
                h, obs = _obs(op[1], shape, okind)
                if case["cls"] in ("cond_nearest", "cond_cumulative"):
                    cnp, ct = _cond(op[2], shape)
                    with impl(what):
                        r = red(obs, ct)
                    stats["amb"] += model.forward(h, cnp, work)
                else:
                    with impl(what):
                        r = red(obs)
                    stats["amb"] += model.forward(h, None, work)
                ignored = False
                fwd_epoch += 1
                if pending_clear_mid:
                    ever_cleared_mid = True
                if fwd_epoch > model.n:
                    stats["wrapped"] = 1
            elif name == "view":
                if model.initial:
                    with impl(what):
                        got = red.view(0.0)
                    check(got is None, "fresh:notnone", lambda: f"{what}: view before any observation returned a value")
                else:
                    _view_op(red, model, op, case, prec, stats, what)
            elif name == "dump":
                with impl(what):
                    got = red.dump()
                if model.initial:
                    check(got is None, "fresh:notnone", lambda: f"{what}: dump before any observation returned a value")
                else:
                    wv, wm = model.dump()
                    _cmp_array(got, wv, wm, prec, "dump", what, model.taint)
                    stats["dump"] = stats.get("dump", 0) + 1
            elif name in ("peek", "latest"):
                with impl(what):
                    got = red.peek() if name == "peek" else red.latest
                if model.initial:
                    check(got is None, "fresh:notnone", lambda: f"{what}: {name} before any observation returned a value")
                else:
                    v0, m0 = model.record(0)
                    _cmp_array(got, v0, m0, prec, "peek", what, model.taint)
            elif name == "clear":
                keep = bool(op[1])
                with impl(what):
                    red.clear(keepshape=keep)
                if fwd_epoch:
                    pending_clear_mid = True
                nt_hist = nt_hist or _epoch_nt(model)
                model.clear()
                fwd_epoch = 0
                if not keep:
                    ignored = True
                    ns = SHAPES[op[2] % len(SHAPES)]
                    if op[2] >= 0 and ns != shape:
                        shape = ns
                        stats["shape_change"] = 1
            elif name == "dt":
                ndt = DTS[op[1] % len(DTS)]
                if ignored and duration > 0:
                    # resizing a record whose storage does not exist (raised before /repo a826126)
                    stats["dt_nostorage"] = 1
                keep = bool(op[2])
                with impl(what):
                    red.dt = ndt
                    got_dt, n2 = red.dt, red.data_.recordsz
                check(got_dt == ndt, "dt:value", lambda: f"{what}: dt reads {got_dt}")
                # the reducer documents that altering dt resets it, the record documents that
                # entries are kept: only the state after an explicit clear is asserted
                with impl(what + " + clear"):
                    red.clear(keepshape=keep)
                if fwd_epoch:
                    pending_clear_mid = True
                nt_hist = nt_hist or _epoch_nt(model)
                model.set_dt(ndt, n2)
                maxn = max(maxn, n2)
                model.clear()
                fwd_epoch = 0
                if not keep:
                    ignored = True
                stats["dtchange"] = 1
            elif name == "inplace":
                with impl(what):
                    red.inplace = bool(op[1])
                    rb = red.inplace
                check(rb == bool(op[1]), "inplace:value", lambda: f"{what}: inplace reads {rb}")
            else:
                raise ValueError(name)
            _state_check(red, model, prec, what, stats)
    # ---- non-trivial rule
    nt_hist = nt_hist or _epoch_nt(model)
    nt_read = maxn < 2 or stats.get("view_off", 0) >= 1
    for k in ("view_on", "view_off", "view_on_pad", "view_off_pad", "view_amb", "view_hetero", "dump",
              "wrapped", "shape_change", "dtchange", "dt_nostorage"):
        if stats.get(k):
            cls.append(k)
    if ever_cleared_mid:
        cls.append("clear_mid")
    cls.append("nt_hist" if nt_hist else "no_nt_hist")
    cls.append("nt_read" if nt_read else "no_nt_read")
    cls.append(f"N={maxn if maxn <= 3 else '4+'}")
    return {"nt": bool(nt_hist and nt_read), "cls": cls, "amb": stats["amb"]}


def _epoch_nt(model):
    """the epoch now held by the model (folds since the last clear): some untainted element
    sees two events of different age with a non-event step between them (trace / event
    reducers), or three folds with two distinct values (pass-through / averages)"""
    if len(model.h) < 3:
        return False
    H = np.stack(model.h).reshape(len(model.h), -1)
    Mk = np.stack(model.mask).reshape(len(model.mask), -1)
    taint = model.taint.reshape(-1)
    for e in range(H.shape[1]):
        if taint[e]:
            continue
        if model.kind in ("passthrough", "ema", "ca"):
            if len(set(H[:, e].tolist())) >= 2:
                return True
            continue
        ks = [j for j in range(Mk.shape[0]) if Mk[j, e]]
        if any(b - a >= 2 for a, b in zip(ks, ks[1:])):
            return True
    return False


# ---- strategies

_raw = st.integers(0, 40)
_spec = st.tuples(st.sampled_from([0, 1, 1, 1, 2, 3, 4]), _raw, st.integers(0, 5), st.booleans()).map(list)


def _view_strategy():
    return st.tuples(
        st.just("view"),
        st.sampled_from(["scalar", "S", "S", "SD", "SD", "const"]),
        st.integers(0, len(VTOLS) - 1),
        st.sampled_from(["def", "def", "def", "f64", "f32"]),
        st.integers(0, 2),
        st.lists(_spec, min_size=1, max_size=6),
    ).map(list)


def _fwd_strategy():
    return st.tuples(st.just("fwd"), _pool, _pool).map(list)


def _inner_op():
    fwd = _fwd_strategy()
    return st.one_of(
        fwd, fwd, fwd, fwd, fwd,
        _view_strategy(), _view_strategy(), _view_strategy(),
        st.tuples(st.just("dump")).map(list),
        st.tuples(st.sampled_from(["peek", "latest"])).map(list),
        st.tuples(st.just("inplace"), st.booleans()).map(list),
    )


def _reset_op():
    return st.one_of(
        st.tuples(st.just("clear"), st.booleans(), st.integers(-6, 5)).map(list),
        st.tuples(st.just("clear"), st.booleans(), st.integers(-6, 5)).map(list),
        st.tuples(st.just("dt"), st.integers(0, len(DTS) - 1), st.booleans()).map(list),
    )


def _config(draw, kind=None):
    kind = kind or draw(st.sampled_from(KINDS))
    if kind in ("nearest", "cumulative"):
        okind = draw(st.sampled_from(["bool", "bool", "real", "int", "nondy"]))
    elif kind in ("passthrough", "ema", "ca"):
        okind = draw(st.sampled_from(["real", "nondy", "int", "bool"] if kind != "ema" else ["real", "nondy", "int"]))
    else:
        okind = draw(st.sampled_from(["real", "real", "int", "nondy"]))
    crit = draw(st.sampled_from(sorted(TCRIT)))
    cfg = {
        "cls": kind,
        "f64": draw(st.integers(0, 4)) == 0,
        "dt": draw(st.sampled_from(DTS + [1.0, 0.5])),
        "dur": draw(st.sampled_from(["3dt", "6dt", "2.5dt", "dt", "0", "3dt", "dt"])),
        "inclusive": draw(st.booleans()),
        "inplace": draw(st.booleans()),
        "obs_kind": okind,
        "shape": draw(st.sampled_from(SHAPES)),
        "tau": draw(st.sampled_from(TAUS)),
        "amp": draw(st.sampled_from(AMPS if kind in ("nearest", "cumulative") else SAMPS)),
        "target": draw(st.sampled_from(TARGETS[okind])),
        "mtol": draw(st.sampled_from(MTOLS)),
        "scale": draw(st.sampled_from(SCALES)),
        "crit": crit,
        "initial": draw(st.sampled_from(["inf", "zero", "nan"])) if kind == "event" else "inf",
        "alpha": draw(st.sampled_from(ALPHAS)),
    }
    if isinstance(cfg["target"], bool):
        cfg["mtol"] = None  # an absolute difference to a Python bool is not defined (torch refuses bool subtraction)
    return cfg


@st.composite
def reducer_case(draw, tier="quick"):
    case = _config(draw)
    inner = 12 if tier == "quick" else 30
    nep = draw(st.sampled_from([1, 1, 2, 2, 3]))
    ops = []
    if draw(st.integers(0, 5)) == 0:  # reset / reads on a reducer that has seen nothing yet
        ops += draw(st.lists(st.one_of(_reset_op(), _view_strategy(), st.just(["dump"]), st.just(["peek"])),
                             min_size=1, max_size=3))
    for e in range(nep):
        body = draw(st.lists(_inner_op(), min_size=2, max_size=inner))
        if draw(st.integers(0, 9)) < 8:
            # construction, not rejection: a few folds first so that reads see real history
            body = draw(st.lists(_fwd_strategy(), min_size=3, max_size=8)) + body
        ops += body
        if e < nep - 1:
            ops.append(draw(_reset_op()))
            if draw(st.integers(0, 4)) == 0:
                ops.append(draw(_reset_op()))
    case["ops"] = ops
    return case


@st.composite
def view_case(draw, tier="quick"):
    case = _config(draw)
    case["dur"] = draw(st.sampled_from(["3dt", "6dt", "2.5dt", "dt", "3dt", "6dt"]))
    if case["dur"] == "dt":
        case["inclusive"] = True  # two slots: the smallest record with something to interpolate
    nf = draw(st.integers(2, 12 if tier == "quick" else 30))
    ops = []
    if draw(st.integers(0, 2)) == 0:  # an earlier epoch wiped by clear: the views below must not see it
        ops += draw(st.lists(_fwd_strategy(), min_size=1, max_size=6))
        ops.append(["clear", draw(st.booleans()), -1])
    ops += [draw(_fwd_strategy()) for _ in range(nf)]
    nv = draw(st.integers(1, 8 if tier == "quick" else 20))
    for _ in range(nv):
        ops.append(draw(_view_strategy()))
        if draw(st.integers(0, 3)) == 0:
            ops.append(draw(_fwd_strategy()))
    case["ops"] = ops
    return case


LEGS = [
    Leg(
        name="functional", run=run_functional, strategy=lambda tier: functional_case(tier),
        quick=500, thorough=5000, quick_shards=4, thorough_shards=8, nt_floor=0.3,
        rule="one of the nine trace functions iterated from trace=None over 1-40 (thorough 80) observations; "
             "non-trivial when some element sees two events of different age with a non-event step between "
             "them (value trace: >= 3 steps with two distinct non-zero inputs) outside the matching band",
    ),
    Leg(
        name="reducer", run=run_reducer, strategy=lambda tier: reducer_case(tier),
        quick=350, thorough=3000, quick_shards=6, thorough_shards=12, nt_floor=0.25,
        rule="operation sequence on one of the ten fold reducers, whole record read back after every op; "
             "non-trivial when some epoch between clears has two events of different age with a non-event "
             "step between (averages / pass-through: three folds, two distinct values) and, for records of "
             ">= 2 slots, at least one decisive off-grid view was compared",
    ),
    Leg(
        name="view", run=run_reducer, strategy=lambda tier: view_case(tier),
        quick=300, thorough=2500, quick_shards=4, thorough_shards=8, nt_floor=0.4,
        rule="filled record then 1-8 (thorough 20) view queries (scalar / per-element tensor / extra time axis; "
             "grid, between samples, tolerance boundary, 2x tolerance, one ulp beside the grid); non-trivial "
             "as for the reducer leg",
    ),
]

ASSUMPTIONS = [
    "CPU only; float32 default dtype, float64 default dtype in ~20 % of cases; complex amplitudes not generated",
    "tolerances: float32 rtol 1e-4 + 1e-5 x (sum of |terms|), float64 rtol 1e-9 + 1e-11 x (sum of |terms|)",
    "record size N is read back from data_.recordsz after construction / dt change (checked against the documented "
    "formula for dyadic dt only; the formula on non-representable ratios is C13's subject)",
    "a dt change is always followed by clear(): RecordReducer.dt documents a reset, RecordTensor.dt documents that "
    "entries are kept, the property states neither; dt changes on a reducer whose storage does not exist "
    "(before the first fold / after clear(keepshape=False)) are generated too (class dt_nostorage)",
    "view times are generated inside [-tolerance, (N-1)*dt] on exact rationals (documented valid range); "
    "tolerance < dt/2",
    "the duration setter of RecordReducer is not exercised (C14's subject)",
    "a tolerance is only combined with numeric targets / numeric observations in the functional leg (torch "
    "refuses subtraction with a bool operand: target=True with tolerance=0.5 raises NotImplementedError)",
    "observations keep one shape between clear(keepshape=False) calls; a new shape is used only after such a clear",
]

"""C18 - delay-adjusted and kernel STDP agree with their formula and with each other.

Legs
  formula   : one cell, one of the seven trainers, scripted pre/post spike histories; after every
              trainer call the updater accumulators (pos - neg) and after every update() the
              parameter are compared with the integer-time reference (pbt.models.dastdp).
  twin      : two cells built alike and driven by the same history; the dedicated rule
              (DelayAdjustedSTDP / STDPD / MSTDP / MSTDPD) against DelayAdjustedKernelSTDP(D) with
              the shipped exponential kernels and the same learning rates / time constants.
  zerodelay : all delays zero: every delay-adjusted rule against plain KernelSTDP with the
              exponential kernels (its unadjusted kernel form) on a twin cell.

Post spikes are scripted through inferno.extra.ExactNeuron (``override``), pre spikes are the
layer input.  No oracle calls an inferno helper; twins are built by re-running the builder.
"""

from __future__ import annotations

import contextlib
import math

import numpy as np
import torch
from hypothesis import strategies as st

from ..harness import HarnessError, Leg, Violation, check, impl
from ..models import dastdp as M

# ------------------------------------------------------------------------------ vocabulary

TRAINERS = ["DASTDP", "DASTDPD", "DAKSTDP", "DAKSTDPD", "KSTDP", "DAMSTDP", "DAMSTDPD"]
PARAM = {"DASTDP": "weight", "DASTDPD": "delay", "DAKSTDP": "weight", "DAKSTDPD": "delay",
         "KSTDP": "weight", "DAMSTDP": "weight", "DAMSTDPD": "delay"}
# branch mapping of (lr_pos, tc_pos, lr_neg, tc_neg): "w" causal <- pos ; "d" causal <- neg
RULE = {"DASTDP": "w", "DASTDPD": "d", "DAKSTDP": "w", "DAKSTDPD": "w", "KSTDP": "w",
        "DAMSTDP": "w", "DAMSTDPD": "d"}
THREE = ("DAMSTDP", "DAMSTDPD")
KERNEL = ("DAKSTDP", "DAKSTDPD", "KSTDP")

DYADIC_DT = [1.0, 0.5, 0.25, 2.0, 1.0]
OTHER_DT = [0.3, 1.3, 0.7, 0.1]
LRS = [1.0, -1.0, 0.5, -0.5, 0.25, -0.25, 0.1, -0.3, 0.0, 2.0]
TCS = [0.5, 1.0, 2.0, 4.0, 8.0, 20.0, 3.3]
SIGNALS = [1.0, -1.0, 0.5, -0.5, 2.0, 0.0, 0.3, -1.5]
SCALES = [1.0, 1.0, 0.5, 2.0, 0.25]
REDUCE = {"sum": torch.sum, "mean": torch.mean, None: None}


def _conv_ok() -> bool:
    """Conv2D cells can only be trained once Conv2D.presyn_receptive works (defect #15, fixed by
    another agent's commit); probe the tree instead of guessing."""
    try:
        from inferno.neural import Conv2D, DeltaCurrent

        c = Conv2D(2, 2, 1, 1, 1.0, 1, synapse=DeltaCurrent.partialconstructor(1.0), delay=0.0)
        c.presyn_receptive(torch.zeros(1, 1, 4))
        return True
    except Exception:  # noqa: BLE001
        return False


_CONV = None


def conv_available() -> bool:
    global _CONV
    if _CONV is None:
        _CONV = _conv_ok()
    return _CONV


@contextlib.contextmanager
def _default_dtype(f64: bool):
    old = torch.get_default_dtype()
    if f64:
        torch.set_default_dtype(torch.float64)
    try:
        with torch.no_grad():
            yield
    finally:
        torch.set_default_dtype(old)


# ------------------------------------------------------------------------------ building


def _geometry(conn: dict):
    """(inshape, outshape, pairs (P,L,2), param shape, mask (P,) of existing synapses)."""
    k = conn["kind"]
    if k == "dense":
        ins, outs = tuple(conn["in"]), tuple(conn["out"])
        pairs, pshape = M.pairs_dense(math.prod(ins), math.prod(outs))
        return ins, outs, pairs, pshape, np.ones(pairs.shape[0], dtype=bool)
    if k == "direct":
        shp = tuple(conn["shape"])
        pairs, pshape = M.pairs_direct(math.prod(shp))
        return shp, shp, pairs, pshape, np.ones(pairs.shape[0], dtype=bool)
    if k == "lateral":
        shp = tuple(conn["shape"])
        n = math.prod(shp)
        pairs, pshape = M.pairs_dense(n, n)
        mask = (1 - np.eye(n, dtype=np.int64)).astype(bool).reshape(-1)
        return shp, shp, pairs, pshape, mask
    if k == "conv":
        pairs, pshape, (oh, ow) = M.pairs_conv2d(
            conn["h"], conn["w"], conn["c"], conn["f"], tuple(conn["kernel"]),
            tuple(conn["stride"]), tuple(conn["padding"]), tuple(conn["dilation"]))
        return ((conn["c"], conn["h"], conn["w"]), (conn["f"], oh, ow), pairs, pshape,
                np.ones(pairs.shape[0], dtype=bool))
    raise ValueError(k)


def _mk_conn(conn: dict, dt: float, dmax, B: int, inplace: bool):
    from inferno.neural import Conv2D, DeltaCurrent, LinearDense, LinearDirect, LinearLateral

    syn = DeltaCurrent.partialconstructor(1.0, inplace=inplace)
    k = conn["kind"]
    if k == "dense":
        c = LinearDense(tuple(conn["in"]), tuple(conn["out"]), dt, synapse=syn, delay=dmax, batch_size=B)
    elif k == "direct":
        c = LinearDirect(tuple(conn["shape"]), dt, synapse=syn, delay=dmax, batch_size=B)
    elif k == "lateral":
        c = LinearLateral(tuple(conn["shape"]), dt, synapse=syn, delay=dmax, batch_size=B)
    else:
        c = Conv2D(conn["h"], conn["w"], conn["c"], conn["f"], dt, tuple(conn["kernel"]),
                   stride=tuple(conn["stride"]), padding=tuple(conn["padding"]),
                   dilation=tuple(conn["dilation"]), synapse=syn, delay=dmax, batch_size=B)
    return c


def _delays(case, P: int, dmax_steps, dt: float) -> np.ndarray:
    """Decode the drawn raw integers into per-parameter delays (float64, before dtype rounding)."""
    if not dmax_steps:
        return np.zeros(P)
    raw, mode = case["draws"], case["dmode"]
    out = np.zeros(P)
    for p in range(P):
        r = raw[p % len(raw)]
        if mode == "grid":
            out[p] = (r % (dmax_steps + 1)) * dt
        elif mode == "quarter":
            out[p] = (r % (4 * dmax_steps + 1)) * dt / 4
        elif mode == "real":
            out[p] = ((r * 0.6180339887) % 1.0) * dmax_steps * dt
        elif mode == "zero":
            out[p] = 0.0
        else:
            raise ValueError(mode)
    return out


def _weights(case, P: int) -> np.ndarray:
    rng = np.random.Generator(np.random.PCG64(case.get("wseed", 0)))
    return rng.integers(-8, 9, size=P).astype(np.float64) / 8.0


def _mk_trainer(kind: str, hp: dict, reduction, inplace: bool, override: bool,
                kw_tensor: bool = False, delayed: bool = False):
    """hp = dict(lr_pos, lr_neg, tc_pos, tc_neg) with the meaning of RULE[kind].
    Returns (trainer, register kwargs)."""
    from inferno.functional import exp_stdp_post_kernel, exp_stdp_pre_kernel
    from inferno.learn import (DelayAdjustedKernelSTDP, DelayAdjustedKernelSTDPD,
                               DelayAdjustedMSTDP, DelayAdjustedMSTDPD, DelayAdjustedSTDP,
                               DelayAdjustedSTDPD, KernelSTDP)

    red = REDUCE[reduction]
    if kind in KERNEL:
        cls = {"DAKSTDP": DelayAdjustedKernelSTDP, "DAKSTDPD": DelayAdjustedKernelSTDPD,
               "KSTDP": KernelSTDP}[kind]

        def kw(lr, tc):
            if kw_tensor:
                return {"learning_rate": torch.tensor(float(lr)), "time_constant": float(tc)}
            return {"learning_rate": float(lr), "time_constant": float(tc)}

        real = dict(kernel_post=exp_stdp_post_kernel, kernel_pre=exp_stdp_pre_kernel,
                    kernel_post_kwargs=kw(hp["lr_pos"], hp["tc_pos"]),
                    kernel_pre_kwargs=kw(hp["lr_neg"], hp["tc_neg"]))
        extra = {"delayed": delayed} if kind == "KSTDP" else {}
        if override:
            decoy = dict(kernel_post=exp_stdp_pre_kernel, kernel_pre=exp_stdp_post_kernel,
                         kernel_post_kwargs={"learning_rate": 0.123, "time_constant": 7.0},
                         kernel_pre_kwargs={"learning_rate": -0.321, "time_constant": 9.0})
            tr = cls(**decoy, batch_reduction=red, inplace=not inplace,
                     **({"delayed": not delayed} if kind == "KSTDP" else {}))
            return tr, dict(real, inplace=inplace, **extra)
        return cls(**real, batch_reduction=red, inplace=inplace, **extra), {}
    cls = {"DASTDP": DelayAdjustedSTDP, "DASTDPD": DelayAdjustedSTDPD,
           "DAMSTDP": DelayAdjustedMSTDP, "DAMSTDPD": DelayAdjustedMSTDPD}[kind]
    real = dict(lr_pos=hp["lr_pos"], lr_neg=hp["lr_neg"], tc_pos=hp["tc_pos"], tc_neg=hp["tc_neg"])
    if override:
        tr = cls(lr_pos=0.123, lr_neg=-0.321, tc_pos=7.0, tc_neg=9.0, batch_reduction=red,
                 inplace=not inplace)
        return tr, dict(real, inplace=inplace)
    return cls(**real, batch_reduction=red, inplace=inplace), {}


class _Cell:
    """One Serial(connection, ExactNeuron) layer with one trainer registered on its cell."""

    def __init__(self, case, kind: str, hp: dict, *, dmax_steps, reduction, delays: np.ndarray | None,
                 delayed: bool = False, override: bool = False, kw_tensor: bool = False):
        from inferno.extra import ExactNeuron
        from inferno.neural import Serial

        self.kind, self.pname = kind, PARAM[kind]
        dt, B = case["dt"], case["B"]
        self.dt, self.B = dt, B
        self.ins, self.outs, self.pairs, self.pshape, self.mask = _geometry(case["conn"])
        self.P = self.pairs.shape[0]
        self.dmax = None if dmax_steps is None else dmax_steps * dt
        inplace = bool(case.get("inplace", False))
        with impl(f"construct {kind} cell"):
            self.conn = _mk_conn(case["conn"], dt, self.dmax, B, inplace)
            self.conn.updater = self.conn.defaultupdater()
            self.neuron = ExactNeuron(self.outs, dt, rest_v=-60.0, thresh_v=-45.0, batch_size=B)
            self.layer = Serial(self.conn, self.neuron)
            dtype = torch.get_default_dtype()
            self.conn.weight = torch.tensor(_weights(case, self.P).reshape(self.pshape), dtype=dtype)
            if self.dmax is not None and delays is not None:
                self.conn.delay = torch.tensor(delays.reshape(self.pshape), dtype=dtype)
            self.trainer, regkw = _mk_trainer(kind, hp, reduction, inplace, override, kw_tensor, delayed)
            self.trainer.register_cell("cell", self.layer.cell, **regkw)

    # -- driving
    def step(self, pre: np.ndarray, post: np.ndarray, signal=None, scale: float = 1.0, bool_in: bool = True):
        dtype = torch.bool if bool_in else torch.get_default_dtype()
        pre_t = torch.tensor(pre.reshape((self.B,) + tuple(self.ins))).to(dtype)
        post_t = torch.tensor(post.reshape((self.B,) + tuple(self.outs)))
        with impl(f"{self.kind}: layer step + trainer()"):
            self.layer(pre_t, neuron_kwargs={"override": post_t})
            if self.kind in THREE:
                sig = signal
                if isinstance(signal, (list, tuple)):
                    sig = torch.tensor(signal, dtype=torch.get_default_dtype())
                self.trainer(sig, scale=scale)
            else:
                self.trainer()

    def net(self) -> np.ndarray:
        """pos - neg of the accumulator of the trained parameter, flattened (P,)."""
        with impl(f"{self.kind}: read updater.{self.pname}"):
            acc = getattr(self.conn.updater, self.pname)
            pos, neg = acc.pos, acc.neg
        out = np.zeros(self.P)
        for sgn, part in ((1.0, pos), (-1.0, neg)):
            if part is None:
                continue
            check(tuple(part.shape) == tuple(self.pshape), "acc:shape",
                  lambda: f"{self.kind}: accumulator part shape {tuple(part.shape)} != parameter shape {self.pshape}")
            out += sgn * part.detach().to(torch.float64).numpy().reshape(-1)
        return out

    def param(self, name: str | None = None) -> np.ndarray:
        with impl("read parameter"):
            p = getattr(self.conn, name or self.pname)
        return p.detach().to(torch.float64).numpy().reshape(-1).copy()

    def delays(self) -> np.ndarray:
        if self.dmax is None:
            return np.zeros(self.P)
        return self.param("delay")

    def set_delays(self, d: np.ndarray):
        with impl("assign connection.delay"):
            self.conn.delay = torch.tensor(np.asarray(d).reshape(self.pshape), dtype=torch.get_default_dtype())

    def update(self):
        with impl(f"{self.kind}: connection.update()"):
            self.conn.update()


def _bits(masks, n: int) -> np.ndarray:
    return np.array([[(m >> j) & 1 for j in range(n)] for m in masks], dtype=bool)


def _close(got, want, abssum, err, scale, rtol):
    tol = rtol * abssum + err + 1e-7 * scale + 1e-12
    return np.abs(got - want) <= tol, tol


def _hp(case) -> dict:
    return {k: case[k] for k in ("lr_pos", "lr_neg", "tc_pos", "tc_neg")}


# ------------------------------------------------------------------------------ leg: formula


def _model_step(kind, hp, reduction_eff, td, band, signal, scale):
    """Reference net change (P,), sum of |terms| (P,) and a bound (P,) on the effect of float
    rounding of t_delta (|term| * band / tau), for one trainer call."""
    ac, tc, aa, ta = M.branches(RULE[kind], hp["lr_pos"], hp["lr_neg"], hp["tc_pos"], hp["tc_neg"])
    valid = ~np.isnan(td)
    t = np.where(valid, td, 0.0)
    causal = t >= 0
    mag = np.where(causal, abs(ac) * np.exp(-np.abs(t) / tc), abs(aa) * np.exp(-np.abs(t) / ta))
    mag = np.where(valid, mag, 0.0)
    sens = mag * band / np.where(causal, tc, ta)
    if kind in THREE:
        net = M.three_factor_update(td, RULE[kind], hp["lr_pos"], hp["lr_neg"], hp["tc_pos"],
                                    hp["tc_neg"], reduction_eff, signal, scale)
        g = abs(scale) * (np.abs(np.asarray(signal, dtype=np.float64)).reshape(-1, 1, 1)
                          if np.ndim(signal) > 0 else abs(float(signal)))
        mag, sens = mag * g, sens * g
    else:
        net = M.two_factor_update(td, RULE[kind], hp["lr_pos"], hp["lr_neg"], hp["tc_pos"],
                                  hp["tc_neg"], reduction_eff)
    div = mag.shape[0] if reduction_eff == "mean" else 1
    return net, mag.sum((0, 2)) / div, sens.sum((0, 2)) / div


def run_formula(case) -> dict:
    kind = case["trainer"]
    with _default_dtype(case.get("f64", False)):
        return _run_formula(case, kind)


def _run_formula(case, kind):
    hp = _hp(case)
    dt, B = case["dt"], case["B"]
    dms = case["dmax_steps"]
    red = case["reduction"]
    red_eff = red or ("sum" if kind in THREE else "mean")  # documented defaults
    ins, outs, pairs, pshape, mask = _geometry(case["conn"])
    P = pairs.shape[0]
    d0 = np.zeros(P) if kind == "KSTDP" else _delays(case, P, dms, dt)
    cell = _Cell(case, kind, hp, dmax_steps=dms, reduction=red, delays=d0,
                 delayed=case.get("delayed", False), override=case.get("override", False),
                 kw_tensor=case.get("kw_tensor", False))
    pname = cell.pname
    n_pre, n_post = math.prod(ins), math.prod(outs)
    ls = M.LastSpikes(B, n_pre, n_post)
    if kind == "KSTDP":
        check(not np.any(cell.delays()), "setup:kstdp-delays", "KernelSTDP leg must have zero delays")
    w_model = cell.param()             # trained parameter, model copy (float64)
    dt_dy = M.is_dyadic(dt)
    scale_lr = (abs(hp["lr_pos"]) + abs(hp["lr_neg"])) * pairs.shape[1] * (B if red_eff == "sum" else 1)

    acc = np.zeros(P)
    acc_abs = np.zeros(P)
    acc_err = np.zeros(P)
    acc_amb = np.zeros(P, dtype=bool)
    acc_touched = np.zeros(P, dtype=bool)
    acc_scale = 0.0
    n_c = n_a = n_z = n_amb = n_silent = n_cmp_nz = n_upd = 0
    for si, stp in enumerate(case["steps"]):
        pre, post = _bits(stp["pre"], n_pre), _bits(stp["post"], n_post)
        signal, gscale = stp.get("signal", 1.0), stp.get("scale", 1.0)
        d_impl = cell.delays()
        cell.step(pre, post, signal, gscale, bool_in=case.get("bool_in", True))
        ls.step(pre, post)
        # d(t): the delays the connection actually holds when the step is taken (one-step form:
        # a delay-learning history never compounds a rounding residue into a different branch)
        td, valid, band = M.tdelta(ls, pairs, dt, d_impl)
        exact_p = np.array([dt_dy and M.is_dyadic(d_impl[p]) for p in range(P)])
        amb_e = valid & (np.abs(np.nan_to_num(td)) <= band) & ~exact_p[None, :, None]
        amb_p = amb_e.any((0, 2))
        if td.size <= 24:
            # model self-check: [t_delta == 0] on exact rationals of the stored floats agrees with
            # the float64 evaluation wherever the case is called decisive, and lies inside the
            # band otherwise (an oracle inconsistency is a harness error, never a violation)
            ez = M.tdelta_exact_zero(ls, pairs, dt, d_impl)
            ex = exact_p[None, :, None]
            if (valid & ex & ((np.nan_to_num(td, nan=1.0) == 0) != ez)).any() or (valid & ~ex & ez & ~amb_e).any():
                raise HarnessError("reference model: float64 and exact-rational t_delta == 0 disagree")
        net, abssum, err = _model_step(kind, hp, red_eff, td, band, signal, gscale)
        gmax = (abs(gscale) * float(np.max(np.abs(signal)))) if kind in THREE else 1.0
        acc += net
        acc_abs += abssum
        acc_err += err
        acc_amb |= amb_p
        acc_touched |= valid.any((0, 2))
        acc_scale += scale_lr * gmax
        c_, a_, z_ = M.branch_counts(np.where((amb_e | ~mask[None, :, None]), np.nan, td))
        n_c, n_a, n_z = n_c + c_, n_a + a_, n_z + z_
        n_amb += int((amb_p & mask).sum())

        got = cell.net()
        what = f"step {si} ({kind}, {case['conn']['kind']}, updater.{pname})"
        ok, tol = _close(got, acc, acc_abs, acc_err, acc_scale, 1e-4)
        cmp = mask & ~acc_amb
        bad = cmp & ~ok
        if bad.any():
            p = int(np.argmax(bad))
            b_td = td[:, p, :].tolist()
            raise Violation(
                "formula:step",
                f"{what}: pos-neg of element {p} = {got[p]!r}, documented {acc[p]!r} (tol {tol[p]:.3g}); "
                f"t_delta[b][l]={b_td} d={d_impl[p]} dt={dt}",
                {"trainer": kind, "conn": case["conn"]["kind"], "step": si})
        # no change while a side has not spiked yet: exactly zero
        silent = mask & ~acc_touched
        if silent.any():
            n_silent += int(silent.sum())
            bad = silent & (got != 0)
            if bad.any():
                p = int(np.argmax(bad))
                raise Violation("formula:silent",
                                f"{what}: element {p} changes by {got[p]!r} although one side of every pair "
                                f"in its receptive field has not spiked yet",
                                {"trainer": kind, "conn": case["conn"]["kind"], "step": si})
        n_cmp_nz += int((cmp & (np.abs(acc) > 1e-9)).sum())

        if stp.get("update", True):
            before = cell.param()
            cell.update()
            after = cell.param()
            n_upd += 1
            w_model = w_model + np.where(mask, acc, 0.0)
            # one-step form: parameter moved by the accumulated documented change
            ok1, tol1 = _close(after - before, np.where(mask, acc, 0.0), acc_abs, acc_err + 4e-7 * np.abs(before) + 4e-7 * np.abs(after), acc_scale, 1e-4)
            bad = ~acc_amb & ~ok1
            if bad.any():
                p = int(np.argmax(bad))
                raise Violation("formula:update",
                                f"{what}: update() moved element {p} by {after[p] - before[p]!r}, "
                                f"accumulated documented change {acc[p]!r}",
                                {"trainer": kind, "conn": case["conn"]["kind"], "step": si})
            # cumulative form: model parameter carried independently in float64
            tolc = 1e-4 * np.abs(w_model) + 2e-6 * (n_upd + 1) * max(1.0, acc_scale, float(np.max(np.abs(w_model)))) + acc_err
            bad = ~acc_amb & (np.abs(after - w_model) > tolc)
            if bad.any():
                p = int(np.argmax(bad))
                raise Violation("formula:cumulative",
                                f"{what}: {pname}[{p}] after update() = {after[p]!r}, reference {w_model[p]!r}",
                                {"trainer": kind, "conn": case["conn"]["kind"], "step": si})
            w_model = np.where(acc_amb, after, w_model)  # resync elements judged inside the band
            if pname == "delay":
                # keep delays inside the connection's documented range (harness-side clamp on both)
                hi = cell.dmax
                clamped_i = np.clip(after, 0.0, hi)
                clamped_m = np.clip(w_model, 0.0, hi)
                # elements that sit within rounding of a bound: follow the implementation
                near = (np.abs(after - clamped_i) > 0) != (np.abs(w_model - clamped_m) > 0)
                clamped_m = np.where(near, clamped_i, clamped_m)
                cell.set_delays(clamped_i)
                w_model = np.where(mask, clamped_m, 0.0)
            acc[:] = 0
            acc_abs[:] = 0
            acc_err[:] = 0
            acc_amb[:] = False
            acc_touched[:] = False
            acc_scale = 0.0

    dd = np.unique(np.round(d0[mask], 9)).size
    cls = [f"trainer={kind}", f"conn={case['conn']['kind']}", f"dt={'dyadic' if dt_dy else 'other'}",
           f"B={B}", f"red={red}"]
    if n_z:
        cls.append("tdelta==0 decisive")
    if dd >= 2:
        cls.append("delays>=2 distinct")
    if n_amb:
        cls.append("band")
    if n_silent:
        cls.append("silent-side checked")
    if n_c and n_a:
        cls.append("both branches")
    if case.get("f64"):
        cls.append("f64")
    nt = bool(n_c and n_a and n_silent and n_cmp_nz)
    return {"nt": nt, "cls": cls, "amb": n_amb, "n_c": n_c, "n_a": n_a, "n_z": n_z, "n_nz": n_cmp_nz}


# ------------------------------------------------------------------------------ legs: twin / zerodelay

# pair -> (dedicated rule, kernel twin, parameter compared on each side)
TWIN_PAIRS = {
    "w": ("DASTDP", "DAKSTDP"),
    "d": ("DASTDPD", "DAKSTDPD"),
    "mw": ("DAMSTDP", "DAKSTDP"),
    "md": ("DAMSTDPD", "DAKSTDPD"),
}
ZERO_FIRST = ["DASTDP", "DAKSTDP", "DASTDPD", "DAKSTDPD", "DAMSTDP", "DAMSTDPD"]


def _kernel_hp(kind_a: str, hp: dict, g: float = 1.0) -> dict:
    """Learning rates / time constants of the exponential kernels that the docstrings make
    equivalent to the dedicated rule ``kind_a``: kernel_post acts on t_delta >= 0, kernel_pre on
    t_delta < 0; a constant reward gamma*M scales both learning rates."""
    ac, tc, aa, ta = M.branches(RULE[kind_a], hp["lr_pos"], hp["lr_neg"], hp["tc_pos"], hp["tc_neg"])
    return {"lr_pos": ac * g, "tc_pos": tc, "lr_neg": aa * g, "tc_neg": ta}


def _run_twins(case, kind_a: str, kind_b: str, zero: bool) -> dict:
    hp = _hp(case)
    dt, B = case["dt"], case["B"]
    dms_a = case["dmax_steps"]
    red = case["reduction"]  # explicit on both sides: the defaults differ between the families
    ins, outs, pairs, pshape, mask = _geometry(case["conn"])
    P = pairs.shape[0]
    n_pre, n_post = math.prod(ins), math.prod(outs)
    three = kind_a in THREE
    signal, gscale = (case.get("signal", 1.0), case.get("scale", 1.0)) if three else (1.0, 1.0)
    g = abs(gscale) * signal if three else 1.0
    d0 = np.zeros(P) if zero else _delays(case, P, dms_a, dt)
    a = _Cell(case, kind_a, hp, dmax_steps=dms_a, reduction=red, delays=d0,
              override=case.get("override", False), kw_tensor=case.get("kw_tensor", False))
    dms_b = case.get("dmax_steps_b", dms_a) if zero else dms_a
    b = _Cell(case, kind_b, _kernel_hp(kind_a, hp, g), dmax_steps=dms_b, reduction=red,
              delays=d0, delayed=case.get("delayed", False),
              override=case.get("override_b", False), kw_tensor=case.get("kw_tensor", False))
    ls = M.LastSpikes(B, n_pre, n_post)
    red_eff = red
    scale = (abs(hp["lr_pos"]) + abs(hp["lr_neg"])) * pairs.shape[1] * (B if red_eff == "sum" else 1) * max(abs(g), 1e-3)
    n_c = n_a = n_z = n_nz = n_silent = 0
    for si, stp in enumerate(case["steps"]):
        pre, post = _bits(stp["pre"], n_pre), _bits(stp["post"], n_post)
        d_a = a.delays()
        if zero:
            check(not np.any(d_a) and not np.any(b.delays()), "setup:zero-delays", "delays must be zero in this leg")
        a.step(pre, post, signal, gscale, bool_in=case.get("bool_in", True))
        b.step(pre, post, bool_in=case.get("bool_in", True))
        ls.step(pre, post)
        # the reference is used for classification and for the magnitude of the tolerance only
        td, valid, band = M.tdelta(ls, pairs, dt, d_a)
        c_, a_, z_ = M.branch_counts(np.where(mask[None, :, None], td, np.nan))
        n_c, n_a, n_z = n_c + c_, n_a + a_, n_z + z_
        hpk = _kernel_hp(kind_a, hp, g)
        _, abssum, _ = _model_step("DAKSTDP", hpk, red_eff, td, band, 1.0, 1.0)
        ga, gb = a.net(), b.net()
        what = f"step {si}: {kind_a}.{a.pname} vs {kind_b}.{b.pname} ({case['conn']['kind']})"
        tol = 1e-5 * abssum + 1e-7 * scale + 1e-12
        bad = mask & (np.abs(ga - gb) > tol)
        if bad.any():
            p = int(np.argmax(bad))
            raise Violation(
                "twin:step" if not zero else "zero:step",
                f"{what}: element {p}: {ga[p]!r} vs {gb[p]!r} (tol {tol[p]:.3g}); t_delta[b][l]={td[:, p, :].tolist()} "
                f"d={d_a[p]} dt={dt}",
                {"a": kind_a, "b": kind_b, "conn": case["conn"]["kind"], "step": si})
        n_nz += int((mask & (np.abs(ga) > 1e-9)).sum())
        n_silent += int((mask & ~valid.any((0, 2))).sum())
        # apply on both sides, compare the movement of the trained parameters
        pa0, pb0 = a.param(), b.param()
        a.update()
        b.update()
        pa1, pb1 = a.param(), b.param()
        tolu = tol + 4e-7 * (np.abs(pa0) + np.abs(pa1) + np.abs(pb0) + np.abs(pb1))
        bad = (np.abs((pa1 - pa0) - (pb1 - pb0)) > tolu)
        if bad.any():
            p = int(np.argmax(bad))
            raise Violation(
                "twin:update" if not zero else "zero:update",
                f"{what}: update() moved element {p} by {pa1[p] - pa0[p]!r} vs {pb1[p] - pb0[p]!r}",
                {"a": kind_a, "b": kind_b, "conn": case["conn"]["kind"], "step": si})
        # identical histories: a learned delay must be the same tensor on both sides next step
        if a.pname == "delay":
            if zero:
                a.set_delays(np.zeros(P))
            else:
                newd = np.clip(pa1, 0.0, a.dmax)
                a.set_delays(newd)
                if b.pname == "delay":
                    b.set_delays(newd)
        if b.pname == "delay" and zero:
            b.set_delays(np.zeros(P))

    dd = np.unique(np.round(d0[mask], 9)).size
    cls = [f"pair={kind_a}~{kind_b}", f"conn={case['conn']['kind']}", f"B={B}", f"red={red}",
           f"dt={'dyadic' if M.is_dyadic(dt) else 'other'}"]
    if n_z:
        cls.append("tdelta==0")
    if dd >= 2:
        cls.append("delays>=2 distinct")
    if n_c and n_a:
        cls.append("both branches")
    if zero:
        cls.append(f"kstdp:delayed={case.get('delayed', False)},dmax_b={case.get('dmax_steps_b', dms_a)}")
    nt = bool(n_c and n_a and n_nz and n_silent)
    return {"nt": nt, "cls": cls}


def run_twin(case) -> dict:
    ka, kb = TWIN_PAIRS[case["pair"]]
    with _default_dtype(case.get("f64", False)):
        return _run_twins(case, ka, kb, zero=False)


def run_zerodelay(case) -> dict:
    with _default_dtype(case.get("f64", False)):
        return _run_twins(case, case["first"], "KSTDP", zero=True)


# ------------------------------------------------------------------------------ generators


def _conn_strategy(tier):
    small = st.sampled_from
    opts = [
        st.builds(lambda i, o: {"kind": "dense", "in": i, "out": o},
                  small([[1], [2], [3], [2, 2], [4]]), small([[1], [2], [3], [1, 2]])),
        st.builds(lambda s: {"kind": "direct", "shape": s}, small([[1], [2], [3], [2, 2], [5]])),
        st.builds(lambda s: {"kind": "lateral", "shape": s}, small([[2], [3], [2, 2]])),
    ]
    if conv_available():
        def mk(h, w, c, f, kh, kw, s, p, d):
            kh, kw = min(kh, h + 2 * p), min(kw, w + 2 * p)
            # keep the dilated kernel inside the padded input (output size >= 1)
            if d * (kh - 1) + 1 > h + 2 * p or d * (kw - 1) + 1 > w + 2 * p:
                d = 1
            return {"kind": "conv", "h": h, "w": w, "c": c, "f": f, "kernel": [kh, kw],
                    "stride": [s, s], "padding": [p, p], "dilation": [d, d]}
        opts.append(st.builds(mk, small([2, 3, 4]), small([2, 3]), small([1, 2]), small([1, 2]),
                              small([1, 2, 2]), small([1, 2]), small([1, 1, 2]), small([0, 0, 1]),
                              small([1, 1, 2])))
    return st.one_of(*opts)


def _n_of(conn):
    ins, outs, pairs, _, _ = _geometry(conn)
    return math.prod(ins), math.prod(outs)


@st.composite
def _history(draw, n_pre, n_post, B, tmax, three, vector_ok):
    T = draw(st.integers(3, tmax))
    sparse_pre = draw(st.booleans())
    sparse_post = draw(st.booleans())
    late_post = draw(st.integers(0, 3))  # steps at the start in which no post neuron fires
    steps = []

    def mask(n, sparse):
        m = draw(st.integers(0, (1 << n) - 1))
        if sparse:
            m &= draw(st.integers(0, (1 << n) - 1))
        return m

    for t in range(T):
        stp = {"pre": [mask(n_pre, sparse_pre) for _ in range(B)],
               "post": [0 if t < late_post else mask(n_post, sparse_post) for _ in range(B)],
               "update": draw(st.integers(0, 5)) > 0}
        if three:
            if vector_ok and draw(st.integers(0, 2)) == 0:
                stp["signal"] = [draw(st.sampled_from(SIGNALS)) for _ in range(B)]
            else:
                stp["signal"] = draw(st.sampled_from(SIGNALS))
            stp["scale"] = draw(st.sampled_from(SCALES))
        steps.append(stp)
    return steps


def _common(draw, tier, zero_delays=False):
    conn = draw(_conn_strategy(tier))
    B = draw(st.sampled_from([1, 2, 2, 3]))
    dyadic = draw(st.integers(0, 9)) < 7
    dt = draw(st.sampled_from(DYADIC_DT if dyadic else OTHER_DT))
    case = {
        "conn": conn, "B": B, "dt": dt,
        "lr_pos": draw(st.sampled_from(LRS)), "lr_neg": draw(st.sampled_from(LRS)),
        "tc_pos": draw(st.sampled_from(TCS)), "tc_neg": draw(st.sampled_from(TCS)),
        "inplace": draw(st.booleans()),
        "override": draw(st.integers(0, 3)) == 0,
        "kw_tensor": draw(st.integers(0, 4)) == 0,
        "bool_in": draw(st.integers(0, 3)) > 0,
        "f64": draw(st.integers(0, 7)) == 0,
        "wseed": draw(st.integers(0, 1000)),
    }
    if zero_delays:
        case["dmax_steps"] = draw(st.sampled_from([0, 0, 1, 3]))
        case["dmode"], case["draws"] = "zero", [0]
    else:
        case["dmax_steps"] = draw(st.sampled_from([0, 1, 2, 3, 3, 4, 6]))
        case["dmode"] = draw(st.sampled_from(["grid", "grid", "grid", "quarter", "real", "zero"]))
        case["draws"] = draw(st.lists(st.integers(0, 48), min_size=1, max_size=8))
    return case


@st.composite
def formula_case(draw, tier="quick"):
    kind = draw(st.sampled_from(TRAINERS))
    case = _common(draw, tier, zero_delays=(kind == "KSTDP"))
    case["trainer"] = kind
    three = kind in THREE
    if kind == "KSTDP":
        case["dmax_steps"] = draw(st.sampled_from([None, 0, 0, 2, 3]))
        case["delayed"] = draw(st.booleans())
    case["reduction"] = draw(st.sampled_from([None, "sum", "mean"]))
    n_pre, n_post = _n_of(case["conn"])
    tmax = 12 if tier == "quick" else 36
    vector_ok = three and case["reduction"] in (None, "sum")
    case["steps"] = draw(_history(n_pre, n_post, case["B"], tmax, three, vector_ok))
    return case


@st.composite
def twin_case(draw, tier="quick"):
    case = _common(draw, tier)
    case["pair"] = draw(st.sampled_from(["w", "w", "d", "d", "mw", "md"]))
    case["reduction"] = draw(st.sampled_from(["sum", "mean"]))
    case["override_b"] = draw(st.integers(0, 3)) == 0
    if case["pair"] in ("mw", "md"):
        case["signal"] = draw(st.sampled_from(SIGNALS))
        case["scale"] = draw(st.sampled_from(SCALES))
    n_pre, n_post = _n_of(case["conn"])
    tmax = 10 if tier == "quick" else 30
    case["steps"] = draw(_history(n_pre, n_post, case["B"], tmax, False, False))
    return case


@st.composite
def zero_case(draw, tier="quick"):
    case = _common(draw, tier, zero_delays=True)
    case["first"] = draw(st.sampled_from(ZERO_FIRST))
    case["reduction"] = draw(st.sampled_from(["sum", "mean"]))
    case["override_b"] = draw(st.integers(0, 3)) == 0
    # the plain KernelSTDP twin may sit on a connection without / with unused / with used delay storage
    case["dmax_steps_b"] = draw(st.sampled_from([None, 0, case["dmax_steps"], 2]))
    case["delayed"] = draw(st.booleans())
    if case["first"] in THREE:
        case["signal"] = draw(st.sampled_from(SIGNALS))
        case["scale"] = draw(st.sampled_from(SCALES))
    n_pre, n_post = _n_of(case["conn"])
    tmax = 10 if tier == "quick" else 30
    case["steps"] = draw(_history(n_pre, n_post, case["B"], tmax, False, False))
    return case


def _small_cases(tier):
    """Every pre/post history of length T on a single synapse (LinearDirect, one neuron, B = 1,
    dt = 1) x every on-grid delay in {0, 1, 2} x every trainer x the four learning-rate sign
    combinations.  All arithmetic is dyadic, so every t_delta == 0 alignment is decisive."""
    T = 3 if tier == "quick" else 4
    sigs = [1.0, -0.5, 2.0, -1.0]
    for kind in TRAINERS:
        for k in ([0] if kind == "KSTDP" else [0, 1, 2]):
            for sp in (1.0, -1.0):
                for sn in (0.5, -0.5):
                    for hist in range(1 << (2 * T)):
                        steps = []
                        for t in range(T):
                            stp = {"pre": [(hist >> (2 * t)) & 1], "post": [(hist >> (2 * t + 1)) & 1],
                                   "update": True}
                            if kind in THREE:
                                stp["signal"], stp["scale"] = sigs[t], 0.5
                            steps.append(stp)
                        yield {"trainer": kind, "conn": {"kind": "direct", "shape": [1]}, "B": 1,
                               "dt": 1.0, "lr_pos": sp, "lr_neg": sn, "tc_pos": 2.0, "tc_neg": 4.0,
                               "inplace": False, "override": False, "kw_tensor": False, "bool_in": True,
                               "f64": False, "wseed": 0, "dmax_steps": 2, "dmode": "grid", "draws": [k],
                               "reduction": None, "delayed": bool(k == 0 and sp > 0), "steps": steps}


def run_small(case) -> dict:
    out = run_formula(case)
    # non-trivial here: the synapse is compared at least once with a non-zero documented change
    # (i.e. both sides have spiked within the T steps)
    out["nt"] = bool(out["n_nz"])
    out["cls"] = [c for c in out["cls"] if c.startswith(("trainer=", "tdelta", "both", "silent"))]
    if out["n_c"]:
        out["cls"].append("causal")
    if out["n_a"]:
        out["cls"].append("anti-causal")
    return out


LEGS = [
    Leg(
        name="formula", run=run_formula, strategy=lambda tier: formula_case(tier),
        quick=170, thorough=1500, quick_shards=6, thorough_shards=8, nt_floor=0.3,
        rule="history in which both the causal (t_delta >= 0) and the anti-causal branch are taken on "
             "decisive (outside-band) pairs, at least one parameter element is checked to stay "
             "exactly unchanged while a side of its pairs is still silent, and at least one compared "
             "element has a non-zero documented change; distinct by SHA-1 of the case",
    ),
    Leg(
        name="small", run=run_small, enumerate=_small_cases,
        quick_shards=6, thorough_shards=6, nt_floor=0.3,
        rule="exhaustive: all 4^T pre/post histories of one synapse (T = 3 quick, 4 thorough) x delay "
             "in {0, 1, 2} steps x 7 trainers x 4 learning-rate sign modes; non-trivial when both "
             "sides spike within the T steps, so that a non-zero documented change is compared",
        exhaustive_note="finite domain (single synapse, dyadic values) enumerated completely",
    ),
    Leg(
        name="twin", run=run_twin, strategy=lambda tier: twin_case(tier),
        quick=150, thorough=1500, quick_shards=4, thorough_shards=4, nt_floor=0.3,
        rule="twin cells (dedicated rule vs delay-adjusted kernel rule with the exponential kernels) "
             "whose common history takes both branches, produces a non-zero update and contains a "
             "step with a still-silent side",
    ),
    Leg(
        name="zerodelay", run=run_zerodelay, strategy=lambda tier: zero_case(tier),
        quick=150, thorough=1500, quick_shards=4, thorough_shards=4, nt_floor=0.3,
        rule="all delays zero; delay-adjusted rule vs plain KernelSTDP (exponential kernels) on twin "
             "cells whose common history takes both branches, produces a non-zero update and "
             "contains a step with a still-silent side",
    ),
]

ASSUMPTIONS = [
    "CPU only; float32 as shipped, float64 default dtype in 1/8 of the cases",
    "post spikes are scripted with inferno.extra.ExactNeuron(override=...), synapses are DeltaCurrent",
    "batch reductions torch.sum / torch.mean (and the documented defaults); per-sample reward "
    "tensors only with the (default) sum reduction, as the trainers' docs require",
    "delays of the delay-learning variants are clamped into [0, delayedby] by the harness after "
    "every update() (on implementation and reference alike)",
    "pairs with |t_delta| inside a float-rounding band (non-dyadic dt or delay) are not judged "
    "(counted ambiguous); with dyadic dt and delays t_delta == 0 is decisive",
    "KernelSTDP is exercised with all delays zero only (the property makes no claim about its "
    "arrival-time semantics on delayed connections)",
]

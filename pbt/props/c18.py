"""C18 - delay-adjusted and kernel STDP agree with their formula and with each other.

Legs
  formula   : one cell, one of the seven trainers, scripted pre/post spike histories; after every
              trainer call the updater accumulators (pos - neg) and after every update() the
              parameter are compared with the integer-time reference (pbt.models.dastdp).
  twin      : two cells built alike and driven by the same history; the dedicated rule
              (DelayAdjustedSTDP / STDPD / MSTDP / MSTDPD) against DelayAdjustedKernelSTDP(D) with
              the shipped exponential kernels and the same learning rates / time constants.
  zerodelay : all delays zero: every delay-adjusted rule against plain KernelSTDP with the
              exponential kernels (its unadjusted kernel form) on a twin cell.

Post spikes are scripted through inferno.extra.ExactNeuron (``override``), pre spikes are the
layer input.  No oracle calls an inferno helper; twins are built by re-running the builder.
"""

from __future__ import annotations

import contextlib
import math

import numpy as np
import torch
from hypothesis import strategies as st

from ..harness import HarnessError, Leg, Violation, check, impl
from ..models import dastdp as M

# ------------------------------------------------------------------------------ vocabulary

TRAINERS = ["DASTDP", "DASTDPD", "DAKSTDP", "DAKSTDPD", "KSTDP", "DAMSTDP", "DAMSTDPD"]
PARAM = {"DASTDP": "weight", "DASTDPD": "delay", "DAKSTDP": "weight", "DAKSTDPD": "delay",
         "KSTDP": "weight", "DAMSTDP": "weight", "DAMSTDPD": "delay"}
# branch mapping of (lr_pos, tc_pos, lr_neg, tc_neg): "w" causal <- pos ; "d" causal <- neg
RULE = {"DASTDP": "w", "DASTDPD": "d", "DAKSTDP": "w", "DAKSTDPD": "w", "KSTDP": "w",
        "DAMSTDP": "w", "DAMSTDPD": "d"}
THREE = ("DAMSTDP", "DAMSTDPD")
KERNEL = ("DAKSTDP", "DAKSTDPD", "KSTDP")

DYADIC_DT = [1.0, 0.5, 0.25, 2.0, 1.0]
OTHER_DT = [0.3, 1.3, 0.7, 0.1]
LRS = [1.0, -1.0, 0.5, -0.5, 0.25, -0.25, 0.1, -0.3, 0.0, 2.0]
TCS = [0.5, 1.0, 2.0, 4.0, 8.0, 20.0, 3.3, 0.25]
SHORT_TCS = [0.1, 0.25, 0.5]
NEAR = 2.0 ** -10  # dyadic offset below the 1e-3 tolerance stratum
SIGNALS = [1.0, -1.0, 0.5, -0.5, 2.0, 0.0, 0.3, -1.5]
SCALES = [1.0, 1.0, 0.5, 2.0, 0.25]
REDUCE = {"sum": torch.sum, "mean": torch.mean, None: None}


def _conv_ok() -> bool:
    """Conv2D cells can only be trained once Conv2D.presyn_receptive works (defect #15, fixed by
    another agent's commit); probe the tree instead of guessing."""
    try:
        from inferno.neural import Conv2D, DeltaCurrent

        c = Conv2D(2, 2, 1, 1, 1.0, 1, synapse=DeltaCurrent.partialconstructor(1.0), delay=0.0)
        c.presyn_receptive(torch.zeros(1, 1, 4))
        return True
    except Exception:  # noqa: BLE001
        return False


_CONV = None


def conv_available() -> bool:
    global _CONV
    if _CONV is None:
        _CONV = _conv_ok()
    return _CONV


@contextlib.contextmanager
def _default_dtype(f64: bool):
    old = torch.get_default_dtype()
    if f64:
        torch.set_default_dtype(torch.float64)
    try:
        with torch.no_grad():
            yield
    finally:
        torch.set_default_dtype(old)


# ------------------------------------------------------------------------------ building


def _geometry(conn: dict):
    """(inshape, outshape, pairs (P,L,2), param shape, mask (P,) of existing synapses)."""
    k = conn["kind"]
    if k == "dense":
        ins, outs = tuple(conn["in"]), tuple(conn["out"])
        pairs, pshape = M.pairs_dense(math.prod(ins), math.prod(outs))
        return ins, outs, pairs, pshape, np.ones(pairs.shape[0], dtype=bool)
    if k == "direct":
        shp = tuple(conn["shape"])
        pairs, pshape = M.pairs_direct(math.prod(shp))
        return shp, shp, pairs, pshape, np.ones(pairs.shape[0], dtype=bool)
    if k == "lateral":
        shp = tuple(conn["shape"])
        n = math.prod(shp)
        pairs, pshape = M.pairs_dense(n, n)
        mask = (1 - np.eye(n, dtype=np.int64)).astype(bool).reshape(-1)
        return shp, shp, pairs, pshape, mask
    if k == "conv":
        pairs, pshape, (oh, ow) = M.pairs_conv2d(
            conn["h"], conn["w"], conn["c"], conn["f"], tuple(conn["kernel"]),
            tuple(conn["stride"]), tuple(conn["padding"]), tuple(conn["dilation"]))
        return ((conn["c"], conn["h"], conn["w"]), (conn["f"], oh, ow), pairs, pshape,
                np.ones(pairs.shape[0], dtype=bool))
    raise ValueError(k)


def _mk_conn(conn: dict, dt: float, dmax, B: int, inplace: bool):
    from inferno.neural import Conv2D, DeltaCurrent, LinearDense, LinearDirect, LinearLateral

    syn = DeltaCurrent.partialconstructor(1.0, inplace=inplace)
    k = conn["kind"]
    if k == "dense":
        c = LinearDense(tuple(conn["in"]), tuple(conn["out"]), dt, synapse=syn, delay=dmax, batch_size=B)
    elif k == "direct":
        c = LinearDirect(tuple(conn["shape"]), dt, synapse=syn, delay=dmax, batch_size=B)
    elif k == "lateral":
        c = LinearLateral(tuple(conn["shape"]), dt, synapse=syn, delay=dmax, batch_size=B)
    else:
        c = Conv2D(conn["h"], conn["w"], conn["c"], conn["f"], dt, tuple(conn["kernel"]),
                   stride=tuple(conn["stride"]), padding=tuple(conn["padding"]),
                   dilation=tuple(conn["dilation"]), synapse=syn, delay=dmax, batch_size=B)
    return c


def _delays(case, P: int, dmax_steps, dt: float) -> np.ndarray:
    """Decode the drawn raw integers into per-parameter delays (float64, before dtype rounding)."""
    if not dmax_steps:
        return np.zeros(P)
    raw, mode = case["draws"], case["dmode"]
    out = np.zeros(P)
    for p in range(P):
        r = raw[p % len(raw)]
        if mode == "grid":
            out[p] = (r % (dmax_steps + 1)) * dt
        elif mode == "quarter":
            out[p] = (r % (4 * dmax_steps + 1)) * dt / 4
        elif mode == "real":
            out[p] = ((r * 0.6180339887) % 1.0) * dmax_steps * dt
        elif mode == "near":
            # a hair off the grid: k*dt +- 2**-10 (dyadic, so t_delta = -+2**-10 is decisive)
            k = r % (dmax_steps + 1)
            up = (r // 7) % 2 == 0
            if k == 0:
                up = True
            if k == dmax_steps:
                up = False
            out[p] = k * dt + (NEAR if up else -NEAR)
        elif mode == "zero":
            out[p] = 0.0
        else:
            raise ValueError(mode)
    return out


def _weights(case, P: int) -> np.ndarray:
    rng = np.random.Generator(np.random.PCG64(case.get("wseed", 0)))
    return rng.integers(-8, 9, size=P).astype(np.float64) / 8.0


def _regkw(kind: str, hp: dict, inplace: bool, kw_tensor: bool = False, delayed: bool = False,
           tol: float = 0.0) -> dict:
    """register_cell keyword arguments that carry the real hyperparameters (per-cell override)."""
    from inferno.functional import exp_stdp_post_kernel, exp_stdp_pre_kernel

    if kind in KERNEL:
        def kw(lr, tc):
            if kw_tensor:
                return {"learning_rate": torch.tensor(float(lr)), "time_constant": float(tc)}
            return {"learning_rate": float(lr), "time_constant": float(tc)}

        out = dict(kernel_post=exp_stdp_post_kernel, kernel_pre=exp_stdp_pre_kernel,
                   kernel_post_kwargs=kw(hp["lr_pos"], hp["tc_pos"]),
                   kernel_pre_kwargs=kw(hp["lr_neg"], hp["tc_neg"]), inplace=inplace)
        if kind == "KSTDP":
            out["delayed"] = delayed
            out["interp_tolerance"] = tol
        return out
    return dict(lr_pos=hp["lr_pos"], lr_neg=hp["lr_neg"], tc_pos=hp["tc_pos"], tc_neg=hp["tc_neg"],
                inplace=inplace, interp_tolerance=tol)


def _mk_trainer(kind: str, hp: dict, reduction, inplace: bool, override: bool,
                kw_tensor: bool = False, delayed: bool = False, tol: float = 0.0):
    """hp = dict(lr_pos, lr_neg, tc_pos, tc_neg) with the meaning of RULE[kind].  With ``override``
    the constructor gets decoy defaults and every cell must be registered with _regkw(...)."""
    from inferno.functional import exp_stdp_post_kernel, exp_stdp_pre_kernel
    from inferno.learn import (DelayAdjustedKernelSTDP, DelayAdjustedKernelSTDPD,
                               DelayAdjustedMSTDP, DelayAdjustedMSTDPD, DelayAdjustedSTDP,
                               DelayAdjustedSTDPD, KernelSTDP)

    red = REDUCE[reduction]
    if kind in KERNEL:
        cls = {"DAKSTDP": DelayAdjustedKernelSTDP, "DAKSTDPD": DelayAdjustedKernelSTDPD,
               "KSTDP": KernelSTDP}[kind]
        if override:
            decoy = dict(kernel_post=exp_stdp_pre_kernel, kernel_pre=exp_stdp_post_kernel,
                         kernel_post_kwargs={"learning_rate": 0.123, "time_constant": 7.0},
                         kernel_pre_kwargs={"learning_rate": -0.321, "time_constant": 9.0})
            return cls(**decoy, batch_reduction=red, inplace=not inplace,
                       **({"delayed": not delayed, "interp_tolerance": 0.0 if tol else 0.3}
                          if kind == "KSTDP" else {}))
        real = _regkw(kind, hp, inplace, kw_tensor, delayed, tol)
        return cls(**real, batch_reduction=red)
    cls = {"DASTDP": DelayAdjustedSTDP, "DASTDPD": DelayAdjustedSTDPD,
           "DAMSTDP": DelayAdjustedMSTDP, "DAMSTDPD": DelayAdjustedMSTDPD}[kind]
    if override:
        return cls(lr_pos=0.123, lr_neg=-0.321, tc_pos=7.0, tc_neg=9.0, batch_reduction=red,
                   inplace=not inplace, interp_tolerance=0.0 if tol else 0.3)
    return cls(**_regkw(kind, hp, inplace, tol=tol), batch_reduction=red)


class _Cell:
    """One Serial(connection, ExactNeuron) layer whose cell is registered on a trainer (its own, or
    a trainer shared with other cells)."""

    def __init__(self, case, kind: str, hp: dict, *, dmax_steps, reduction, delays: np.ndarray | None,
                 delayed: bool = False, override: bool = False, kw_tensor: bool = False,
                 trainer=None, name: str = "cell"):
        from inferno.extra import ExactNeuron
        from inferno.neural import Serial

        self.kind, self.pname, self.name = kind, PARAM[kind], name
        dt, B = case["dt"], case["B"]
        self.dt, self.B = dt, B
        self.ins, self.outs, self.pairs, self.pshape, self.mask = _geometry(case["conn"])
        self.P = self.pairs.shape[0]
        self.dmax = None if dmax_steps is None else dmax_steps * dt
        self.via = case.get("upd_via", "connection")
        inplace = bool(case.get("inplace", False))
        tol = float(case.get("itol", 0.0))
        with impl(f"construct {kind} cell"):
            self.conn = _mk_conn(case["conn"], dt, self.dmax, B, inplace)
            self.conn.updater = self.conn.defaultupdater()
            self.updater_obj = self.conn.updater   # kept: the updater may be detached while frozen
            self.neuron = ExactNeuron(self.outs, dt, rest_v=-60.0, thresh_v=-45.0, batch_size=B)
            self.layer = Serial(self.conn, self.neuron)
            dtype = torch.get_default_dtype()
            self.conn.weight = torch.tensor(_weights(case, self.P).reshape(self.pshape), dtype=dtype)
            if self.dmax is not None and delays is not None:
                self.conn.delay = torch.tensor(delays.reshape(self.pshape), dtype=dtype)
            if trainer is None:
                trainer = _mk_trainer(kind, hp, reduction, inplace, override, kw_tensor, delayed, tol)
            self.trainer = trainer
            regkw = _regkw(kind, hp, inplace, kw_tensor, delayed, tol) if override else {}
            self.trainer.register_cell(name, self.layer.cell, **regkw)

    # -- driving
    def forward(self, pre: np.ndarray, post: np.ndarray, bool_in: bool = True):
        dtype = torch.bool if bool_in else torch.get_default_dtype()
        pre_t = torch.tensor(pre.reshape((self.B,) + tuple(self.ins))).to(dtype)
        post_t = torch.tensor(post.reshape((self.B,) + tuple(self.outs)))
        with impl(f"{self.kind}: layer step"):
            self.layer(pre_t, neuron_kwargs={"override": post_t})

    def train(self, signal=None, scale: float = 1.0, only: list | None = None):
        """One trainer call (serves every cell registered on the trainer); ``only`` = the ``cells``
        argument of the three-factor trainers (names of the cells to update)."""
        with impl(f"{self.kind}: trainer()"):
            if self.kind in THREE:
                sig = signal
                if isinstance(signal, (list, tuple)):
                    sig = torch.tensor(signal, dtype=torch.get_default_dtype())
                if only is not None:
                    self.trainer(sig, scale=scale, cells=only)
                else:
                    self.trainer(sig, scale=scale)
            else:
                self.trainer()

    def parts(self):
        """(pos, neg) of the accumulator of the trained parameter, flattened (P,), None -> zeros."""
        with impl(f"{self.kind}: read updater.{self.pname}"):
            acc = getattr(self.updater_obj, self.pname)
            pos, neg = acc.pos, acc.neg
        out = []
        for part in (pos, neg):
            if part is None:
                out.append(np.zeros(self.P))
                continue
            check(tuple(part.shape) == tuple(self.pshape), "acc:shape",
                  lambda: f"{self.kind}: accumulator part shape {tuple(part.shape)} != parameter shape {self.pshape}")
            out.append(part.detach().to(torch.float64).numpy().reshape(-1).copy())
        return out[0], out[1]

    def net(self) -> np.ndarray:
        pos, neg = self.parts()
        return pos - neg

    def param(self, name: str | None = None) -> np.ndarray:
        with impl("read parameter"):
            p = getattr(self.conn, name or self.pname)
        return p.detach().to(torch.float64).numpy().reshape(-1).copy()

    def delays(self) -> np.ndarray:
        if self.dmax is None:
            return np.zeros(self.P)
        return self.param("delay")

    def set_delays(self, d: np.ndarray):
        with impl("assign connection.delay"):
            self.conn.delay = torch.tensor(np.asarray(d).reshape(self.pshape), dtype=torch.get_default_dtype())

    def update(self):
        with impl(f"{self.kind}: {self.via}.update()"):
            if self.via == "layer":
                self.layer.update()
            else:
                self.conn.update()


def _bits(masks, n: int) -> np.ndarray:
    return np.array([[(m >> j) & 1 for j in range(n)] for m in masks], dtype=bool)


def _close(got, want, abssum, err, scale, rtol):
    tol = rtol * abssum + err + 1e-7 * scale + 1e-12
    return np.abs(got - want) <= tol, tol


def _hp(case) -> dict:
    return {k: case[k] for k in ("lr_pos", "lr_neg", "tc_pos", "tc_neg")}


def _subcases(case) -> list[dict]:
    """The cells of a case: the case itself plus case['more'] (each entry overrides connection,
    delays, weights, history and optionally the hyperparameters; B, dt and the trainer are shared)."""
    subs = [case]
    for extra in case.get("more", ()):
        sub = {k: v for k, v in case.items() if k not in ("more", "freeze")}
        sub.update(extra)
        if "hp" in extra:
            sub.update(extra["hp"])
        subs.append(sub)
    gaps = case.get("gaps")
    if gaps:
        # long silences: after step i, n further steps in which no neuron of any cell spikes
        # (reward / update flag of the gap steps as given); applied to every cell alike
        out = []
        for sub in subs:
            sub = dict(sub)
            steps = []
            for i, stp in enumerate(sub["steps"]):
                steps.append(stp)
                for gi, n, upd in gaps:
                    if gi == i:
                        quiet = {"pre": [0] * len(stp["pre"]), "post": [0] * len(stp["post"]), "update": bool(upd)}
                        for k in ("signal", "scale"):
                            if k in stp:
                                quiet[k] = stp[k]
                        steps.extend([quiet] * int(n))
            sub["steps"] = steps
            out.append(sub)
        subs = out
    return subs


def _redelay(cell: _Cell, sub: dict, stp: dict, dms) -> bool:
    """Re-bind the connection's delay parameter before a step (``connection.delay = tensor``)."""
    if "setd" not in stp or not dms or cell.dmax is None:
        return False
    tmp = dict(sub, draws=stp["setd"], dmode=stp.get("setd_mode", "grid"))
    cell.set_delays(_delays(tmp, cell.P, dms, sub["dt"]))
    return True


class _Freeze:
    """A span of steps in which a registered cell is one the trainers document as skipped
    ("skip if self or cell is not in training mode or has no updater"; three-factor rules: not
    named in ``cells``).  kinds:
      cell_eval   cell.eval() ... cell.train(): the layer stays in training mode, so the monitors
                  (registered on the layer) keep recording and the comparison resumes afterwards
      no_updater  del connection.updater ... connection.updater = <same updater>
      cells_arg   three-factor rules only: the cell is left out of forward(..., cells=[...])
      layer_eval  layer.eval() to the end of the history: the monitors stop recording
                  (eval_update=False), so the comparison for this cell ends at the freeze
    Oracle inside the span: the cell's accumulators do not change at all."""

    def __init__(self, cell: _Cell, spec, T: int):
        self.cell, self.kind = cell, None
        self.start = self.stop = -1
        if not spec or T < 2:
            return
        kind = spec["kind"]
        if kind == "cells_arg" and cell.kind not in THREE:
            kind = "cell_eval"
        self.kind = kind
        self.start = spec["start"] % T
        self.stop = self.start + 1 + spec["len"] % (T - self.start)   # exclusive
        if kind == "layer_eval":
            self.stop = T
        self.snap = None

    def active(self, si: int) -> bool:
        return self.kind is not None and self.start <= si < self.stop

    def before_step(self, si: int):
        c = self.cell
        if self.kind is None:
            return
        if si == self.start:
            self.snap = c.parts()
            with impl(f"freeze cell '{c.name}' ({self.kind})"):
                if self.kind == "cell_eval":
                    c.layer.cell.eval()
                elif self.kind == "layer_eval":
                    c.layer.eval()
                elif self.kind == "no_updater":
                    del c.conn.updater
        elif si == self.stop:
            with impl(f"unfreeze cell '{c.name}' ({self.kind})"):
                if self.kind == "cell_eval":
                    c.layer.cell.train()
                elif self.kind == "no_updater":
                    c.conn.updater = c.updater_obj

    def check(self, si: int, info: dict):
        c = self.cell
        pos, neg = c.parts()
        for nm, now, was in (("pos", pos, self.snap[0]), ("neg", neg, self.snap[1])):
            bad = ~((now == was) | (np.isnan(now) & np.isnan(was)))
            if bad.any():
                p = int(np.argmax(bad))
                raise Violation(
                    "freeze:changed",
                    f"step {si}: cell '{c.name}' is frozen ({self.kind}, steps {self.start}..{self.stop - 1}) but "
                    f"the {nm} part of updater.{c.pname}[{p}] went from {was[p]!r} to {now[p]!r}", info)


def _only_arg(cells, freezes, si):
    """``cells=`` argument for a three-factor call: None unless a cell is frozen that way."""
    if not any(f.active(si) and f.kind == "cells_arg" for f in freezes):
        return None
    return [c.name for c, f in zip(cells, freezes) if not (f.active(si) and f.kind == "cells_arg")]


# ------------------------------------------------------------------------------ leg: formula


def _model_step(kind, hp, reduction_eff, td, band, signal, scale):
    """Reference net change (P,), sum of |terms| (P,) and a bound (P,) on the effect of float
    rounding of t_delta (|term| * band / tau), for one trainer call."""
    ac, tc, aa, ta = M.branches(RULE[kind], hp["lr_pos"], hp["lr_neg"], hp["tc_pos"], hp["tc_neg"])
    valid = ~np.isnan(td)
    t = np.where(valid, td, 0.0)
    causal = t >= 0
    mag = np.where(causal, abs(ac) * np.exp(-np.abs(t) / tc), abs(aa) * np.exp(-np.abs(t) / ta))
    mag = np.where(valid, mag, 0.0)
    sens = mag * band / np.where(causal, tc, ta)
    if kind in THREE:
        net = M.three_factor_update(td, RULE[kind], hp["lr_pos"], hp["lr_neg"], hp["tc_pos"],
                                    hp["tc_neg"], reduction_eff, signal, scale)
        g = abs(scale) * (np.abs(np.asarray(signal, dtype=np.float64)).reshape(-1, 1, 1)
                          if np.ndim(signal) > 0 else abs(float(signal)))
        mag, sens = mag * g, sens * g
    else:
        net = M.two_factor_update(td, RULE[kind], hp["lr_pos"], hp["lr_neg"], hp["tc_pos"],
                                  hp["tc_neg"], reduction_eff)
    div = mag.shape[0] if reduction_eff == "mean" else 1
    return net, mag.sum((0, 2)) / div, sens.sum((0, 2)) / div


def _mixed_elements(td, mask, a_causal, a_anti) -> int:
    """Number of existing parameter elements that, in this step, own a causal and an anti-causal
    pair whose terms have opposite sign (so both accumulator parts are non-zero on one element)."""
    if a_causal * a_anti >= 0:
        return 0
    valid = ~np.isnan(td)
    t = np.where(valid, td, 0.0)
    c = (valid & (t >= 0)).any((0, 2))
    a = (valid & (t < 0)).any((0, 2))
    return int((c & a & mask).sum())


class _FormulaCell:
    """Implementation cell + its independent reference state (formula leg)."""

    def __init__(self, sub, kind, red, red_eff, trainer, name, override):
        self.sub, self.kind, self.red_eff = sub, kind, red_eff
        self.hp = _hp(sub)
        self.dt, self.B, self.dms = sub["dt"], sub["B"], sub["dmax_steps"]
        ins, outs, self.pairs, pshape, self.mask = _geometry(sub["conn"])
        self.P = self.pairs.shape[0]
        self.n_pre, self.n_post = math.prod(ins), math.prod(outs)
        self.d0 = np.zeros(self.P) if kind == "KSTDP" else _delays(sub, self.P, self.dms, self.dt)
        self.cell = _Cell(sub, kind, self.hp, dmax_steps=self.dms, reduction=red, delays=self.d0,
                          delayed=sub.get("delayed", False), override=override,
                          kw_tensor=sub.get("kw_tensor", False), trainer=trainer, name=name)
        self.ls = M.LastSpikes(self.B, self.n_pre, self.n_post)
        if kind == "KSTDP":
            check(not np.any(self.cell.delays()), "setup:kstdp-delays", "KernelSTDP leg must have zero delays")
        self.w_model = self.cell.param()          # trained parameter, model copy (float64)
        self.dt_dy = M.is_dyadic(self.dt)
        self.scale_lr = ((abs(self.hp["lr_pos"]) + abs(self.hp["lr_neg"])) * self.pairs.shape[1]
                         * (self.B if red_eff == "sum" else 1))
        P = self.P
        self.acc, self.acc_abs, self.acc_err = np.zeros(P), np.zeros(P), np.zeros(P)
        self.acc_amb, self.acc_touched = np.zeros(P, dtype=bool), np.zeros(P, dtype=bool)
        self.acc_scale = 0.0
        self.n_c = self.n_a = self.n_z = self.n_amb = self.n_silent = self.n_nz = self.n_upd = 0
        self.n_setd = self.n_dchg = 0
        self.n_intol_neg = self.n_intol_pos = self.n_old = self.n_old_live = 0
        self.freeze = _Freeze(self.cell, sub.get("freeze"), len(sub["steps"]))
        self.n_frozen = 0
        self.ended = False   # comparison ended (monitors stopped recording: layer_eval)

    def drive(self, si):
        """Everything up to (excluding) the trainer call of step ``si``."""
        stp = self.sub["steps"][si]
        cell = self.cell
        self.freeze.before_step(si)
        if self.kind != "KSTDP" and _redelay(cell, self.sub, stp, self.dms):
            self.n_setd += 1
            if cell.pname == "delay":
                self.w_model = cell.param()
        self.pre, self.post = _bits(stp["pre"], self.n_pre), _bits(stp["post"], self.n_post)
        # d(t): the delays the connection holds when the step is taken (one-step form: a
        # delay-learning history never compounds a rounding residue into a different branch)
        self.d_impl = cell.delays()
        cell.forward(self.pre, self.post, bool_in=self.sub.get("bool_in", True))

    def judge(self, si, signal, gscale):
        """Everything after the trainer call of step ``si``."""
        stp = self.sub["steps"][si]
        cell, kind, hp, mask, pairs, P = self.cell, self.kind, self.hp, self.mask, self.pairs, self.P
        d_impl, dt = self.d_impl, self.dt
        pname = cell.pname
        self.ls.step(self.pre, self.post)
        if self.freeze.active(si):
            # skipped by the trainer: nothing may reach its accumulators; spikes are still booked
            # (the monitors keep recording unless the whole layer is in eval mode)
            self.freeze.check(si, {"trainer": kind, "conn": self.sub["conn"]["kind"], "step": si,
                                   "cell": cell.name, "freeze": self.freeze.kind})
            self.n_frozen += 1
            if self.freeze.kind == "layer_eval":
                self.ended = True
            return
        td, valid, band = M.tdelta(self.ls, pairs, dt, d_impl)
        exact_p = np.array([self.dt_dy and M.is_dyadic(d_impl[p]) for p in range(P)])
        amb_e = valid & (np.abs(np.nan_to_num(td)) <= band) & ~exact_p[None, :, None]
        amb_p = amb_e.any((0, 2))
        if td.size <= 24:
            # model self-check: [t_delta == 0] on exact rationals of the stored floats agrees with
            # the float64 evaluation wherever the case is called decisive, and lies inside the
            # band otherwise (an oracle inconsistency is a harness error, never a violation)
            ez = M.tdelta_exact_zero(self.ls, pairs, dt, d_impl)
            ex = exact_p[None, :, None]
            if (valid & ex & ((np.nan_to_num(td, nan=1.0) == 0) != ez)).any() or (valid & ~ex & ez & ~amb_e).any():
                raise HarnessError("reference model: float64 and exact-rational t_delta == 0 disagree")
        # dyadic dt and delay: the implementation's t_delta is exact, no rounding allowance
        band_eff = np.where(exact_p[None, :, None], 0.0, band)
        net, abssum, err = _model_step(kind, hp, self.red_eff, td, band_eff, signal, gscale)
        itol = float(self.sub.get("itol", 0.0))
        dec = valid & ~amb_e & mask[None, :, None]
        tdz = np.nan_to_num(td)
        self.n_intol_neg += int((dec & (tdz < 0) & (tdz >= -itol)).sum())
        self.n_intol_pos += int((dec & (tdz > 0) & (tdz <= itol)).sum())
        tau_min = min(hp["tc_pos"], hp["tc_neg"])
        kp, kq = M.ages(self.ls, pairs)
        old = dec & (np.minimum(kp, kq) * dt >= 88.0 * tau_min)
        self.n_old += int(old.sum())
        self.n_old_live += int((old & (np.abs(tdz) <= 12.0 * tau_min)).sum())
        gmax = (abs(gscale) * float(np.max(np.abs(signal)))) if kind in THREE else 1.0
        self.acc += net
        self.acc_abs += abssum
        self.acc_err += err
        self.acc_amb |= amb_p
        self.acc_touched |= valid.any((0, 2))
        self.acc_scale += self.scale_lr * gmax
        c_, a_, z_ = M.branch_counts(np.where((amb_e | ~mask[None, :, None]), np.nan, td))
        self.n_c, self.n_a, self.n_z = self.n_c + c_, self.n_a + a_, self.n_z + z_
        self.n_amb += int((amb_p & mask).sum())
        acc, acc_abs, acc_err, acc_amb = self.acc, self.acc_abs, self.acc_err, self.acc_amb

        got = cell.net()
        ckind = self.sub["conn"]["kind"]
        info = {"trainer": kind, "conn": ckind, "step": si, "cell": cell.name}
        what = f"step {si} ({kind}, cell '{cell.name}', {ckind}, updater.{pname})"
        ok, tol = _close(got, acc, acc_abs, acc_err, self.acc_scale, 1e-4)
        cmp = mask & ~acc_amb
        bad = cmp & ~ok
        if bad.any():
            p = int(np.argmax(bad))
            raise Violation(
                "formula:step",
                f"{what}: pos-neg of element {p} = {got[p]!r}, documented {acc[p]!r} (tol {tol[p]:.3g}); "
                f"t_delta[b][l]={td[:, p, :].tolist()} d={d_impl[p]} dt={dt}", info)
        # no change while a side has not spiked yet: exactly zero
        silent = mask & ~self.acc_touched
        if silent.any():
            self.n_silent += int(silent.sum())
            bad = silent & (got != 0)
            if bad.any():
                p = int(np.argmax(bad))
                raise Violation("formula:silent",
                                f"{what}: element {p} changes by {got[p]!r} although one side of every pair "
                                f"in its receptive field has not spiked yet", info)
        self.n_nz += int((cmp & (np.abs(acc) > 1e-9)).sum())

        if stp.get("update", True):
            before = cell.param()
            cell.update()
            after = cell.param()
            self.n_upd += 1
            self.w_model = self.w_model + np.where(mask, acc, 0.0)
            w_model = self.w_model
            # one-step form: parameter moved by the accumulated documented change
            ok1, _ = _close(after - before, np.where(mask, acc, 0.0), acc_abs,
                            acc_err + 4e-7 * np.abs(before) + 4e-7 * np.abs(after), self.acc_scale, 1e-4)
            bad = ~acc_amb & ~ok1
            if bad.any():
                p = int(np.argmax(bad))
                raise Violation("formula:update",
                                f"{what}: update() moved element {p} by {after[p] - before[p]!r}, "
                                f"accumulated documented change {acc[p]!r}", info)
            # cumulative form: model parameter carried independently in float64
            tolc = (1e-4 * np.abs(w_model) + acc_err
                    + 2e-6 * (self.n_upd + 1) * max(1.0, self.acc_scale, float(np.max(np.abs(w_model)))))
            bad = ~acc_amb & (np.abs(after - w_model) > tolc)
            if bad.any():
                p = int(np.argmax(bad))
                raise Violation("formula:cumulative",
                                f"{what}: {pname}[{p}] after update() = {after[p]!r}, reference {w_model[p]!r}", info)
            w_model = np.where(acc_amb, after, w_model)  # resync elements judged inside the band
            if pname == "delay":
                # keep delays inside the connection's documented range (harness-side clamp on both)
                hi = cell.dmax
                clamped_i = np.clip(after, 0.0, hi)
                clamped_m = np.clip(w_model, 0.0, hi)
                # elements that sit within rounding of a bound: follow the implementation
                near = (np.abs(after - clamped_i) > 0) != (np.abs(w_model - clamped_m) > 0)
                clamped_m = np.where(near, clamped_i, clamped_m)
                cell.set_delays(clamped_i)
                w_model = np.where(mask, clamped_m, 0.0)
                self.n_dchg += int(np.any(np.abs(clamped_i - d_impl) > 1e-6))
            self.w_model = w_model
            self.acc[:] = 0
            self.acc_abs[:] = 0
            self.acc_err[:] = 0
            self.acc_amb[:] = False
            self.acc_touched[:] = False
            self.acc_scale = 0.0


def run_formula(case) -> dict:
    kind = case["trainer"]
    with _default_dtype(case.get("f64", False)):
        return _run_formula(case, kind)


def _run_formula(case, kind):
    red = case["reduction"]
    red_eff = red or ("sum" if kind in THREE else "mean")  # documented defaults
    subs = _subcases(case)
    multi = len(subs) > 1
    cells: list[_FormulaCell] = []
    trainer = None
    for ci, sub in enumerate(subs):
        # a cell carries its hyperparameters through register_cell when the trainer was built
        # with decoy defaults or when the cell has hyperparameters of its own
        ovr = bool(case.get("override", False) or (ci > 0 and "hp" in case["more"][ci - 1]))
        fc = _FormulaCell(sub, kind, red, red_eff, trainer, "cell" if ci == 0 else f"cell{ci}", ovr)
        trainer = fc.cell.trainer
        cells.append(fc)
    for si, stp in enumerate(subs[0]["steps"]):
        signal, gscale = stp.get("signal", 1.0), stp.get("scale", 1.0)
        for fc in cells:
            fc.drive(si)
        only = _only_arg([fc.cell for fc in cells], [fc.freeze for fc in cells], si)
        cells[0].cell.train(signal, gscale, only)      # ONE call serves every registered cell
        for fc in cells:
            fc.judge(si, signal, gscale)

    main = cells[0]
    tot = lambda name: sum(getattr(fc, name) for fc in cells)  # noqa: E731
    dd = np.unique(np.round(main.d0[main.mask], 9)).size
    cls = [f"trainer={kind}", f"conn={case['conn']['kind']}", f"dt={'dyadic' if main.dt_dy else 'other'}",
           f"B={case['B']}", f"red={red}", f"cells={len(cells)}"]
    if tot("n_z"):
        cls.append("tdelta==0 decisive")
    if dd >= 2:
        cls.append("delays>=2 distinct")
    if tot("n_amb"):
        cls.append("band")
    if tot("n_silent"):
        cls.append("silent-side checked")
    if tot("n_c") and tot("n_a"):
        cls.append("both branches")
    if case.get("f64"):
        cls.append("f64")
    if tot("n_setd"):
        cls.append("delay re-assigned mid-history")
    if tot("n_dchg"):
        cls.append("learned delay changed by update()")
    if case.get("itol"):
        cls.append("interp_tolerance>0")
    if tot("n_intol_neg"):
        cls.append("t_delta in [-tol,0) decisive")
    if tot("n_intol_pos"):
        cls.append("t_delta in (0,tol] decisive")
    if case.get("gaps"):
        cls.append("long-gap stratum")
    if tot("n_old"):
        cls.append("both last spikes older than 88*tau")
    if tot("n_old_live"):
        cls.append("old pair with non-negligible term")
    for ci, fc in enumerate(cells):
        if fc.n_frozen:
            pos = "first" if ci == 0 else ("last" if ci == len(cells) - 1 else "middle")
            cls.append(f"frozen cell {pos} of {len(cells)}")
            cls.append(f"freeze={fc.freeze.kind}")
            if fc.freeze.stop < len(fc.sub["steps"]) and fc.freeze.kind != "layer_eval":
                cls.append("comparison resumed after freeze")
    if multi and kind in THREE:
        cls.append("multi-cell three-factor" + (" (tensor reward)" if any(
            isinstance(s.get("signal"), list) for s in case["steps"]) else ""))
    if multi:
        # every cell must itself be exercised, else the case is not counted
        live = [fc for fc in cells if not fc.n_frozen]
        nt = (bool(live) and all(fc.n_nz and (fc.n_c or fc.n_a) for fc in live)
              and bool(tot("n_c") and tot("n_a") and tot("n_silent")))
    else:
        nt = bool(main.n_c and main.n_a and main.n_silent and main.n_nz)
    return {"nt": bool(nt), "cls": cls, "amb": tot("n_amb"), "n_c": tot("n_c"), "n_a": tot("n_a"),
            "n_z": tot("n_z"), "n_nz": tot("n_nz")}


# ------------------------------------------------------------------------------ legs: twin / zerodelay

# pair -> (dedicated rule, kernel twin, parameter compared on each side)
TWIN_PAIRS = {
    "w": ("DASTDP", "DAKSTDP"),
    "d": ("DASTDPD", "DAKSTDPD"),
    "mw": ("DAMSTDP", "DAKSTDP"),
    "md": ("DAMSTDPD", "DAKSTDPD"),
}
ZERO_FIRST = ["DASTDP", "DAKSTDP", "DASTDPD", "DAKSTDPD", "DAMSTDP", "DAMSTDPD"]


def _kernel_hp(kind_a: str, hp: dict, g: float = 1.0) -> dict:
    """Learning rates / time constants of the exponential kernels that the docstrings make
    equivalent to the dedicated rule ``kind_a``: kernel_post acts on t_delta >= 0, kernel_pre on
    t_delta < 0; a constant reward gamma*M scales both learning rates."""
    ac, tc, aa, ta = M.branches(RULE[kind_a], hp["lr_pos"], hp["lr_neg"], hp["tc_pos"], hp["tc_neg"])
    return {"lr_pos": ac * g, "tc_pos": tc, "lr_neg": aa * g, "tc_neg": ta}


class _TwinCell:
    def __init__(self, sub, kind_a, kind_b, zero, g, red, tr_a, tr_b, name, ovr_a, ovr_b):
        self.sub, self.zero = sub, zero
        self.hp = _hp(sub)
        self.dt, self.B = sub["dt"], sub["B"]
        self.dms = sub["dmax_steps"]
        ins, outs, self.pairs, pshape, self.mask = _geometry(sub["conn"])
        self.P = self.pairs.shape[0]
        self.n_pre, self.n_post = math.prod(ins), math.prod(outs)
        self.d0 = np.zeros(self.P) if zero else _delays(sub, self.P, self.dms, self.dt)
        self.hpk = _kernel_hp(kind_a, self.hp, g)
        self.a = _Cell(sub, kind_a, self.hp, dmax_steps=self.dms, reduction=red, delays=self.d0,
                       override=ovr_a, kw_tensor=sub.get("kw_tensor", False), trainer=tr_a, name=name)
        dms_b = sub.get("dmax_steps_b", self.dms) if zero else self.dms
        self.b = _Cell(sub, kind_b, self.hpk, dmax_steps=dms_b, reduction=red, delays=self.d0,
                       delayed=sub.get("delayed", False), override=ovr_b,
                       kw_tensor=sub.get("kw_tensor", False), trainer=tr_b, name=name)
        self.ls = M.LastSpikes(self.B, self.n_pre, self.n_post)
        self.scale = ((abs(self.hp["lr_pos"]) + abs(self.hp["lr_neg"])) * self.pairs.shape[1]
                      * (self.B if red == "sum" else 1) * max(abs(g), 1e-3))
        self.red = red
        self.n_c = self.n_a = self.n_z = self.n_nz = self.n_silent = self.n_mixed = self.n_setd = 0
        self.n_intol = self.n_old_live = 0
        T = len(sub["steps"])
        self.fa, self.fb = _Freeze(self.a, sub.get("freeze"), T), _Freeze(self.b, sub.get("freeze"), T)
        if self.fa.kind != self.fb.kind:   # cells_arg exists on the three-factor side only
            self.fb.kind = "cell_eval"
        self.n_frozen = 0

    def drive(self, si):
        stp = self.sub["steps"][si]
        a, b = self.a, self.b
        self.fa.before_step(si)
        self.fb.before_step(si)
        if not self.zero:
            r1 = _redelay(a, self.sub, stp, self.dms)
            r2 = _redelay(b, self.sub, stp, self.dms)
            self.n_setd += int(r1 and r2)
        self.pre, self.post = _bits(stp["pre"], self.n_pre), _bits(stp["post"], self.n_post)
        self.d_a = a.delays()
        if self.zero:
            check(not np.any(self.d_a) and not np.any(b.delays()), "setup:zero-delays", "delays must be zero in this leg")
        else:
            check(np.array_equal(self.d_a, b.delays()), "setup:twin-delays", "twin delays differ before a step")
        a.forward(self.pre, self.post, bool_in=self.sub.get("bool_in", True))
        b.forward(self.pre, self.post, bool_in=self.sub.get("bool_in", True))

    def judge(self, si):
        a, b, mask, zero = self.a, self.b, self.mask, self.zero
        self.ls.step(self.pre, self.post)
        if self.fa.active(si):
            info = {"a": a.kind, "b": b.kind, "conn": self.sub["conn"]["kind"], "step": si, "cell": a.name,
                    "freeze": self.fa.kind}
            self.fa.check(si, info)
            self.fb.check(si, info)
            self.n_frozen += 1
            return
        # the reference is used for classification and for the magnitude of the tolerance only
        td, valid, band = M.tdelta(self.ls, self.pairs, self.dt, self.d_a)
        c_, a_, z_ = M.branch_counts(np.where(mask[None, :, None], td, np.nan))
        self.n_c, self.n_a, self.n_z = self.n_c + c_, self.n_a + a_, self.n_z + z_
        self.n_mixed += _mixed_elements(td, mask, self.hpk["lr_pos"], self.hpk["lr_neg"])
        itol = float(self.sub.get("itol", 0.0))
        tdz = np.nan_to_num(td)
        self.n_intol += int((valid & mask[None, :, None] & (tdz != 0) & (np.abs(tdz) <= itol)).sum())
        kp, kq = M.ages(self.ls, self.pairs)
        tau_min = min(self.hpk["tc_pos"], self.hpk["tc_neg"])
        self.n_old_live += int((valid & mask[None, :, None] & (np.minimum(kp, kq) * self.dt >= 88.0 * tau_min)
                                & (np.abs(tdz) <= 12.0 * tau_min)).sum())
        _, abssum, _ = _model_step("DAKSTDP", self.hpk, self.red, td, band, 1.0, 1.0)
        (pa, na), (pb, nb) = a.parts(), b.parts()
        ga, gb = pa - na, pb - nb
        ckind = self.sub["conn"]["kind"]
        info = {"a": a.kind, "b": b.kind, "conn": ckind, "step": si, "cell": a.name}
        what = f"step {si}, cell '{a.name}': {a.kind}.{a.pname} vs {b.kind}.{b.pname} ({ckind})"
        tol = 1e-5 * abssum + 1e-7 * self.scale + 1e-12
        pre = "zero" if zero else "twin"
        bad = mask & (np.abs(ga - gb) > tol)
        if bad.any():
            p = int(np.argmax(bad))
            raise Violation(
                f"{pre}:step",
                f"{what}: element {p}: {ga[p]!r} vs {gb[p]!r} (tol {tol[p]:.3g}); t_delta[b][l]={td[:, p, :].tolist()} "
                f"d={self.d_a[p]} dt={self.dt}", info)
        # linear batch reductions: the potentiating and the depressing part (what the upper /
        # lower bounding functions receive) must agree separately as well
        for nm, xa, xb in (("pos", pa, pb), ("neg", na, nb)):
            bad = mask & (np.abs(xa - xb) > tol)
            if bad.any():
                p = int(np.argmax(bad))
                raise Violation(
                    f"{pre}:parts",
                    f"{what}: {nm} part of element {p}: {xa[p]!r} vs {xb[p]!r} (pos-neg agrees: {ga[p]!r} vs {gb[p]!r}); "
                    f"t_delta[b][l]={td[:, p, :].tolist()} d={self.d_a[p]} dt={self.dt}", info)
        self.n_nz += int((mask & (np.abs(ga) > 1e-9)).sum())
        self.n_silent += int((mask & ~valid.any((0, 2))).sum())
        # apply on both sides, compare the movement of the trained parameters
        pa0, pb0 = a.param(), b.param()
        a.update()
        b.update()
        pa1, pb1 = a.param(), b.param()
        tolu = tol + 4e-7 * (np.abs(pa0) + np.abs(pa1) + np.abs(pb0) + np.abs(pb1))
        bad = (np.abs((pa1 - pa0) - (pb1 - pb0)) > tolu)
        if bad.any():
            p = int(np.argmax(bad))
            raise Violation(f"{pre}:update",
                            f"{what}: update() moved element {p} by {pa1[p] - pa0[p]!r} vs {pb1[p] - pb0[p]!r}", info)
        # identical histories: a learned delay must be the same tensor on both sides next step
        if a.pname == "delay":
            if zero:
                a.set_delays(np.zeros(self.P))
            else:
                newd = np.clip(pa1, 0.0, a.dmax)
                a.set_delays(newd)
                if b.pname == "delay":
                    b.set_delays(newd)
        if b.pname == "delay" and zero:
            b.set_delays(np.zeros(self.P))


def _run_twins(case, kind_a: str, kind_b: str, zero: bool) -> dict:
    red = case["reduction"]  # explicit on both sides: the defaults differ between the families
    three = kind_a in THREE
    signal, gscale = (case.get("signal", 1.0), case.get("scale", 1.0)) if three else (1.0, 1.0)
    g = abs(gscale) * signal if three else 1.0
    subs = _subcases(case)
    cells: list[_TwinCell] = []
    tr_a = tr_b = None
    for ci, sub in enumerate(subs):
        own = ci > 0 and "hp" in case["more"][ci - 1]
        tc = _TwinCell(sub, kind_a, kind_b, zero, g, red, tr_a, tr_b, "cell" if ci == 0 else f"cell{ci}",
                       bool(case.get("override", False) or own), bool(case.get("override_b", False) or own))
        tr_a, tr_b = tc.a.trainer, tc.b.trainer
        cells.append(tc)
    for si in range(len(subs[0]["steps"])):
        for tc in cells:
            tc.drive(si)
        cells[0].a.train(signal, gscale, _only_arg([tc.a for tc in cells], [tc.fa for tc in cells], si))
        cells[0].b.train()
        for tc in cells:
            tc.judge(si)

    main = cells[0]
    tot = lambda name: sum(getattr(tc, name) for tc in cells)  # noqa: E731
    dd = np.unique(np.round(main.d0[main.mask], 9)).size
    cls = [f"pair={kind_a}~{kind_b}", f"conn={case['conn']['kind']}", f"B={case['B']}", f"red={red}",
           f"dt={'dyadic' if M.is_dyadic(case['dt']) else 'other'}", f"cells={len(cells)}"]
    if tot("n_z"):
        cls.append("tdelta==0")
    if dd >= 2:
        cls.append("delays>=2 distinct")
    if tot("n_c") and tot("n_a"):
        cls.append("both branches")
    if tot("n_mixed"):
        cls.append("pos&neg on one element")
        if any(tc.n_mixed and tc.sub["conn"]["kind"] == "conv" for tc in cells):
            cls.append("pos&neg on one conv element")
    if main.hp["lr_pos"] * main.hp["lr_neg"] < 0:
        cls.append("opposite-sign learning rates")
    if tot("n_setd"):
        cls.append("delay re-assigned mid-history")
    for ci, tc in enumerate(cells):
        if tc.n_frozen:
            pos = "first" if ci == 0 else ("last" if ci == len(cells) - 1 else "middle")
            cls.append(f"frozen cell {pos} of {len(cells)}")
            cls.append(f"freeze={tc.fa.kind}")
    if case.get("itol"):
        cls.append("interp_tolerance>0")
    if tot("n_intol"):
        cls.append("0<|t_delta|<=tol")
    if case.get("gaps"):
        cls.append("long-gap stratum")
    if tot("n_old_live"):
        cls.append("old pair with non-negligible term")
    if zero:
        cls.append(f"kstdp:delayed={case.get('delayed', False)},dmax_b={case.get('dmax_steps_b', case['dmax_steps'])}")
    nt = (bool(tot("n_c") and tot("n_a") and tot("n_nz") and tot("n_silent"))
          and all(tc.n_nz for tc in cells if not tc.n_frozen) and any(not tc.n_frozen for tc in cells))
    return {"nt": nt, "cls": cls}


def run_twin(case) -> dict:
    ka, kb = TWIN_PAIRS[case["pair"]]
    with _default_dtype(case.get("f64", False)):
        return _run_twins(case, ka, kb, zero=False)


def run_zerodelay(case) -> dict:
    with _default_dtype(case.get("f64", False)):
        return _run_twins(case, case["first"], "KSTDP", zero=True)


# ------------------------------------------------------------------------------ generators


def _conn_strategy(tier, conv_bias: bool = False):
    small = st.sampled_from
    opts = [
        st.builds(lambda i, o: {"kind": "dense", "in": i, "out": o},
                  small([[1], [2], [3], [2, 2], [4]]), small([[1], [2], [3], [1, 2]])),
        st.builds(lambda s: {"kind": "direct", "shape": s}, small([[1], [2], [3], [2, 2], [5]])),
        st.builds(lambda s: {"kind": "lateral", "shape": s}, small([[2], [3], [2, 2]])),
    ]
    if conv_available():
        def mk(h, w, c, f, kh, kw, s, p, d):
            kh, kw = min(kh, h + 2 * p), min(kw, w + 2 * p)
            # keep the dilated kernel inside the padded input (output size >= 1)
            if d * (kh - 1) + 1 > h + 2 * p or d * (kw - 1) + 1 > w + 2 * p:
                d = 1
            return {"kind": "conv", "h": h, "w": w, "c": c, "f": f, "kernel": [kh, kw],
                    "stride": [s, s], "padding": [p, p], "dilation": [d, d]}
        conv = st.builds(mk, small([2, 3, 4]), small([2, 3]), small([1, 2]), small([1, 2]),
                         small([1, 2, 2]), small([1, 2]), small([1, 1, 2]), small([0, 0, 1]),
                         small([1, 1, 2]))
        opts.append(conv)
        if conv_bias:
            opts.append(conv)
    return st.one_of(*opts)


def _n_of(conn):
    ins, outs, pairs, _, _ = _geometry(conn)
    return math.prod(ins), math.prod(outs)


@st.composite
def _history(draw, n_pre, n_post, B, tmax, three, vector_ok, T=None, setd=False, busy=False):
    if T is None:
        T = draw(st.integers(3, tmax))
    sparse_pre = False if busy else draw(st.booleans())
    sparse_post = False if busy else draw(st.booleans())
    late_post = draw(st.integers(0, 1 if busy else 3))  # steps at the start in which no post neuron fires
    steps = []

    def mask(n, sparse):
        m = draw(st.integers(0, (1 << n) - 1))
        if sparse:
            m &= draw(st.integers(0, (1 << n) - 1))
        return m

    for t in range(T):
        stp = {"pre": [mask(n_pre, sparse_pre) for _ in range(B)],
               "post": [0 if t < late_post else mask(n_post, sparse_post) for _ in range(B)],
               "update": draw(st.integers(0, 5)) > 0}
        if three:
            if vector_ok and draw(st.integers(0, 2)) == 0:
                stp["signal"] = [draw(st.sampled_from(SIGNALS)) for _ in range(B)]
            else:
                stp["signal"] = draw(st.sampled_from(SIGNALS))
            stp["scale"] = draw(st.sampled_from(SCALES))
        if setd and t > 0 and draw(st.integers(0, 5)) == 0:
            # the connection's delay parameter is re-bound (connection.delay = tensor) before this step
            stp["setd"] = draw(st.lists(st.integers(0, 48), min_size=1, max_size=6))
            stp["setd_mode"] = draw(st.sampled_from(["grid", "grid", "quarter", "real", "near"]))
        steps.append(stp)
    return steps


def _delay_fields(draw, zero_delays, itol=0.0):
    if zero_delays:
        return {"dmax_steps": draw(st.sampled_from([0, 0, 1, 3])), "dmode": "zero", "draws": [0]}
    modes = ["grid", "grid", "grid", "quarter", "real", "zero", "near"]
    if itol >= 1e-3:
        # fractional delays that put t_delta strictly inside [-tol, 0) and (0, tol]
        modes = ["quarter", "quarter", "near", "near", "grid", "real"]
    return {"dmax_steps": draw(st.sampled_from([0, 1, 2, 3, 3, 4, 6] if itol < 1e-3 else [1, 2, 3, 3, 4, 6])),
            "dmode": draw(st.sampled_from(modes)),
            "draws": draw(st.lists(st.integers(0, 48), min_size=1, max_size=8))}


def _gaps(draw, tier, T):
    """1-2 long silences [after step i, n silent steps, update during the silence]."""
    lo, hi = (9, 30) if tier == "quick" else (20, 200)
    k = draw(st.sampled_from([1, 1, 2]))
    return [[draw(st.integers(1, T - 1)), draw(st.integers(lo, hi)), draw(st.integers(0, 3)) > 0]
            for _ in range(k)]


def _lrs(draw, opposite_bias=False):
    lp, ln = draw(st.sampled_from(LRS)), draw(st.sampled_from(LRS))
    if opposite_bias and draw(st.booleans()) and lp * ln > 0:
        ln = -ln
    return lp, ln


def _common(draw, tier, zero_delays=False, conv_bias=False, opposite_bias=False):
    conn = draw(_conn_strategy(tier, conv_bias))
    B = draw(st.sampled_from([1, 2, 2, 3]))
    dyadic = draw(st.integers(0, 9)) < 7
    dt = draw(st.sampled_from(DYADIC_DT if dyadic else OTHER_DT))
    lp, ln = _lrs(draw, opposite_bias)
    case = {
        "conn": conn, "B": B, "dt": dt,
        "lr_pos": lp, "lr_neg": ln,
        "tc_pos": draw(st.sampled_from(TCS)), "tc_neg": draw(st.sampled_from(TCS)),
        "inplace": draw(st.booleans()),
        "override": draw(st.integers(0, 3)) == 0,
        "kw_tensor": draw(st.integers(0, 4)) == 0,
        "bool_in": draw(st.integers(0, 3)) > 0,
        "f64": draw(st.integers(0, 7)) == 0,
        "wseed": draw(st.integers(0, 1000)),
        "upd_via": draw(st.sampled_from(["connection", "connection", "layer"])),
    }
    # interp_tolerance of the trainer: only governs delayed monitor reads, never the branch rule
    case["itol"] = draw(st.sampled_from([0.0, 0.0, 1e-6, 1e-3, 0.25 * dt, 0.4 * dt]))
    case.update(_delay_fields(draw, zero_delays, case["itol"]))
    # long-silence stratum: dt = 1 ms, time constants far below the length of the silences
    case["longgap"] = draw(st.integers(0, 7)) == 0
    if case["longgap"]:
        case["dt"] = 1.0
        case["tc_pos"], case["tc_neg"] = draw(st.sampled_from(SHORT_TCS)), draw(st.sampled_from(SHORT_TCS))
        case["itol"] = draw(st.sampled_from([0.0, 0.25, 0.4]))
    return case


def _more_cells(draw, tier, case, zero_delays, T, setd, kstdp=False):
    """0-2 further cells registered on the same trainer: own connection, delays, weights, history and
    (half of the time) own hyperparameters."""
    k = draw(st.sampled_from([0, 0, 0, 1, 1, 2]))
    more = []
    for _ in range(k):
        conn = draw(_conn_strategy(tier))
        extra = {"conn": conn, "wseed": draw(st.integers(0, 1000))}
        extra.update(_delay_fields(draw, zero_delays, case.get("itol", 0.0)))
        if kstdp:
            extra["dmax_steps"] = draw(st.sampled_from([None, 0, 2]))
        if draw(st.booleans()):
            lp, ln = _lrs(draw)
            extra["hp"] = {"lr_pos": lp, "lr_neg": ln, "tc_pos": draw(st.sampled_from(TCS)),
                           "tc_neg": draw(st.sampled_from(TCS))}
        n_pre, n_post = _n_of(conn)
        extra["steps"] = draw(_history(n_pre, n_post, case["B"], T, False, False, T=T, setd=setd))
        more.append(extra)
    return more


def _add_freezes(draw, case, more, three):
    """In half of the multi-cell cases: a generated subset of the cells (at least one; any position
    in the registration order) is frozen for a generated span of steps."""
    if not more or draw(st.booleans()):
        return
    kinds = ["cell_eval", "cell_eval", "no_updater", "layer_eval"] + (["cells_arg"] * 4 if three else [])
    targets = [case] + more
    forced = draw(st.integers(0, len(targets) - 1))
    for i, tgt in enumerate(targets):
        if i == forced or draw(st.integers(0, 3)) == 0:
            tgt["freeze"] = {"kind": draw(st.sampled_from(kinds)), "start": draw(st.integers(0, 40)),
                             "len": draw(st.integers(0, 40))}


@st.composite
def formula_case(draw, tier="quick"):
    kind = draw(st.sampled_from(TRAINERS))
    case = _common(draw, tier, zero_delays=(kind == "KSTDP"))
    case["trainer"] = kind
    three = kind in THREE
    if kind == "KSTDP":
        case["dmax_steps"] = draw(st.sampled_from([None, 0, 0, 2, 3]))
        case["delayed"] = draw(st.booleans())
    case["reduction"] = draw(st.sampled_from([None, "sum", "mean"]))
    n_pre, n_post = _n_of(case["conn"])
    tmax = 12 if tier == "quick" else 36
    vector_ok = three and case["reduction"] in (None, "sum")
    setd = kind != "KSTDP"
    lg = case.pop("longgap")
    case["steps"] = draw(_history(n_pre, n_post, case["B"], 6 if lg else tmax, three, vector_ok, setd=setd, busy=lg))
    if lg:
        case["gaps"] = _gaps(draw, tier, len(case["steps"]))
    more = _more_cells(draw, tier, case, kind == "KSTDP", len(case["steps"]), setd, kstdp=(kind == "KSTDP"))
    if more:
        case["more"] = more
    _add_freezes(draw, case, more, three)
    return case


@st.composite
def twin_case(draw, tier="quick"):
    case = _common(draw, tier, conv_bias=True, opposite_bias=True)
    case["pair"] = draw(st.sampled_from(["w", "w", "d", "d", "mw", "md"]))
    case["reduction"] = draw(st.sampled_from(["sum", "mean"]))
    case["override_b"] = draw(st.integers(0, 3)) == 0
    if case["pair"] in ("mw", "md"):
        case["signal"] = draw(st.sampled_from(SIGNALS))
        case["scale"] = draw(st.sampled_from(SCALES))
    n_pre, n_post = _n_of(case["conn"])
    tmax = 10 if tier == "quick" else 30
    lg = case.pop("longgap")
    case["steps"] = draw(_history(n_pre, n_post, case["B"], 6 if lg else tmax, False, False, setd=True, busy=lg))
    if lg:
        case["gaps"] = _gaps(draw, tier, len(case["steps"]))
    more = _more_cells(draw, tier, case, False, len(case["steps"]), True)
    if more:
        case["more"] = more
    _add_freezes(draw, case, more, case["pair"] in ("mw", "md"))
    return case


@st.composite
def zero_case(draw, tier="quick"):
    case = _common(draw, tier, zero_delays=True, conv_bias=True, opposite_bias=True)
    case["first"] = draw(st.sampled_from(ZERO_FIRST))
    case["reduction"] = draw(st.sampled_from(["sum", "mean"]))
    case["override_b"] = draw(st.integers(0, 3)) == 0
    # the plain KernelSTDP twin may sit on a connection without / with unused / with used delay storage
    case["dmax_steps_b"] = draw(st.sampled_from([None, 0, case["dmax_steps"], 2]))
    case["delayed"] = draw(st.booleans())
    if case["first"] in THREE:
        case["signal"] = draw(st.sampled_from(SIGNALS))
        case["scale"] = draw(st.sampled_from(SCALES))
    n_pre, n_post = _n_of(case["conn"])
    tmax = 10 if tier == "quick" else 30
    lg = case.pop("longgap")
    case["steps"] = draw(_history(n_pre, n_post, case["B"], 6 if lg else tmax, False, False, busy=lg))
    if lg:
        case["gaps"] = _gaps(draw, tier, len(case["steps"]))
    more = _more_cells(draw, tier, case, True, len(case["steps"]), False)
    if more:
        case["more"] = more
    _add_freezes(draw, case, more, case["first"] in THREE)
    return case


def _small_cases(tier):
    """Every pre/post history of length T on a single synapse (LinearDirect, one neuron, B = 1,
    dt = 1) x every on-grid delay in {0, 1, 2} x every trainer x the four learning-rate sign
    combinations.  All arithmetic is dyadic, so every t_delta == 0 alignment is decisive."""
    T = 3 if tier == "quick" else 4
    sigs = [1.0, -0.5, 2.0, -1.0]
    for kind in TRAINERS:
        for k in ([0] if kind == "KSTDP" else [0, 1, 2]):
            for sp in (1.0, -1.0):
                for sn in (0.5, -0.5):
                    for hist in range(1 << (2 * T)):
                        steps = []
                        for t in range(T):
                            stp = {"pre": [(hist >> (2 * t)) & 1], "post": [(hist >> (2 * t + 1)) & 1],
                                   "update": True}
                            if kind in THREE:
                                stp["signal"], stp["scale"] = sigs[t], 0.5
                            steps.append(stp)
                        yield {"trainer": kind, "conn": {"kind": "direct", "shape": [1]}, "B": 1,
                               "dt": 1.0, "lr_pos": sp, "lr_neg": sn, "tc_pos": 2.0, "tc_neg": 4.0,
                               "inplace": False, "override": False, "kw_tensor": False, "bool_in": True,
                               "f64": False, "wseed": 0, "dmax_steps": 2, "dmode": "grid", "draws": [k],
                               "reduction": None, "delayed": bool(k == 0 and sp > 0), "steps": steps}


def run_small(case) -> dict:
    out = run_formula(case)
    # non-trivial here: the synapse is compared at least once with a non-zero documented change
    # (i.e. both sides have spiked within the T steps)
    out["nt"] = bool(out["n_nz"])
    out["cls"] = [c for c in out["cls"] if c.startswith(("trainer=", "tdelta", "both", "silent"))]
    if out["n_c"]:
        out["cls"].append("causal")
    if out["n_a"]:
        out["cls"].append("anti-causal")
    return out


LEGS = [
    Leg(
        name="formula", run=run_formula, strategy=lambda tier: formula_case(tier),
        quick=170, thorough=1500, quick_shards=6, thorough_shards=8, nt_floor=0.3,
        rule="history in which both the causal (t_delta >= 0) and the anti-causal branch are taken on "
             "decisive (outside-band) pairs, at least one parameter element is checked to stay "
             "exactly unchanged while a side of its pairs is still silent, and at least one compared "
             "element has a non-zero documented change; with 2-3 cells on the one trainer (about 40 % of "
             "the cases; one trainer call per step serves all) every cell must itself receive a compared "
             "non-zero change; distinct by SHA-1 of the case",
    ),
    Leg(
        name="small", run=run_small, enumerate=_small_cases,
        quick_shards=6, thorough_shards=6, nt_floor=0.3,
        rule="exhaustive: all 4^T pre/post histories of one synapse (T = 3 quick, 4 thorough) x delay "
             "in {0, 1, 2} steps x 7 trainers x 4 learning-rate sign modes; non-trivial when both "
             "sides spike within the T steps, so that a non-zero documented change is compared",
        exhaustive_note="finite domain (single synapse, dyadic values) enumerated completely",
    ),
    Leg(
        name="twin", run=run_twin, strategy=lambda tier: twin_case(tier),
        quick=150, thorough=1500, quick_shards=4, thorough_shards=4, nt_floor=0.3,
        rule="twin cells (dedicated rule vs delay-adjusted kernel rule with the exponential kernels) "
             "whose common history takes both branches, produces a non-zero update and contains a "
             "step with a still-silent side; pos - neg, the potentiating part and the depressing part "
             "are compared separately; 1-3 cell pairs per trainer pair",
    ),
    Leg(
        name="zerodelay", run=run_zerodelay, strategy=lambda tier: zero_case(tier),
        quick=150, thorough=1500, quick_shards=4, thorough_shards=4, nt_floor=0.3,
        rule="all delays zero; delay-adjusted rule vs plain KernelSTDP (exponential kernels) on twin "
             "cells whose common history takes both branches, produces a non-zero update and "
             "contains a step with a still-silent side; pos - neg, pos and neg compared separately",
    ),
]

ASSUMPTIONS = [
    "CPU only; float32 as shipped, float64 default dtype in 1/8 of the cases",
    "post spikes are scripted with inferno.extra.ExactNeuron(override=...), synapses are DeltaCurrent",
    "batch reductions torch.sum / torch.mean (and the documented defaults); per-sample reward "
    "tensors only with the (default) sum reduction, as the trainers' docs require",
    "delays of the delay-learning variants are clamped into [0, delayedby] by the harness after "
    "every update() (on implementation and reference alike) and re-bound with connection.delay = tensor; "
    "in 1/6 of the later steps the delay parameter of any delay-adjusted cell is re-assigned to fresh values; "
    "updates go through connection.update() or layer.update()",
    "interp_tolerance in {0, 1e-6, 1e-3, 0.25 dt, 0.4 dt} on the trainers that accept it (the two- and "
    "three-factor delay-adjusted rules and KernelSTDP); the branch is asserted by the exact sign of "
    "t_delta (dyadic dt and delays: quarter-step and k*dt +- 2**-10 delays), the band covers float "
    "rounding only",
    "long-silence stratum (1/8 of the cases): dt = 1, tau in {0.1, 0.25, 0.5}, 1-2 silences of 9-30 "
    "(quick) / 20-200 (thorough) steps; every step of the silence is compared",
    "in half of the multi-cell cases a subset of the cells is frozen for a span of steps (cell.eval(), "
    "connection without updater, three-factor cells= argument, or layer.eval() to the end): its "
    "accumulators must not change, the other cells are judged as before; after cell.eval()/updater/"
    "cells= freezes the frozen cell's comparison resumes (the layer kept recording), after layer.eval() "
    "it ends (eval_update=False stops the monitors)",
    "cells that share a trainer share batch size, step time and the reward signal; connection, delays, "
    "weights, history and (half of the time) hyperparameters are their own",
    "pairs with |t_delta| inside a float-rounding band (non-dyadic dt or delay) are not judged "
    "(counted ambiguous); with dyadic dt and delays t_delta == 0 is decisive",
    "KernelSTDP is exercised with all delays zero only (the property makes no claim about its "
    "arrival-time semantics on delayed connections)",
]

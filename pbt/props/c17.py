"""C17 — layers wire components as documented; clear() restores the initial state.

Legs
  wiring : Serial / Biclique / RecurrentSerial built from generated components; every step the
           layer's outputs are compared with the documented composition evaluated on TWIN
           component instances driven by hand (neuron(transform(connection(x))), combine of all
           transformed connection outputs, feed-forward + feedback of the previous step)
  clear  : for EVERY position c in the run: clear() after c steps, then the same inputs must
           reproduce the outputs and state of a freshly built layer (parameters and adaptations
           kept)
"""

from __future__ import annotations

import numpy as np
import torch
from hypothesis import strategies as st

from .. import builders as B
from ..harness import Leg, check, impl

TRANSFORMS = {
    "none": None,
    "half": lambda x, **kw: x * 0.5,
    "plus": lambda x, **kw: x + 2.0,
    "neg": lambda x, **kw: -x + 40.0,
}


def _combine_model(mode, tensors):
    s = torch.stack(list(tensors), 0)
    if mode == "sum":
        return s.sum(0)
    if mode == "mean":
        return s.mean(0)
    if mode == "prod":
        return s.prod(0)
    if mode == "min":
        return s.amin(0)
    if mode == "max":
        return s.amax(0)
    if mode == "custom":  # custom callable: half of the sum plus the first
        return s.sum(0) * 0.5 + tensors[0]
    raise ValueError(mode)


def _custom_combine(tensors, **kw):
    vals = list(tensors.values())
    return torch.stack(vals, 0).sum(0) * 0.5 + vals[0]


def _tf(name):
    return TRANSFORMS[name]


def _apply(name, x):
    f = TRANSFORMS[name]
    return x if f is None else f(x)


def build(case, with_layer=True):
    """Returns (layer or None, components dict) — called twice to obtain twins."""
    from inferno import neural as sn

    dt, Bsz = case["dt"], case["batch"]
    kind = case["kind"]
    comps = {"conn": {}, "neur": {}}
    for name, c in case["conns"].items():
        comps["conn"][name] = B.make_connection(c, dt, Bsz)
        if c.get("updater"):
            comps["conn"][name].updater = comps["conn"][name].defaultupdater()
    for name, n in case["neurs"].items():
        comps["neur"][name] = B.make_neuron(n, dt, Bsz)
    layer = None
    if with_layer:
        if kind == "serial":
            if case.get("names"):
                layer = sn.Serial(comps["conn"]["c0"], comps["neur"]["n0"], transform=_tf(case["tf"]["c0"]),
                                  connection_name="inp", neuron_name="grp")
            else:
                layer = sn.Serial(comps["conn"]["c0"], comps["neur"]["n0"], transform=_tf(case["tf"]["c0"]))
        elif kind == "biclique":
            conns = []
            for name in case["conns"]:
                f = _tf(case["tf"][name])
                conns.append((name, comps["conn"][name]) if f is None else (name, comps["conn"][name], f))
            neurs = []
            for name in case["neurs"]:
                f = _tf(case["tf"][name])
                neurs.append((name, comps["neur"][name]) if f is None else (name, comps["neur"][name], f))
            comb = case["combine"]
            layer = sn.Biclique(conns, neurs, _custom_combine if comb == "custom" else comb)
        else:
            layer = sn.RecurrentSerial(
                comps["conn"]["ff"], comps["conn"]["lat"], comps["conn"]["fb"],
                comps["neur"]["nff"], comps["neur"]["nfb"],
                feedfwd_out_transform=_tf(case["tf"]["ff"]),
                lateral_out_transform=_tf(case["tf"]["lat"]),
                feedback_out_transform=_tf(case["tf"]["fb"]),
                trainable_feedback=case["trainable_fb"],
            )
        layer.train(case["train"])
    else:
        for m in list(comps["conn"].values()) + list(comps["neur"].values()):
            m.train(case["train"])
    return layer, comps


def _inputs(case):
    out = {}
    for name, c in case["conns"].items():
        if case["kind"] == "recurrent" and name != "ff":
            continue
        inshape, _ = B.conn_shapes(c)
        out[name] = B.spikes_from(case["sseed"] + hash_name(name), case["steps"], (case["batch"],) + inshape, case["rate"])
    return out


def _subset(case, t):
    """names of the connections fed at step t (a strict subset on the generated steps)."""
    names = list(case["conns"])
    if t in (case.get("subset_steps") or []) and len(names) > 1:
        keep = max(1, len(names) - 1 - (t % 2 if len(names) > 2 else 0))
        return names[:keep] if t % 3 else names[-keep:]
    return names


def hash_name(s):
    return sum(ord(ch) * (i + 1) for i, ch in enumerate(s))


def layer_step(case, layer, xs, t, capture=False):
    """Calls the layer for step t; returns (dict name->output, dict name->connection output|None)."""
    kind = case["kind"]
    nkw = case.get("nkw") or None
    if kind == "serial":
        r = layer(torch.tensor(xs["c0"][t]), capture_intermediate=capture, neuron_kwargs=nkw)
        if capture:
            return {"n0": r[0]}, {"c0": r[1]}
        return {"n0": r}, None
    if kind == "biclique":
        run = _subset(case, t)
        r = layer({k: (torch.tensor(v[t]),) for k, v in xs.items() if k in run}, capture_intermediate=capture,
                  neuron_kwargs=({k: nkw for k in case["neurs"]} if nkw else None))
        if capture:
            return dict(r[0]), dict(r[1])
        return dict(r), None
    r = layer(torch.tensor(xs["ff"][t]), capture_intermediate=capture,
              feedfwd_neuron_kwargs=nkw, feedback_neuron_kwargs=nkw)
    if capture:
        names = {"feedfwd": "ff", "lateral": "lat", "feedback": "fb"}
        return {"nff": r[0][0], "nfb": r[0][1]}, {names.get(k, k): v for k, v in r[1].items()}
    return {"nff": r[0], "nfb": r[1]}, None


def model_step(case, comps, xs, t, mem):
    """Documented composition on twin components; returns (outputs, connection outputs)."""
    kind = case["kind"]
    C, N = comps["conn"], comps["neur"]
    nkw = case.get("nkw") or {}
    if kind == "serial":
        co = C["c0"](torch.tensor(xs["c0"][t]))
        return {"n0": N["n0"](_apply(case["tf"]["c0"], co), **nkw)}, {"c0": co}
    if kind == "biclique":
        run = _subset(case, t)  # documented: only connections named in `inputs` are run and combined
        cos = {k: C[k](torch.tensor(xs[k][t])) for k in case["conns"] if k in run}
        comb = _combine_model(case["combine"], [_apply(case["tf"][k], cos[k]) for k in case["conns"] if k in run])
        return {k: N[k](_apply(case["tf"][k], comb), **nkw) for k in case["neurs"]}, cos
    # recurrent serial
    fb_prev = mem.get("fb")
    if fb_prev is None:
        fb_prev = torch.zeros((case["batch"],) + tuple(case["neurs"]["nfb"]["shape"]), dtype=torch.bool)
    co_ff = C["ff"](torch.tensor(xs["ff"][t]))
    co_fb = C["fb"](fb_prev)
    ff = N["nff"](_apply(case["tf"]["ff"], co_ff) + _apply(case["tf"]["fb"], co_fb), **nkw)
    co_lat = C["lat"](ff)
    fb = N["nfb"](_apply(case["tf"]["lat"], co_lat), **nkw)
    mem["fb"] = fb
    return {"nff": ff, "nfb": fb}, {"ff": co_ff, "fb": co_fb, "lat": co_lat}


def _copy_adaptations(src_comps, dst_comps):
    for k, n in src_comps["neur"].items():
        for attr in ("threshold_adaptation", "current_adaptation", "adaptation"):
            if hasattr(n, attr):
                try:
                    v = getattr(n, attr)
                except Exception:  # noqa: BLE001
                    continue
                if isinstance(v, torch.Tensor):
                    setattr(dst_comps["neur"][k], attr, v.detach().clone())


def run_wiring(case):
    with impl("build layer"):
        layer, lc = build(case, True)
    with impl("build twins"):
        _, tw = build(case, False)
    xs = _inputs(case)
    mem = {}
    spikes_total = 0
    amb = 0
    capture = case["capture"]
    for t in range(case["steps"]):
        with impl(f"layer step {t}"):
            outs, inter = layer_step(case, layer, xs, t, capture)
        with impl(f"twin components step {t}"):
            mouts, minter = model_step(case, tw, xs, t, mem)
        check(set(outs) == set(mouts), "outputs:keys", lambda: f"step {t}: outputs {sorted(outs)} != {sorted(mouts)}")
        for k in mouts:
            want_shape = (case["batch"],) + tuple(case["neurs"][k]["shape"])
            check(tuple(outs[k].shape) == want_shape, "outputs:shape",
                  lambda: f"step {t}: output '{k}' has shape {tuple(outs[k].shape)}, neuron group's batched shape is {want_shape}")
            check(outs[k].dtype == torch.bool, "outputs:dtype", lambda: f"step {t}: output '{k}' dtype {outs[k].dtype}")
            if not torch.equal(outs[k], mouts[k]):
                lv, mv = lc["neur"][k].voltage, tw["neur"][k].voltage
                raise_ = True
                if lv.shape == mv.shape and float((lv - mv).abs().max()) <= 1e-4:
                    raise_ = False
                    amb += 1
                check(not raise_, "wiring:spikes",
                      lambda: f"step {t}: layer output '{k}' differs from the documented composition on twin components "
                              f"({int((outs[k] != mouts[k]).sum())} of {outs[k].numel()} elements; kind {case['kind']}, "
                              f"combine {case.get('combine')}, transforms {case['tf']})")
            spikes_total += int(outs[k].sum())
        if capture:
            check(set(inter) == set(minter), "capture:keys", lambda: f"step {t}: intermediate {sorted(inter)} != {sorted(minter)}")
            for k in minter:
                check(inter[k].shape == minter[k].shape and torch.allclose(inter[k], minter[k], rtol=1e-6, atol=1e-6),
                      "capture:value", lambda: f"step {t}: captured output of connection '{k}' differs from the connection's own output")
        for k in mouts:
            lv, mv = lc["neur"][k].voltage, tw["neur"][k].voltage
            check(lv.shape == mv.shape and torch.allclose(lv, mv, rtol=1e-5, atol=1e-4), "wiring:voltage",
                  lambda: f"step {t}: voltage of '{k}' (shape {tuple(lv.shape)}) differs from twin (shape {tuple(mv.shape)})")
    nt = spikes_total >= 1
    return {"nt": bool(nt), "cls": [case["kind"], f"combine={case.get('combine')}", "capture" if capture else "nocapture"], "amb": amb}


def run_clear(case):
    xs = _inputs(case)
    T = case["steps"]
    R = case["replay"]
    spikes_before = spikes_after = 0
    # reference: fresh layer run on the first R inputs -- built per clear position because
    # adaptations learned before the clear are kept (and copied into the fresh layer)
    for c in range(0, T + 1):  # c = 0: clear() before the very first forward call (top-of-epoch clear)
        with impl("build layer"):
            layer, lc = build(case, True)
        with impl(f"run {c} steps"):
            for t in range(c):
                o, _ = layer_step(case, layer, xs, t)
                spikes_before += sum(int(v.sum()) for v in o.values())
        params_before = {k: v.detach().clone() for k, v in layer.named_parameters()}
        with impl(f"layer.clear() after {c} steps"):
            if case["clear_kw"] is None:
                layer.clear()
            else:
                layer.clear(keep_adaptations=case["clear_kw"])
        for k, v in layer.named_parameters():
            check(torch.equal(v.detach(), params_before[k]), "clear:params", lambda: f"clear() after {c} steps changed parameter {k}")
        with impl("build fresh"):
            fresh, fc = build(case, True)
        if case["clear_kw"] is not False:
            _copy_adaptations(lc, fc)
        for t in range(R):
            with impl(f"replay step {t} after clear at {c}"):
                o1, _ = layer_step(case, layer, xs, t)
                o2, _ = layer_step(case, fresh, xs, t)
            for k in o2:
                check(o1[k].shape == o2[k].shape and torch.equal(o1[k], o2[k]), "clear:replay",
                      lambda: f"clear() after {c} steps, replay step {t}: output '{k}' differs from a freshly built layer "
                              f"({case['kind']})")
                spikes_after += int(o2[k].sum())
        ok, why = B.states_equal(B.module_state(layer), B.module_state(fresh))
        check(ok, "clear:state", lambda: f"clear() after {c} steps then {R} replayed steps: state differs from fresh layer: {why}")
    delayed = any(c.get("delay") for c in case["conns"].values())
    nt = spikes_before >= 1 and spikes_after >= 1
    return {"nt": bool(nt), "cls": [case["kind"], "delayed" if delayed else "undelayed", f"kw={case['clear_kw']}"]}


# ---------------------------------------------------------------------------- generators


def _syn(draw):
    return {"cls": draw(st.sampled_from(B.SYNAPSES)), "q": draw(st.sampled_from([60.0, 150.0])),
            "inplace": draw(st.booleans())}


def _conn(draw, inshape, outshape, allow_direct=True):
    t = "dense"
    if allow_direct and list(inshape) == list(outshape):
        t = draw(st.sampled_from(["dense", "direct", "lateral"]))
    c = {"type": t, "inshape": list(inshape), "outshape": list(outshape), "syn": _syn(draw),
         "bias": draw(st.booleans()), "delay": draw(st.sampled_from([None, None, 1, 3])),
         "wseed": draw(st.integers(0, 9999)), "dseed": draw(st.integers(0, 9999)),
         "updater": draw(st.booleans())}
    return c


def _neur(draw, shape, adaptive_ok=True):
    cls = draw(st.sampled_from(B.NEURONS if adaptive_ok else [n for n in B.NEURONS if n not in B.ADAPTIVE]))
    return {"cls": cls, "shape": list(shape), "refrac": draw(st.sampled_from([1, 2, 3]))}


@st.composite
def layer_case(draw, tier="quick", for_clear=False):
    kind = draw(st.sampled_from(["serial", "biclique", "recurrent"]))
    tfn = st.sampled_from(["none", "none", "half", "plus", "neg"])
    case = {"kind": kind, "dt": draw(st.sampled_from([1.0, 0.5])), "batch": draw(st.integers(1, 3)),
            "steps": draw(st.integers(3, 8 if for_clear else 15)), "sseed": draw(st.integers(0, 99999)),
            "rate": draw(st.sampled_from([0.3, 0.6, 0.9])), "train": draw(st.booleans()),
            "capture": draw(st.booleans()), "tf": {}, "conns": {}, "neurs": {},
            "names": draw(st.booleans()), "nkw": draw(st.sampled_from([None, None, {"refrac_lock": False}]))}
    shp = st.sampled_from([[2], [3], [2, 2]])
    if kind == "serial":
        i, o = draw(shp), draw(shp)
        case["conns"]["c0"] = _conn(draw, i, o)
        case["neurs"]["n0"] = _neur(draw, o)
        case["tf"]["c0"] = draw(tfn)
    elif kind == "biclique":
        o = draw(shp)
        for j in range(draw(st.integers(1, 3))):
            case["conns"][f"c{j}"] = _conn(draw, draw(shp), o)
            case["tf"][f"c{j}"] = draw(tfn)
        for j in range(draw(st.integers(1, 3))):
            case["neurs"][f"n{j}"] = _neur(draw, o)
            case["tf"][f"n{j}"] = draw(tfn)
        case["combine"] = draw(st.sampled_from(["sum", "mean", "prod", "min", "max", "custom", "sum", "mean"]))
        case["subset_steps"] = draw(st.lists(st.integers(0, 14), max_size=3, unique=True))
    else:
        i, n, m = draw(shp), draw(shp), draw(shp)
        case["conns"]["ff"] = _conn(draw, i, n)
        case["conns"]["lat"] = _conn(draw, n, m)
        case["conns"]["fb"] = _conn(draw, m, n)
        case["neurs"]["nff"] = _neur(draw, n)
        case["neurs"]["nfb"] = _neur(draw, m)
        for k in ("ff", "lat", "fb"):
            case["tf"][k] = draw(tfn)
        case["trainable_fb"] = draw(st.booleans())
    if for_clear:
        case["replay"] = draw(st.integers(2, 6))
        case["replay"] = min(case["replay"], case["steps"])
        case["clear_kw"] = draw(st.sampled_from([None, None, True, False]))
    return case


LEGS = [
    Leg(name="wiring", run=run_wiring, strategy=lambda tier: layer_case(tier, False),
        quick=100, thorough=1200, quick_shards=6, thorough_shards=8, nt_floor=0.3,
        rule="Serial / Biclique (1-3 connections x 1-3 neuron groups, combine sum/mean/prod/min/max/custom, transforms) / "
             "RecurrentSerial (+- trainable feedback, transforms) from generated neurons x synapses x connections (delays, bias), "
             "3-15 steps; non-trivial = >= 1 output spike"),
    Leg(name="clear", run=run_clear, strategy=lambda tier: layer_case(tier, True),
        quick=40, thorough=400, quick_shards=8, thorough_shards=8, nt_floor=0.15,
        rule="same layers; clear() (and clear(keep_adaptations=...)) inserted at EVERY position of a 3-8 step run, then 2-6 "
             "replayed steps compared (outputs and full module state) with a freshly built layer carrying the same parameters "
             "and adaptations; non-trivial = >= 1 spike before and after the clear"),
]

ASSUMPTIONS = [
    "the composition oracle uses twin COMPONENT instances (connection / neuron forwards are C03-C06's subject); the combine "
    "functions and transforms are evaluated by the model",
    "recurrent layers use refractory periods >= 1 step (with refrac_t == 0 the neuron.spike attribute the layer feeds back is "
    "the C03 known finding)",
]

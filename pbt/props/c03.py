"""C03 — neuron step contract: threshold, reset, absolute refractory period, spike flag.

All eight shipped classes (LIF, ALIF, GLIF1, GLIF2, QIF, Izhikevich, EIF, AdEx).

Legs (one interpreter, ``_run``; two generators)
  step  : generated trajectories (in ~60 % of the cases runs of equal drive, or the whole trajectory,
          are fed through ONE re-used input tensor object, as a caller with a constant drive does; the
          reference always uses the intended drive values and ``forward`` must leave the tensor unchanged).
          After every ``forward`` the implementation is compared with
          the one-step reference (pbt.models.neurons.NeuronRef) evaluated from the
          implementation's *observed* pre-state, plus the trajectory statements of the property
          (silence / held voltage for the documented number of steps after an observed spike,
          remaining refractory time >= 0, ``neuron.spike`` == returned spikes, bool output of
          shape (B, *shape)).
  exact : threshold boundary with dyadic parameters: the voltage is assigned through the public
          setter relative to the current threshold and the stationary current is fed, so the
          documented update is exact in the working dtype and ``V == Theta`` must fire
          (``>=`` vs ``>``) with no tolerance involved.  Linear and quadratic families only
          (the exponential term is inexact).

Soundness guards: refractory countdown and its ``== 0`` mask are evaluated in the state's own
dtype and on the exact stored values; where the two disagree either outcome is accepted
(counted ambiguous).  Refractory length is asserted as a lower bound only.  Spike decisions
with |V - Theta| inside the float error bound are accepted either way (ambiguous) unless the
arithmetic is provably exact.  Trajectories stop when the reference leaves the finite range.
The ``spike`` attribute comparison is switched off by construction in 80 % of the cases with
``refrac_t == 0`` (known finding: the attribute is derived as ``refrac == refrac_t``); every
other check still runs in those cases, and the mismatch is raised only after the rest of the
trajectory has been checked.
"""

from __future__ import annotations

import contextlib
from fractions import Fraction

import numpy as np
import torch
from hypothesis import strategies as st

from ..harness import Leg, Violation, check, impl
from ..models.neurons import (
    ADAPT_CURRENT,
    ADAPT_THRESH,
    CLASSES,
    EXPONENTIAL,
    LINEAR,
    QUADRATIC,
    NeuronRef,
)

TDT = {"float32": torch.float32, "float64": torch.float64}
RED = {None: None, "sum": torch.sum, "amax": torch.amax}


@contextlib.contextmanager
def _default_dtype(name):
    old = torch.get_default_dtype()
    torch.set_default_dtype(TDT[name])
    try:
        yield
    finally:
        torch.set_default_dtype(old)


def _build(case):
    import inferno.neural as inn

    cls = getattr(inn, case["cls"])
    kw = dict(case["params"])
    for k, v in list(kw.items()):
        if isinstance(v, list):
            kw[k] = tuple(v)
    kw["refrac_t"] = case["refrac_t"]
    kw["batch_size"] = case["batch"]
    if case["cls"] in ADAPT_THRESH + ADAPT_CURRENT and case.get("reduction") is not None:
        kw["batch_reduction"] = RED[case["reduction"]]
    shape = case["shape"]
    n = cls(tuple(shape), case["dt"], **kw)
    n.train(bool(case.get("train", True)))
    return n


def _np(t, wd):
    a = t.detach().clone().numpy()
    assert a.dtype == wd, f"state dtype {a.dtype}, expected {wd}"
    return a


def _adapt_state(n, cls, wd):
    if cls in ADAPT_THRESH:
        return _np(n.threshold_adaptation, wd)
    if cls in ADAPT_CURRENT:
        return _np(n.current_adaptation, wd)
    return None


def _nextafter_n(x, k, wd):
    x = wd(x)
    for _ in range(abs(k)):
        x = np.nextafter(x, wd(np.inf if k > 0 else -np.inf), dtype=wd)
    return x


def _resolve_set(spec, theta, wd):
    """Voltage assignment value for one element (a number in the working dtype)."""
    k = spec[0]
    if k == "th":  # threshold + num / 2**pw
        return wd(theta + spec[1] / float(1 << spec[2]))
    if k == "thulp":  # n-th neighbour of the threshold in the working dtype
        return _nextafter_n(theta, spec[1], wd)
    if k == "abs":
        return wd(spec[1])
    raise ValueError(k)


def _run(case):
    cls, dtype = case["cls"], case["dtype"]
    wd = np.float32 if dtype == "float32" else np.float64
    ref = NeuronRef(cls, case["params"], case["dt"], case["refrac_t"], dtype)
    B, shape = case["batch"], tuple(case["shape"])
    full = (B,) + shape
    numel = int(np.prod(full))
    adaptive = cls in ADAPT_THRESH + ADAPT_CURRENT
    Ls = ref.silent_steps()
    want_attr = bool(case.get("attr", True))

    c = dict.fromkeys(
        ["steps", "spk", "sub", "win_supra", "respike", "amb", "maskamb", "exact_eq", "exact_lt",
         "exact_gt", "masked", "held", "attr_cmp", "reused", "reused_spk", "overflow"], 0)
    labels = set()
    deferred = None

    with _default_dtype(dtype):
        with impl("construct"):
            n = _build(case)
        silent = np.zeros(full, dtype=np.int64)  # remaining steps of the documented silent window
        prev_spk = np.zeros(full, dtype=bool)
        held_x, held_vals = None, None  # the caller's input tensor object and its INTENDED contents

        for si, stp in enumerate(case["steps"]):
            with impl("read state"):
                v0, r0 = _np(n.voltage, wd), _np(n.refrac, wd)
                a0 = _adapt_state(n, cls, wd)
            assert v0.shape == full and r0.shape == full, (v0.shape, r0.shape, full)
            if not (np.isfinite(v0).all() and np.isfinite(r0).all()):
                labels.add("stop:nonfinite-state")
                break
            th, thtol = ref.theta(a0)
            th = np.broadcast_to(np.asarray(th, dtype=np.float64), full)
            thtol = np.broadcast_to(np.asarray(thtol, dtype=np.float64), full)
            a0b = None if a0 is None else np.broadcast_to(a0, full + a0.shape[-1:])

            if stp.get("set"):
                pool = stp["set"]
                vs = np.array(
                    [_resolve_set(pool[j % len(pool)], th.reshape(-1)[j], wd) for j in range(numel)],
                    dtype=wd).reshape(full)
                if np.isfinite(vs).all():
                    with impl("voltage setter"):
                        n.voltage = torch.from_numpy(vs.copy())
                        v0 = _np(n.voltage, wd)
                    assert np.array_equal(v0, vs), "voltage setter did not store the assigned values"

            if stp.get("overflow"):
                # ---- overflow step (constant-reset classes): a finite drive so large that the integrated
                # voltage is +inf / > 1e30.  The contract still applies: out of refractory and V >= Theta
                # => spike, voltage == reset_v exactly (finite), refrac == refrac_t.  Ends the trajectory.
                assert cls != "GLIF2"
                sgn = 1.0 if ref.R > 0 else -1.0
                if cls in LINEAR:  # keep R*I finite: (V - rest - R I) d + rest + R I would be inf - inf otherwise
                    mag = (1e37 if wd is np.float32 else 1e300) / max(1.0, abs(ref.R))
                else:
                    mag = 3e38 if wd is np.float32 else 1e308
                ixw = np.full(full, sgn * mag, dtype=wd)
                dec, mask, mask_exact = ref.countdown(r0)
                with np.errstate(all="ignore"):
                    ieff, iabs = ref.eff_input(ixw.astype(np.float64), a0b)
                    vin, _ = ref.integrate(v0.astype(np.float64), ieff, iabs)
                sure = mask & mask_exact & ~np.isnan(vin) & (vin > 1e30)
                x = torch.from_numpy(ixw.copy())
                kw = {"refrac_lock": bool(stp.get("lock", True))}
                if adaptive:
                    kw["adapt"] = stp.get("adapt", None)
                with impl(f"forward overflow step {si}"):
                    out = n(x, **kw)
                    v1, r1 = _np(n.voltage, wd), _np(n.refrac, wd)
                what = f"{cls} overflow step {si}"
                check(isinstance(out, torch.Tensor) and out.dtype == torch.bool and tuple(out.shape) == full,
                      "output:dtype", lambda: f"{what}: forward returned {getattr(out, 'dtype', None)} {tuple(getattr(out, 'shape', ()))}")
                sp = out.detach().clone().numpy()
                bad = sure & ~sp
                check(not bad.any(), "overflow:nospike",
                      lambda: f"{what}: no spike although out of refractory and the integrated voltage overflows "
                              f"(reference V={vin[bad][0]!r}, I={ixw[bad][0]!r}, pre V={v0[bad][0]!r}) at {np.argwhere(bad)[0].tolist()}")
                rv = wd(case["params"]["reset_v"])
                bad = sure & ~(np.isfinite(v1) & (v1 == rv))
                check(not bad.any(), "overflow:reset",
                      lambda: f"{what}: voltage after the spike is {v1[bad][0]!r}, documented reset_v {rv!r} "
                              f"(I={ixw[bad][0]!r}, pre V={v0[bad][0]!r}) at {np.argwhere(bad)[0].tolist()}")
                bad = sure & ~(r1 == wd(case["refrac_t"]))
                check(not bad.any(), "overflow:refrac",
                      lambda: f"{what}: remaining refractory time {r1[bad][0]!r} after the spike, expected {case['refrac_t']!r}")
                c["overflow"] += int(sure.sum())
                if sure.any():
                    labels.add("overflow-step")
                break

            # ---- input currents (symbolic drives resolved against the observed pre-state)
            v64 = v0.astype(np.float64)
            same = bool(stp.get("same")) and held_x is not None
            pool = stp["el"] if not same else [["z"]]
            stat = ref.stationary_current(v64, a0b)
            ix = np.zeros(numel, dtype=np.float64)
            for j in range(numel):
                e = pool[j % len(pool)]
                k = e[0]
                idx = np.unravel_index(j, full)
                if k == "z":
                    val = 0.0
                elif k == "c":
                    val = float(e[1])
                elif k == "h":
                    val = 1e4 * e[1]
                elif k == "s":
                    val = float(stat[idx])
                elif k in ("t", "tr"):
                    t_j = th[idx]
                    tgt = t_j + (e[1] if k == "t" else e[1] * max(1.0, abs(t_j)))
                    ab = None if a0b is None else a0b[idx]
                    val = float(ref.current_for_target(v64[idx], ab, tgt))
                else:
                    raise ValueError(k)
                if not np.isfinite(val) or abs(val) > 1e6:
                    val = 0.0
                ix[j] = val
            # "same": the caller drives the neuron with the SAME tensor object as in the previous call
            # (constant drive); the reference uses the intended values, never the tensor's contents
            ixw = held_vals if same else ix.reshape(full).astype(wd)
            ix64 = ixw.astype(np.float64)
            lock = bool(stp.get("lock", True))
            kw = {"refrac_lock": lock}
            if adaptive:
                kw["adapt"] = stp.get("adapt", None)

            # ---- reference, evaluated before the call so that an overflowing step is not run
            dec, mask, mask_exact = ref.countdown(r0)
            ieff, iabs = ref.eff_input(ix64, a0b)
            vin, sc_in = ref.integrate(v64, ieff, iabs)
            vz, sc_z = ref.integrate(v64, np.zeros_like(v64))
            possibly_unmasked = mask | mask_exact
            possibly_masked = ~(mask & mask_exact)
            risky = np.zeros(full, dtype=bool)
            risky |= possibly_unmasked & ~(np.isfinite(vin) & (np.abs(vin) < ref.big) & (sc_in < ref.big))
            if not lock:
                risky |= possibly_masked & ~(np.isfinite(vz) & (np.abs(vz) < ref.big) & (sc_z < ref.big))
            if risky.any():
                labels.add("stop:overflow")
                break

            if not same:
                held_x, held_vals = torch.from_numpy(ixw.copy()), ixw
            else:
                c["reused"] += 1
            with impl(f"forward step {si}"):
                out = n(held_x, **kw)
            what = f"{cls} step {si}"
            check(isinstance(out, torch.Tensor) and out.dtype == torch.bool, "output:dtype",
                  lambda: f"{what}: forward returned {type(out).__name__} {getattr(out, 'dtype', None)}")
            check(tuple(out.shape) == full, "output:shape",
                  lambda: f"{what}: forward returned shape {tuple(out.shape)}, expected {full}")
            sp = out.detach().clone().numpy()
            with impl("read state"):
                v1, r1 = _np(n.voltage, wd), _np(n.refrac, wd)
                attr = n.spike if want_attr else None
            check(v1.shape == full and r1.shape == full, "state:shape",
                  lambda: f"{what}: voltage {v1.shape} refrac {r1.shape}, expected {full}")
            c["steps"] += 1

            # ---- property statements over the observed trajectory (no reference involved)
            check(bool((r1 >= 0).all()), "refrac:negative",
                  lambda: f"{what}: remaining refractory time {r1.min()} < 0 (dt={case['dt']} refrac_t={case['refrac_t']})")
            inwin = silent > 0
            bad = inwin & sp
            check(not bad.any(), "window:spike",
                  lambda: f"{what}: spike {int(silent[bad].max())} step(s) before the end of the documented silent window "
                          f"(refrac_t={case['refrac_t']} dt={case['dt']} => {Ls} silent steps) at {np.argwhere(bad)[0].tolist()}")
            if lock:
                bad = inwin & ~(v1 == v0)
                check(not bad.any(), "window:voltage",
                      lambda: f"{what}: locked voltage changed inside the silent window at {np.argwhere(bad)[0].tolist()}: "
                              f"{v0[bad][0]!r} -> {v1[bad][0]!r}")

            # ---- one-step reference
            mask_amb = mask != mask_exact
            impl_mask = sp | (r1 == 0)
            m = np.where(mask_amb, impl_mask, mask)
            c["maskamb"] += int(mask_amb.sum())
            vint = np.where(m, vin, vz)
            tolv = ref.tol(np.where(m, sc_in, sc_z))
            band = tolv + thtol + 1e-300
            margin = vint - th
            exp_spk = m & (margin >= 0)
            decisive = ~m | (np.abs(margin) > band)
            for idx in np.argwhere(m & ~decisive):
                idx = tuple(idx)
                ex = ref.exact_threshold(v0[idx], ixw[idx], None if a0b is None else a0b[idx])
                if ex is not None and not mask_amb[idx]:
                    exp_spk[idx] = ex[0] >= ex[1]
                    decisive[idx] = True
                    c["exact_eq" if ex[0] == ex[1] else "exact_lt" if ex[0] < ex[1] else "exact_gt"] += 1
                else:
                    exp_spk[idx] = sp[idx]
                    c["amb"] += 1

            bad = decisive & ~m & sp
            check(not bad.any(), "spike:refractory",
                  lambda: f"{what}: spike while the remaining refractory time is positive at {np.argwhere(bad)[0].tolist()}: "
                          f"refrac before {r0[bad][0]!r}, dt {case['dt']}")
            bad = decisive & m & exp_spk & ~sp
            check(not bad.any(), "spike:missing",
                  lambda: f"{what}: no spike although out of refractory and V={vint[bad][0]!r} >= Theta={th[bad][0]!r} "
                          f"at {np.argwhere(bad)[0].tolist()} (pre V={v0[bad][0]!r}, I={ixw[bad][0]!r}, band={band[bad][0]:.3g})")
            bad = decisive & m & ~exp_spk & sp
            check(not bad.any(), "spike:spurious",
                  lambda: f"{what}: spike although V={vint[bad][0]!r} < Theta={th[bad][0]!r} at {np.argwhere(bad)[0].tolist()} "
                          f"(pre V={v0[bad][0]!r}, I={ixw[bad][0]!r}, band={band[bad][0]:.3g})")

            # post-state given the (now verified or ambiguous) spikes
            rt = wd(case["refrac_t"])
            exp_r = np.where(sp, rt, dec)
            rtol_r = 4 * ref.eps * max(case["dt"], case["refrac_t"], 1e-30)
            okr = np.abs(r1.astype(np.float64) - exp_r.astype(np.float64)) <= rtol_r
            okr |= mask_amb & ~sp & (r1 <= 1e-5 * case["dt"])
            bad = ~okr
            check(not bad.any(), "refrac:value",
                  lambda: f"{what}: remaining refractory time {r1[bad][0]!r}, expected {exp_r[bad][0]!r} at "
                          f"{np.argwhere(bad)[0].tolist()} (before {r0[bad][0]!r}, spiked {bool(sp[bad][0])})")

            v1_64 = v1.astype(np.float64)
            rv, rvtol = ref.reset_value(vint, tolv)
            rv = np.broadcast_to(np.asarray(rv, dtype=np.float64), full)
            rvtol = np.broadcast_to(np.asarray(rvtol, dtype=np.float64), full)
            bad = sp & ~(np.abs(v1_64 - rv) <= rvtol + 1e-300)
            check(not bad.any(), "reset:value",
                  lambda: f"{what}: voltage after spike {v1[bad][0]!r}, documented reset {rv[bad][0]!r} "
                          f"(tol {rvtol[bad][0]:.3g}) at {np.argwhere(bad)[0].tolist()}")
            held = ~sp & ~m & lock
            bad = held & ~(v1 == v0)
            check(not bad.any(), "lock:changed",
                  lambda: f"{what}: voltage of a refractory neuron changed with refrac_lock=True at "
                          f"{np.argwhere(bad)[0].tolist()}: {v0[bad][0]!r} -> {v1[bad][0]!r}")
            integ = ~sp & ~held
            bad = integ & ~(np.abs(v1_64 - vint) <= tolv + 1e-300)
            check(not bad.any(), "voltage:value",
                  lambda: f"{what}: voltage {v1[bad][0]!r}, documented update gives {vint[bad][0]!r} (tol {tolv[bad][0]:.3g}) at "
                          f"{np.argwhere(bad)[0].tolist()} (pre V={v0[bad][0]!r}, I={ixw[bad][0]!r}, "
                          f"out-of-refractory={bool(m[bad][0])})")

            # forward must leave the caller's input tensor alone (a caller re-using one tensor for a
            # constant drive would otherwise see its drive zeroed after the first refractory step)
            xin = held_x.detach().numpy()
            bad = ~((xin == held_vals) | (np.isnan(xin) & np.isnan(held_vals)))
            check(not bad.any(), "input:mutated",
                  lambda: f"{what}: forward modified the caller's input tensor in place at {np.argwhere(bad)[0].tolist()}: "
                          f"{held_vals[bad][0]!r} -> {xin[bad][0]!r} (refractory before the step: {r0[bad][0]!r})")

            # spike attribute (mismatch deferred so that the rest of the trajectory is checked)
            if want_attr:
                check(isinstance(attr, torch.Tensor) and attr.dtype == torch.bool and tuple(attr.shape) == full,
                      "spike_attr:type", lambda: f"{what}: neuron.spike is {type(attr).__name__} "
                      f"{getattr(attr, 'dtype', None)} {tuple(getattr(attr, 'shape', ()))}")
                at = attr.detach().clone().numpy()
                c["attr_cmp"] += 1
                if not np.array_equal(at, sp):
                    n_tf, n_ft = int((at & ~sp).sum()), int((~at & sp).sum())
                    if deferred is None:
                        w = np.argwhere(at != sp)
                        deferred = Violation(
                            "spike_attr:mismatch",
                            f"{what}: neuron.spike != spikes returned by forward at {len(w)} of {numel} positions, "
                            f"first {w[0].tolist()}: attribute {bool(at[tuple(w[0])])}, returned {bool(sp[tuple(w[0])])} "
                            f"(refrac_t={case['refrac_t']}, dt={case['dt']})",
                            {"refrac_t": case["refrac_t"], "first_step": si, "steps": 0,
                             "attr_true_returned_false": 0, "attr_false_returned_true": 0},
                        )
                    # totals over the whole trajectory (the known finding is the all-True direction only)
                    deferred.info["steps"] += 1
                    deferred.info["attr_true_returned_false"] += n_tf
                    deferred.info["attr_false_returned_true"] += n_ft

            # ---- bookkeeping for the non-trivial rule
            supra = decisive_supra = (vin - th) > ref.tol(sc_in) + thtol
            c["spk"] += int((decisive & sp).sum())
            c["sub"] += int((decisive & m & ~sp).sum())
            c["win_supra"] += int((inwin & decisive_supra).sum())
            c["respike"] += int((prev_spk & sp & supra).sum())
            c["masked"] += int((~m).sum())
            c["held"] += int(held.sum())
            if same:
                c["reused_spk"] += int((decisive & sp).sum())
            silent = np.where(sp, Ls, np.maximum(silent - 1, 0))
            prev_spk = sp

    if deferred is not None:
        raise deferred

    r = Fraction(case["refrac_t"]) / Fraction(case["dt"])
    rcls = "r=0" if r == 0 else "r<=1" if r <= 1 else ("r=int" if abs(r - round(r)) < Fraction(1, 1000) else "r=frac")
    locks = {bool(s.get("lock", True)) for s in case["steps"]}
    labels |= {cls, dtype, rcls, "lock=" + ("mixed" if len(locks) > 1 else str(locks.pop()))}
    for k, lab in (("amb", "ambiguous-threshold"), ("maskamb", "ambiguous-mask"), ("exact_eq", "exact:V==Theta"),
                   ("exact_lt", "exact:V<Theta"), ("spk", "spiked"), ("held", "held-voltage"),
                   ("win_supra", "supra-in-window"), ("reused", "input-tensor-reused"),
                   ("reused_spk", "spike-on-reused-tensor")):
        if c[k]:
            labels.add(lab)
    if case["refrac_t"] == 0:
        labels.add("attr:compared-refrac0" if want_attr else "attr:excluded-refrac0")
    if case["params"].get("resistance", 1.0) < 0:
        labels.add("R<0")
    c["Ls"] = Ls
    return c, sorted(labels)


def run_step(case):
    c, labels = _run(case)
    window = c["win_supra"] >= 1 if c["Ls"] >= 1 else c["respike"] >= 1
    nt = c["spk"] >= 1 and c["sub"] >= 1 and window
    return {"nt": bool(nt), "cls": labels, "amb": c["amb"] + c["maskamb"]}


def run_exact(case):
    c, labels = _run(case)
    nt = c["exact_eq"] >= 1 and (c["exact_lt"] >= 1 or c["sub"] >= 1)
    return {"nt": bool(nt), "cls": labels, "amb": c["amb"] + c["maskamb"]}


# ---------------------------------------------------------------------------- generators


def _q(lo, hi, den):
    return st.integers(int(lo * den), int(hi * den)).map(lambda k: k / den)


def _refrac(draw, dt, kinds=("zero", "int", "frac")):
    kind = draw(st.sampled_from(kinds))
    if kind == "zero":
        return 0.0
    if kind == "int":
        return float(draw(st.sampled_from([1, 1, 2, 2, 3, 4]))) * dt
    base = draw(st.sampled_from([0, 1, 1, 2, 2, 3, 4]))
    frac = draw(st.integers(5, 95)) / 100.0
    return (base + frac) * dt


def _params(draw, cls, dyadic=False):
    """Hyper-parameters inside the constructor's documented domain."""
    S = st.sampled_from
    den = 8 if (dyadic or draw(st.booleans())) else 10
    if dyadic:
        thresh = draw(_q(-8, 8, 4))
        gap = lambda: draw(S([0.5, 1.0, 2.0, 4.0]))  # noqa: E731
        tau = draw(S([1.0, 2.0, 8.0]))
        R = draw(S([1.0, 1.0, 2.0, 0.5, -1.0, 4.0]))
    else:
        thresh = draw(st.one_of(_q(-80, 40, den), S([-50.0, -52.0, 0.0, 1.0, 30.0])))
        gap = lambda: draw(st.one_of(_q(0.25, 30, den).filter(lambda x: x > 0), S([5.0, 10.0, 15.0])))  # noqa: E731
        tau = draw(S([0.5, 1.0, 2.0, 5.0, 10.0, 20.0, 100.0]))
        R = draw(S([1.0, 1.0, 1.0, 0.5, 2.0, 10.0, 0.1, -1.0]))
    p = {}
    if cls in LINEAR:
        p["rest_v"] = thresh - gap()
        if cls == "GLIF2":
            p["reset_v_add"] = draw(S([0.0, 1.0, 5.0, -2.0, 10.0] if not dyadic else [0.0, 1.0, 2.0, -1.0]))
            p["reset_v_mul"] = draw(S([0.0, 0.25, 0.5, 1.0, -0.5, 0.9] if not dyadic else [0.0, 0.5, 1.0, -0.5]))
        else:
            p["reset_v"] = thresh - gap()
        p["thresh_v" if cls in ("LIF", "GLIF1") else "thresh_eq_v"] = thresh
        p["time_constant" if cls in ("LIF", "GLIF1") else "tc_membrane"] = tau
        if cls in ADAPT_THRESH:
            k = draw(S([1, 1, 2, 3]))
            key = "tc_adaptation" if cls == "ALIF" else "rc_adaptation"
            p[key] = [draw(S([0.5, 1.0, 5.0, 20.0, 100.0] if cls == "ALIF" else [0.01, 0.1, 0.5, 1.0, 2.0]))
                      for _ in range(k)]
            p["spike_increment"] = [
                draw(S([0.0, 0.5, 1.0, 2.0, 5.0, -0.5, 10.0] if not dyadic else [0.0, 0.0, 0.5, 1.0, -0.25]))
                for _ in range(k)]
            if k == 1 and draw(st.booleans()):  # scalar form of the arguments
                p[key], p["spike_increment"] = p[key][0], p["spike_increment"][0]
    else:
        mid = thresh - (draw(S([0.0, 1.0, 2.0])) if dyadic else draw(st.one_of(S([0.0, 0.0]), _q(0, 20, den))))
        p["rest_v"] = mid - gap()
        if cls in QUADRATIC:
            p["crit_v"] = mid
            p["affinity"] = draw(S([0.04, 0.1, 0.5, 1.0, 2.0] if not dyadic else [0.25, 0.5, 1.0, 2.0]))
        else:
            p["rheobase_v"] = mid
            p["sharpness"] = draw(S([0.5, 1.0, 2.0, 5.0]))
        p["reset_v"] = thresh - gap()
        p["thresh_v"] = thresh
        p["time_constant" if cls in ("QIF", "EIF") else "tc_membrane"] = tau
        if cls in ADAPT_CURRENT:
            k = draw(S([1, 1, 2, 3]))
            p["tc_adaptation"] = [draw(S([0.5, 1.0, 5.0, 20.0, 100.0])) for _ in range(k)]
            p["voltage_coupling"] = [draw(S([0.0, 0.2, -0.1, 1.0, 2.0] if not dyadic else [0.0, 0.0, 0.5])) for _ in range(k)]
            p["spike_increment"] = [draw(S([0.0, 0.5, 2.0, 8.0, -1.0] if not dyadic else [0.0, 0.0, 0.5, 1.0])) for _ in range(k)]
            if k == 1 and draw(st.booleans()):
                for key in ("tc_adaptation", "voltage_coupling", "spike_increment"):
                    p[key] = p[key][0]
    p["resistance"] = R
    return p


_DRIVE = st.one_of(
    st.just(["z"]),
    st.tuples(st.just("c"), st.one_of(_q(-50, 50, 8), st.sampled_from([-3.0, 0.5, 7.0, 25.0, 200.0, -200.0]))),
    st.tuples(st.just("h"), st.sampled_from([1, 1, -1])),
    st.tuples(st.just("t"), st.sampled_from([-20.0, -5.0, -1.0, -0.1, 0.1, 1.0, 5.0, 20.0, 5.0, 20.0])),
    st.tuples(st.just("t"), st.sampled_from([-20.0, -5.0, -1.0, -0.1, 0.1, 1.0, 5.0, 20.0, 5.0, 20.0])),
    st.tuples(st.just("t"), st.sampled_from([5.0, 20.0, 1.0, 60.0])),
    st.tuples(st.just("tr"), st.sampled_from([0.0, 1e-3, -1e-3, 1e-3, -1e-3])),
    st.just(["s"]),
).map(list)


# drives that make a neuron fire repeatedly when held constant
_STRONG = st.one_of(
    st.tuples(st.just("h"), st.sampled_from([1, 1, -1])),
    st.tuples(st.just("c"), st.sampled_from([25.0, 200.0, 60.0, -200.0, 7.0])),
    st.tuples(st.just("t"), st.sampled_from([5.0, 20.0, 60.0, 1.0])),
).map(list)


@st.composite
def step_case(draw, tier="quick"):
    S = st.sampled_from
    cls = draw(S(CLASSES))
    dtype = draw(S(["float32", "float32", "float64"]))
    dt = draw(S([0.1, 0.5, 1.0, 1.3, 0.25]))
    refrac_t = _refrac(draw, dt, ("int", "frac", "zero", "int", "frac", "int", "frac"))
    big = tier == "thorough"
    shape = draw(S([[1], [3], [2, 2], [3], [2]] + ([[4, 3], [2, 3, 2]] if big else [])))
    batch = draw(S([1, 2, 3] + ([4] if big else [])))
    numel = batch * int(np.prod(shape))
    params = _params(draw, cls)
    adaptive = cls in ADAPT_THRESH + ADAPT_CURRENT
    lockmode = draw(S(["T", "T", "F", "mixed"]))
    adaptmode = draw(S(["T", "T", "F", "N", "mixed"])) if adaptive else "F"
    nmax = 40
    nsteps = draw(st.integers(5, nmax))
    # constant-drive stratum: "same" steps repeat the previous step's drive through the SAME tensor object
    # ("runs": about half of the steps; "all": one tensor for the whole trajectory, supra-threshold drive)
    reuse = draw(S(["no", "runs", "no", "all", "runs"]))
    steps = []
    for k in range(nsteps):
        el = draw(st.lists(_DRIVE if not (reuse == "all" and k == 0) else _STRONG, min_size=1,
                           max_size=min(numel, 6 if big else 4)))
        s = {"el": el,
             "lock": {"T": True, "F": False}.get(lockmode) if lockmode != "mixed" else draw(st.booleans())}
        if k > 0 and (reuse == "all" or (reuse == "runs" and draw(st.booleans()))):
            s["same"] = True
        if adaptive:
            s["adapt"] = {"T": True, "F": False, "N": None}.get(adaptmode) if adaptmode != "mixed" else draw(S([True, False, None]))
        if reuse != "all" and draw(st.integers(0, 11)) == 0:
            s["set"] = draw(st.lists(st.one_of(
                st.tuples(st.just("th"), st.integers(-64, 64), st.integers(0, 4)),
                st.tuples(st.just("abs"), _q(-90, 50, 8))).map(list), min_size=1, max_size=2))
        steps.append(s)
    if cls != "GLIF2" and draw(st.integers(0, 6)) == 3:
        # overflow stratum: a last step whose finite drive overflows the integrated voltage
        last = {"el": [["z"]], "lock": steps[-1]["lock"], "overflow": True}
        if adaptive:
            last["adapt"] = steps[-1]["adapt"]
        steps.append(last)
    case = {"cls": cls, "dtype": dtype, "dt": dt, "refrac_t": refrac_t, "shape": shape, "batch": batch,
            "params": params, "train": draw(st.booleans()) if adaptive else True, "steps": steps}
    if adaptive:
        case["reduction"] = draw(S([None, None, "sum", "amax"]))
    # known finding (spike attribute with refrac_t == 0): excluded by construction in 80 % of the cases
    case["attr"] = True if refrac_t > 0 else draw(S([False, False, True, False, False]))
    return case


@st.composite
def exact_case(draw, tier="quick"):
    S = st.sampled_from
    cls = draw(S(LINEAR + QUADRATIC))
    dtype = draw(S(["float32", "float64"]))
    dt = draw(S([0.5, 1.0, 0.25]))
    refrac_t = draw(S([1.0, 0.0, 2.0, 0.0, 1.0])) * dt
    shape = draw(S([[1], [2], [3]]))
    batch = draw(S([1, 2]))
    params = _params(draw, cls, dyadic=True)
    if draw(st.booleans()):
        # rest 0 makes V - rest exact even one ulp away from the threshold
        shift = params["rest_v"]
        for k in ("rest_v", "reset_v", "thresh_v", "thresh_eq_v", "crit_v"):
            if k in params:
                params[k] = params[k] - shift
    adaptive = cls in ADAPT_THRESH + ADAPT_CURRENT
    nsteps = draw(st.integers(2, 10 if tier == "quick" else 16))
    steps = []
    probe = st.one_of(
        st.just(["th", 0, 0]), st.just(["th", 0, 0]),
        st.tuples(st.just("th"), st.sampled_from([-1, -1, -3, 1, 3]), st.integers(0, 12)).map(list),
        st.tuples(st.just("th"), st.sampled_from([-1, -1, -3, 1, 3]), st.integers(0, 12)).map(list),
        st.tuples(st.just("thulp"), st.sampled_from([-1, 1, -2])).map(list),
    )
    for _ in range(nsteps):
        s = {"el": [["s"]], "lock": draw(st.booleans()), "set": draw(st.lists(probe, min_size=1, max_size=3))}
        if adaptive:
            s["adapt"] = draw(S([False, False, False, True, None]))
        if draw(st.integers(0, 5)) == 0:
            s = {"el": [draw(_DRIVE)], "lock": s["lock"], **({"adapt": s["adapt"]} if adaptive else {})}
        steps.append(s)
    # the first step always probes the boundary itself, before any adaptation has built up
    steps[0] = {"el": [["s"]], "lock": steps[0]["lock"], "set": [["th", 0, 0]], **({"adapt": False} if adaptive else {})}
    case = {"cls": cls, "dtype": dtype, "dt": dt, "refrac_t": refrac_t, "shape": shape, "batch": batch,
            "params": params, "train": draw(st.booleans()) if adaptive else True, "steps": steps}
    if adaptive:
        case["reduction"] = draw(S([None, "sum"]))
    case["attr"] = True if refrac_t > 0 else draw(S([False, False, True, False, False]))
    return case


LEGS = [
    Leg(
        name="step",
        run=run_step,
        strategy=lambda tier: step_case(tier),
        quick=300, thorough=5000, quick_shards=12, thorough_shards=16, nt_floor=0.35,
        rule="trajectory of 5-40 steps of one of the eight classes with >= 1 decisive spike, >= 1 decisive "
             "sub-threshold step of a non-refractory neuron, and >= 1 supra-threshold drive inside the documented "
             "silent window after a spike (if refrac_t <= dt there is no window: >= 1 supra-threshold drive on the "
             "step right after a spike, which must fire again); distinct by SHA-1 of the case",
    ),
    Leg(
        name="exact",
        run=run_exact,
        strategy=lambda tier: exact_case(tier),
        quick=250, thorough=1500, quick_shards=4, thorough_shards=16, nt_floor=0.35,
        rule="dyadic parameters, voltage assigned relative to the current threshold and stationary current fed: "
             ">= 1 neuron whose integrated voltage equals the threshold exactly with provably exact arithmetic "
             "(must fire) and >= 1 decisive neuron below threshold; linear and quadratic families",
    ),
]

ASSUMPTIONS = [
    "CPU only; state dtype float32 (as shipped) or float64 via torch.set_default_dtype",
    "one-step oracle from the implementation's observed (voltage, refrac, adaptation); the adaptation update "
    "equations themselves are not part of the property statement and are not asserted",
    "spike decisions with |V - Theta| <= 8 eps * (sum of term magnitudes) are accepted either way unless the "
    "arithmetic is provably exact; refractory masks are ambiguous where float32(dt) arithmetic and the exact "
    "stored values disagree; refractory length is a lower bound (ratios within 1e-3 above an integer count as it)",
    "trajectories stop (no verdict) once the reference voltage exceeds 1e30 (float32) / 1e290 (float64) or is "
    "non-finite; inputs are finite, |I| <= 1e6, except the final 'overflow step' of ~14 % of the constant-reset "
    "step cases (|I| up to 3e38 / 1e308): there only spike == True, voltage == reset_v and refrac == refrac_t "
    "are asserted for neurons that are decisively out of refractory (GLIF2's linear reset rule is excluded)",
    "EIF/AdEx have no exact-threshold stratum (inexact exp); their >= is the same shared thresholding function",
]

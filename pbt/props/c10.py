"""C10 — updater algebra: accumulate, reduce, bound, apply once, clear.

Legs
  algebra    : generated operation sequences (contribute / update / updatesome / clear / reduction /
               upperbound / lowerbound / fullbound / peek) over a tiny Updatable module and over a real
               LinearDense connection; one-step oracle from the observed pre-state after every op.
  perm       : the same sequences run on twins whose contribution order is permuted (metamorphic).
  range_traj : long update histories (<= 200 updates) under the dependences for which the property states
               the stay-in-range invariant (and sharp dependence), starting inside [min, max].
  range_step : the same invariants as a one-step property from arbitrary (generated) in-range states,
               including states exactly on / one ulp inside the limits and magnitudes exactly at the cap.
Oracle: pbt.models.updater (NumPy float64 formulas from the docstrings of functional/bounding.py).
"""

from __future__ import annotations

import functools
import math

import numpy as np
import torch
import torch.nn as nn
from hypothesis import strategies as st

from ..harness import Leg, Violation, check, impl
from ..models.updater import AccModel, HALF_KINDS, RANGE_KINDS, range_cap, reduce_parts

DT = {"float32": torch.float32, "float64": torch.float64}
NPDT = {"float32": np.float32, "float64": np.float64}

PALETTE = [0.0, 0.125, 0.25, 0.5, 1.0, 0.1, 0.3, 0.7, 1.5, 2.0]
LIMITS = [-1.0, -0.5, 0.0, 0.25, 0.5, 1.0, 2.0, 0.3, -0.7, 1.1]
POWERS = [1.0, 2.0, 3.0, 1.0, 2.0, 0.5, 1.5]
RANGES = [0.5, 1.0, 2.0, 0.8]
INITS = [-1.0, -0.5, 0.0, 0.25, 0.5, 1.0, 2.0, 0.3, 0.75, -0.2, 1.25]
REDS = [None, "sum", "mean", "amax", "custom"]


# ----------------------------------------------------------------------------------- builders


def _tiny_cls():
    from inferno import Module
    from inferno.neural import Updatable, Updater

    class Tiny(Updatable, Module):
        """Smallest Updatable: parameters held like the shipped mixins hold them (nn.Parameter behind
        a property whose setter assigns ``.data``)."""

        def __init__(self, tensors):
            Module.__init__(self)
            Updatable.__init__(self)
            self._names = []
            for k, t in enumerate(tensors):
                n = "ab"[k]
                self._names.append(n)
                setattr(self, n + "_", nn.Parameter(t, requires_grad=False))

        @property
        def a(self):
            return self.a_

        @a.setter
        def a(self, value):
            self.a_.data = value

        @property
        def b(self):
            return self.b_

        @b.setter
        def b(self, value):
            self.b_.data = value

        def defaultupdater(self, *includes, **kwargs):
            return Updater(self, *self._names, *includes, **kwargs)

    return Tiny


def _vals(pool, shape, dtype):
    n = int(np.prod(shape)) if len(shape) else 1
    arr = np.array([pool[j % len(pool)] for j in range(n)], dtype=np.float64).reshape(shape)
    return arr.astype(NPDT[dtype])


def _t(arr, dtype):
    return torch.tensor(np.asarray(arr, dtype=np.float64), dtype=torch.float64).to(DT[dtype])


def part_shapes(shape):
    shape = tuple(shape)
    if len(shape) == 2:
        o, i = shape
        return [(o, i), (o, 1), (1, i), (), (i,), (o, i)]
    (n,) = shape
    return [(n,), (1,), (), (n,)]


class Driver:
    """Drives implementation and model side by side; one-step oracle after every op."""

    def __init__(self, case):
        from inferno.neural import DeltaCurrent, LinearDense, Updater

        self.case = case
        self.dtype = case["dtype"]
        self.eps = float(np.finfo(NPDT[self.dtype]).eps)
        self.floor = 4.0 * float(np.finfo(NPDT[self.dtype]).tiny)  # gradual underflow of products
        self.calls = []  # shapes seen by the custom reduction
        self.stats = dict.fromkeys(
            ["applied", "applied_nonempty", "multi", "both", "bounded", "noop", "noop_after_clear",
             "range_elems", "range_atcap", "range_atlimit", "sharp_elems", "mixed_shapes",
             "custom_used", "amb", "peeks", "reduction_over_cache"], 0)
        self.classes = set()
        red = case.get("ctor_reduction")
        init = case["init"]
        with impl("construct"):
            if case["target"] == "tiny":
                shapes = [tuple(s) for s in case["shapes"]]
                tensors = [_t(_vals(init[k % len(init)], s, self.dtype), self.dtype) for k, s in enumerate(shapes)]
                self.module = _tiny_cls()(tensors)
                self.names = list(self.module._names)
                kw = {} if red is None else {"reduction": self._redfn(red)}
                self.module.updater = self.module.defaultupdater(**kw)
            else:
                o, i = case["shapes"][0]
                delay = 2.0 if case.get("delay") else None
                self.module = LinearDense(i, o, 1.0, synapse=DeltaCurrent.partialconstructor(100.0),
                                          bias=True, delay=delay)
                self.names = ["weight", "bias"] + (["delay"] if delay is not None else [])
                shapes = [(o, i), (o,), (o, i)][: len(self.names)]
                for k, (n, s) in enumerate(zip(self.names, shapes)):
                    setattr(self.module, n, _t(_vals(init[k % len(init)], s, self.dtype), self.dtype))
                if red is None:
                    self.module.updater = self.module.defaultupdater()
                else:
                    self.module.updater = Updater(self.module, *self.names, reduction=self._redfn(red))
            self.updater = self.module.updater
        self.shapes = dict(zip(self.names, shapes))
        self.models = {n: AccModel(red) for n in self.names}
        self.objs = {n: self._raw(n) for n in self.names}
        self.last = {n: self._raw(n).detach().clone() for n in self.names}
        # (name, side) -> a reduction has been evaluated (and cached) over the current parts
        self.cached = {(n, s): False for n in self.names for s in "pn"}
        self.dead = False  # a parameter left the finite / moderate regime: stop interpreting

    # -- helpers
    def _raw(self, n):
        return getattr(self.module, n + "_")

    def _redfn(self, name):
        if name in (None,):
            return None
        if name == "custom":
            calls = self.calls

            def custom(x, dim):
                calls.append(int(x.shape[0]))
                return 0.5 * x.sum(dim) + 0.25 * x.amax(dim)

            return custom
        return {"sum": torch.sum, "mean": torch.mean, "amax": torch.amax}[name]

    def _np(self, t):
        return t.detach().to(torch.float64).numpy().copy()

    def _bits_equal(self, a, b):
        return a.shape == b.shape and a.dtype == b.dtype and np.array_equal(
            self._np(a), self._np(b), equal_nan=True)

    def check_untouched(self, what, names=None):
        for n in self.names if names is None else names:
            cur = self._raw(n)
            check(cur is self.objs[n], "untouched:object", lambda: f"{what}: parameter object of '{n}' was replaced")
            check(self._bits_equal(cur, self.last[n]), "untouched:value",
                  lambda: f"{what}: '{n}' changed without an applied update: {self._np(self.last[n]).tolist()} -> {self._np(cur).tolist()}")

    # -- operations
    def contribute(self, name, pos, neg, via, what):
        """pos/neg: numpy arrays in the working dtype or None."""
        tp = None if pos is None else _t(pos, self.dtype)
        tn = None if neg is None else _t(neg, self.dtype)
        with impl(what):
            if via == "tensor" and neg is None:
                setattr(self.updater, name, tp)
            elif via == "acc":
                acc = getattr(self.updater, name)
                acc.pos = tp
                acc.neg = tn
            else:
                setattr(self.updater, name, (tp, tn))
        m = self.models[name]
        m.add(None if pos is None else pos.astype(np.float64), None if neg is None else neg.astype(np.float64))
        if pos is not None:
            self.cached[(name, "p")] = False
        if neg is not None:
            self.cached[(name, "n")] = False

    def clear(self, how, name, what):
        with impl(what):
            if how == "module":
                self.module.clear()
            elif how == "updater":
                self.updater.clear()
            elif how == "del":
                delattr(self.updater, name)
            else:
                getattr(self.updater, name).clear()
        for n in self.names if how in ("module", "updater") else [name]:
            self._model_clear(n)

    def _model_clear(self, n):
        self.models[n].clear()
        self.cached[(n, "p")] = self.cached[(n, "n")] = False

    def set_reduction(self, name, red, what):
        # also generated while a cached reduction over pending parts exists: the new reduction
        # must be the one applied (fixed defect: replay/C10/fixed-stale-reduction-cache.json)
        m = self.models[name]
        if (self.cached[(name, "p")] and m.pos) or (self.cached[(name, "n")] and m.neg):
            self.stats["reduction_over_cache"] += 1
        with impl(what):
            getattr(self.updater, name).reduction(self._redfn(red))
        m.set_reduction(red)
        self.cached[(name, "p")] = self.cached[(name, "n")] = False

    def set_half(self, side, name, cfg, what):
        import inferno.functional as F

        acc = getattr(self.updater, name)
        if cfg is None:
            with impl(what):
                (acc.upperbound if side == "upper" else acc.lowerbound)(None)
        else:
            fn = getattr(F, f"bound_{side}_{cfg['kind']}")
            kw = {}
            if cfg["kind"] in ("power", "scaled_power"):
                kw["power"] = cfg["power"]
            if cfg["kind"] in ("scaled_power", "scaled_multiplicative"):
                kw["range"] = cfg["rng"]
            with impl(what):
                (acc.upperbound if side == "upper" else acc.lowerbound)(fn, cfg["limit"], **kw)
        (self.models[name].set_upper if side == "upper" else self.models[name].set_lower)(cfg)

    def set_full(self, name, cfg, what):
        import inferno.functional as F

        acc = getattr(self.updater, name)
        if cfg is None:
            with impl(what):
                acc.fullbound(None)
        else:
            fn = getattr(F, f"bound_{cfg['kind']}")
            kw = {}
            if cfg["kind"] in ("power", "scaled_power"):
                kw = {"upper_power": cfg["up"], "lower_power": cfg["lo"]}
            with impl(what):
                acc.fullbound(fn, cfg["max"], cfg["min"], **kw)
        self.models[name].set_full(cfg)

    def peek(self, name, what):
        acc = getattr(self.updater, name)
        m = self.models[name]
        with impl(what):
            gp, gn = acc.pos, acc.neg
            gu = acc.update(self._raw(name))
        rp, rn = m.reduced()
        for side, got, want, parts in (("p", gp, rp, m.pos), ("n", gn, rn, m.neg)):
            kind = "peek:reduced"
            if want is None:
                check(got is None, kind, lambda: f"{what}: '{name}' {side}: expected None, got a tensor")
                continue
            check(got is not None, kind, lambda: f"{what}: '{name}' {side}: expected a reduction, got None")
            g = self._np(got)
            tol = 16 * self.eps * reduce_parts("sum", [np.abs(x) for x in parts]) + self.floor
            check(g.shape == want.shape and bool(np.all(np.abs(g - want) <= tol)), kind,
                  lambda: f"{what}: '{name}' {side}: reduced {g.tolist()} want {want.tolist()} ({m.reduction})")
            self.cached[(name, side)] = True
        check((gu is None) == (rp is None and rn is None), "peek:update-none",
              lambda: f"{what}: Accumulator.update returned {'None' if gu is None else 'a tensor'} with "
                      f"{len(m.pos)} pos / {len(m.neg)} neg parts pending")
        self.stats["peeks"] += 1

    def apply(self, how, names, clear, what):
        """how: 'update' (module.update(clear)), 'updatesome' (module.updatesome(*names, clear)),
        'call' (updater(*names), never clears)."""
        names = list(names)
        pre = {}
        for n in names:
            old = self._np(self.last[n])
            m = self.models[n]
            pre[n] = dict(old=old, enc=m.enclosure(old, self.eps, floor=self.floor), npos=len(m.pos), nneg=len(m.neg),
                          red=m.reduced(), sides=m.sides(), reduction=m.reduction,
                          shapes={tuple(x.shape) for x in m.pos + m.neg}, ncalls=len(self.calls),
                          evaluates=(bool(m.pos) and not self.cached[(n, "p")]) or (bool(m.neg) and not self.cached[(n, "n")]))
        with impl(what):
            if how == "update":
                self.module.update() if clear is None else self.module.update(clear=clear)
            elif how == "updatesome":
                self.module.updatesome(*names) if clear is None else self.module.updatesome(*names, clear=clear)
            else:
                self.updater(*names) if len(names) < len(self.names) else self.updater()
        self.check_untouched(what, [n for n in self.names if n not in names])
        for n in names:
            self._judge(n, pre[n], what)
            # every applied accumulator has evaluated (and cached) its reductions
            self.cached[(n, "p")] = self.cached[(n, "n")] = True
            if how != "call" and clear in (None, True):
                self._model_clear(n)
        self.stats["applied"] += 1

    def _judge(self, n, pre, what):
        cur = self._raw(n)
        check(cur is self.objs[n], "update:object", lambda: f"{what}: parameter object of '{n}' was replaced")
        old, enc = pre["old"], pre["enc"]
        if enc is None:
            check(self._bits_equal(cur, self.last[n]), "noop:value",
                  lambda: f"{what}: '{n}' changed although nothing was accumulated: "
                          f"{old.tolist()} -> {self._np(cur).tolist()}")
            self.stats["noop"] += 1
            return
        pfx = "update"
        got = self._np(cur)
        check(got.shape == old.shape, pfx + ":shape", lambda: f"{what}: '{n}' shape {old.shape} -> {got.shape}")
        check(cur.dtype == DT[self.dtype], pfx + ":dtype", lambda: f"{what}: '{n}' dtype became {cur.dtype}")
        # ---- invariants the property states on top of the formula (range, sharp): judged first so
        # that a failure is reported under the most specific kind
        self._claims(n, pre, got, what)
        und, allnan = enc["undecidable"], enc["allnan"]
        dec = ~und & ~allnan
        self.stats["amb"] += int(und.sum())
        with np.errstate(all="ignore"):
            huge = ~np.isfinite(enc["nominal"]) | (np.abs(enc["nominal"]) > 1e6)
            ok = (~dec) | huge | ((got >= enc["lo"]) & (got <= enc["hi"]))
            oknan = (~allnan) | und | np.isnan(got)
        info = {"param": n, "reduction": pre["reduction"], "npos": pre["npos"], "nneg": pre["nneg"]}
        check(bool(ok.all() and oknan.all()), pfx + ":value",
              lambda: f"{what}: '{n}' old={old.tolist()} got={got.tolist()} want={enc['nominal'].tolist()} "
                      f"(reduction={pre['reduction']}, pos={[x.tolist() for x in self.models[n].pos]}, "
                      f"neg={[x.tolist() for x in self.models[n].neg]}, bind={self.models[n].bind})", info)
        if pre["reduction"] == "custom" and pre["evaluates"]:
            check(len(self.calls) > pre["ncalls"], "custom:notcalled",
                  lambda: f"{what}: '{n}' configured with the custom reduction but it was not called")
            self.stats["custom_used"] += 1
        # ---- bookkeeping
        self.stats["applied_nonempty"] += 1
        if max(pre["npos"], pre["nneg"]) >= 2:
            self.stats["multi"] += 1
        if pre["npos"] and pre["nneg"]:
            self.stats["both"] += 1
        if pre["sides"][0] is not None or pre["sides"][1] is not None:
            self.stats["bounded"] += 1
        if len(pre["shapes"]) > 1:
            self.stats["mixed_shapes"] += 1
        self.last[n] = cur.detach().clone()
        if bool(np.isnan(got).any() or (np.abs(got) > 1e6).any()):
            self.dead = True

    def _claims(self, n, pre, got, what):
        ucfg, lcfg, _ = pre["sides"]
        old = pre["old"]
        rp, rn = pre["red"]
        zero = np.zeros(())
        rp_, rn_ = (zero if rp is None else rp), (zero if rn is None else rn)
        # range invariant
        if (ucfg and lcfg and ucfg["kind"] in RANGE_KINDS and lcfg["kind"] in RANGE_KINDS
                and ucfg["limit"] > lcfg["limit"]):
            pmax, pmin = ucfg["limit"], lcfg["limit"]
            R = pmax - pmin
            okcfg = True
            for c in (ucfg, lcfg):
                if c["kind"] in ("scaled_power", "scaled_multiplicative") and c["rng"] != R:
                    okcfg = False
                if c["kind"] == "scaled_power" and not c["power"] >= 1:
                    okcfg = False
            if okcfg:
                capu, capl = range_cap(ucfg["kind"], pmax, pmin), range_cap(lcfg["kind"], pmax, pmin)
                mask = (old >= pmin) & (old <= pmax) & (rp_ >= 0) & (rp_ <= capu) & (rn_ >= 0) & (rn_ <= capl)
                mask = np.broadcast_to(mask, got.shape)
                e = 4 * self.eps * max(abs(pmax), abs(pmin), R)
                bad = mask & ~((got >= pmin - e) & (got <= pmax + e))
                check(not bool(bad.any()), "range:escaped",
                      lambda: f"{what}: '{n}' left [{pmin}, {pmax}] (eps {e:.3g}): old={old.tolist()} new={got.tolist()} "
                              f"U+={np.asarray(rp_).tolist()} U-={np.asarray(rn_).tolist()} upper={ucfg} lower={lcfg}",
                      {"param": n, "upper": ucfg["kind"], "lower": lcfg["kind"]})
                self.stats["range_elems"] += int(mask.sum())
                self.stats["range_atcap"] += int((mask & np.broadcast_to((rp_ == capu) | (rn_ == capl), got.shape)).sum())
                self.stats["range_atlimit"] += int((mask & np.broadcast_to((old == pmin) | (old == pmax), got.shape)).sum())
                self.classes.add(f"range:{ucfg['kind']}/{lcfg['kind']}")
        # sharp dependence: a parameter that has reached the limit is not moved further beyond it
        enc = pre["enc"]
        if ucfg and ucfg["kind"] == "sharp" and rp is not None:
            lo_ok = np.broadcast_to((enc["lo_term"] >= 0) & (rp_ >= 0), got.shape)
            mask = np.broadcast_to(old >= ucfg["limit"], got.shape) & lo_ok
            oldb = np.broadcast_to(old, got.shape)
            bad = mask & ~(got <= oldb)
            check(not bool(bad.any()), "sharp:upper-moved",
                  lambda: f"{what}: '{n}' at/above max={ucfg['limit']} was potentiated further: old={old.tolist()} new={got.tolist()}")
            if rn is None:
                bad = mask & (got != oldb)
                check(not bool(bad.any()), "sharp:upper-moved",
                      lambda: f"{what}: '{n}' at/above max={ucfg['limit']} changed under potentiation only: old={old.tolist()} new={got.tolist()}")
            self.stats["sharp_elems"] += int(mask.sum())
        if lcfg and lcfg["kind"] == "sharp" and rn is not None:
            up_ok = np.broadcast_to((enc["up"] >= 0) & (rn_ >= 0), got.shape)
            mask = np.broadcast_to(old <= lcfg["limit"], got.shape) & up_ok
            oldb = np.broadcast_to(old, got.shape)
            bad = mask & ~(got >= oldb)
            check(not bool(bad.any()), "sharp:lower-moved",
                  lambda: f"{what}: '{n}' at/below min={lcfg['limit']} was depressed further: old={old.tolist()} new={got.tolist()}")
            if rp is None:
                bad = mask & (got != oldb)
                check(not bool(bad.any()), "sharp:lower-moved",
                      lambda: f"{what}: '{n}' at/below min={lcfg['limit']} changed under depression only: old={old.tolist()} new={got.tolist()}")
            self.stats["sharp_elems"] += int(mask.sum())


# ----------------------------------------------------------------------------------- op interpreter


def _half_cfg(op):
    # op = [side, pidx, kindraw|None, limit, power, rng]
    if op[2] is None:
        return None
    kind = HALF_KINDS[op[2] % len(HALF_KINDS)]
    return dict(kind=kind, limit=float(op[3]), power=float(op[4]), rng=float(op[5]))


def _full_cfg(op):
    # op = ["full", pidx, kindraw|None, max|None, min|None, up, lo]
    if op[2] is None:
        return None
    kind = HALF_KINDS[op[2] % len(HALF_KINDS)]
    return dict(kind=kind, max=op[3], min=op[4], up=float(op[5]), lo=float(op[6]))


def _part(d: Driver, name, spec):
    if spec is None:
        return None
    shapes = part_shapes(d.shapes[name])
    shp = shapes[spec[0] % len(shapes)]
    return _vals(spec[1], shp, d.dtype)


def interpret(d: Driver, op, i):
    what = f"op#{i} {op}"
    kind = op[0]
    applied = False
    if kind == "contrib":
        name = d.names[op[1] % len(d.names)]
        d.contribute(name, _part(d, name, op[3]), _part(d, name, op[4]), op[2], what)
    elif kind == "update":
        d.apply("update", d.names, op[1], what)
        applied = True
    elif kind == "updatesome":
        sel = [n for k, n in enumerate(d.names) if (op[1] >> k) & 1] or [d.names[op[1] % len(d.names)]]
        if op[3]:
            sel = sel[::-1]
        d.apply("updatesome", sel, op[2], what)
        applied = True
    elif kind == "call":
        sel = [n for k, n in enumerate(d.names) if (op[1] >> k) & 1] or list(d.names)
        d.apply("call", sel, False, what)
        applied = True
    elif kind == "clear":
        d.clear(op[1], d.names[op[2] % len(d.names)], what)
    elif kind == "reduction":
        d.set_reduction(d.names[op[1] % len(d.names)], op[2], what)
    elif kind in ("upper", "lower"):
        d.set_half(kind, d.names[op[1] % len(d.names)], _half_cfg(op), what)
    elif kind == "full":
        d.set_full(d.names[op[1] % len(d.names)], _full_cfg(op), what)
    elif kind == "peek":
        d.peek(d.names[op[1] % len(d.names)], what)
    else:
        raise ValueError(kind)
    if not applied:
        d.check_untouched(what)
    return applied


def _outcome(d: Driver, extra_cls=(), nt=None):
    s = d.stats
    cls = [f"target={d.case['target']}", f"dtype={d.dtype}", f"ctor_red={d.case.get('ctor_reduction')}"]
    for k in ("multi", "both", "bounded", "noop", "noop_after_clear", "range_elems", "range_atcap",
              "range_atlimit", "sharp_elems", "mixed_shapes", "custom_used", "reduction_over_cache"):
        if s[k]:
            cls.append(k)
    if d.dead:
        cls.append("left-finite-regime")
    cls += sorted(d.classes) + list(extra_cls)
    if nt is None:
        nt = s["multi"] >= 1 and s["both"] >= 1 and s["bounded"] >= 1 and s["applied_nonempty"] >= 2
    return {"nt": bool(nt), "cls": cls, "amb": s["amb"]}


def run_algebra(case):
    d = Driver(case)
    d.check_untouched("construct")
    for i, op in enumerate(case["ops"]):
        if d.dead:
            break
        was_clear = op[0] == "update" and op[1] in (None, True)
        interpret(d, op, i)
        if was_clear and case.get("second_update", True) and not d.dead:
            # after the default clear a second application changes nothing
            before = d.stats["noop"]
            d.apply("update", d.names, None, f"op#{i} second update after default clear")
            d.stats["noop_after_clear"] += d.stats["noop"] - before
    return _outcome(d)


# ----------------------------------------------------------------------------------- perm leg


def _permuted_ops(ops, keys):
    """Permutes every maximal run of consecutive contributions by the drawn keys."""
    out, run, k = [], [], 0
    changed = False

    def flush():
        nonlocal k, changed
        if run:
            ks = [keys[(k + j) % len(keys)] for j in range(len(run))]
            order = sorted(range(len(run)), key=lambda j: (ks[j], -j))
            k += len(run)
            if order != list(range(len(run))):
                changed = True
            out.extend(run[j] for j in order)
            run.clear()

    for op in ops:
        if op[0] == "contrib":
            run.append(op)
        else:
            flush()
            out.append(op)
    flush()
    return out, changed


def run_perm(case):
    ops_a = case["ops"]
    ops_b, changed = _permuted_ops(ops_a, case["perm"] or [0])
    da, db = Driver(case), Driver(case)
    ncmp = 0
    for i, (oa, ob) in enumerate(zip(ops_a, ops_b)):
        if da.dead or db.dead:
            break
        pre_old = {n: da._np(da.last[n]) for n in da.names}
        pre_enc = {n: da.models[n].enclosure(pre_old[n], da.eps, floor=da.floor) for n in da.names}
        applied = interpret(da, oa, i)
        interpret(db, ob, i)
        if applied:
            for n in da.names:
                a, b = da._np(da._raw(n)), db._np(db._raw(n))
                enc = pre_enc[n]
                mag = np.abs(pre_old[n]) if enc is None else enc["mag"]
                tol = 16 * da.eps * mag + da.floor
                with np.errstate(all="ignore"):
                    same = (np.abs(a - b) <= tol) | (np.isnan(a) & np.isnan(b)) | (a == b)
                check(bool(same.all()), "perm:differs",
                      lambda: f"op#{i} {oa}: '{n}' depends on contribution order: {a.tolist()} vs {b.tolist()}")
                ncmp += 1
                # resynchronise the twin (one-step form: no drift amplification)
                with impl("resync"):
                    setattr(db.module, n, da._raw(n).detach().clone())
                db.last[n] = db._raw(n).detach().clone()
    out = _outcome(da, extra_cls=["order-changed"] if changed else [])
    out["nt"] = bool(changed and da.stats["multi"] >= 1 and da.stats["applied_nonempty"] >= 1 and ncmp)
    out["amb"] += db.stats["amb"]
    return out


# ----------------------------------------------------------------------------------- range legs


def _fit_parts(raw, cap, reduction, dtype):
    """Scales raw parts (values in [0, 1]) so that the *model* reduction of the parts, as stored in
    the working dtype, is at most ``cap`` element-wise (construction, not rejection)."""
    npdt = NPDT[dtype]
    m = float(np.max(reduce_parts(reduction, raw)))
    scale = 1.0 if m <= 1.0 else 2.0 ** (-math.ceil(math.log2(m)))
    parts = [(np.asarray(r, dtype=np.float64) * cap * scale).astype(npdt) for r in raw]
    for _ in range(6):
        if float(np.max(reduce_parts(reduction, [p.astype(np.float64) for p in parts]))) <= cap:
            return parts
        parts = [np.nextafter(p, npdt(0)) for p in parts]
    return [(p * npdt(0.5)).astype(npdt) for p in parts]


def _range_setup(case):
    """Builds the driver and configures the dependence described by the case."""
    d = Driver(case)
    cfg = case["cfg"]
    pmin, pmax = float(cfg["min"]), float(cfg["max"])
    R = pmax - pmin
    for n in d.names:
        if cfg["reduction"] != "default":
            d.set_reduction(n, cfg["reduction"], "reduction")
        if cfg["mode"] == "full":
            d.set_full(n, dict(kind=cfg["up"], max=pmax, min=pmin, up=cfg["up_pow"], lo=cfg["lo_pow"]), "fullbound")
        else:
            order = [("upper", cfg["up"], pmax, cfg["up_pow"]), ("lower", cfg["lo"], pmin, cfg["lo_pow"])]
            if cfg.get("lower_first"):
                order.reverse()
            for side, kind, lim, pw in order:
                d.set_half(side, n, dict(kind=kind, limit=lim, power=pw, rng=R), f"{side}bound")
    return d, pmin, pmax


def _caps(cfg, pmin, pmax):
    def cap(kind):
        return range_cap(kind, pmax, pmin) if kind in RANGE_KINDS else 1.0
    return cap(cfg["up"]), cap(cfg["up"] if cfg["mode"] == "full" else cfg["lo"])


def _state_values(ts, shape, pmin, pmax, dtype, inside):
    """Start state from position codes: t in [0,1] -> min + t (max-min); codes < 0 are special."""
    npdt = NPDT[dtype]
    n = int(np.prod(shape))
    out = np.empty(n, dtype=npdt)
    lo_in = npdt(pmin) if float(npdt(pmin)) >= pmin else np.nextafter(npdt(pmin), npdt(np.inf))
    hi_in = npdt(pmax) if float(npdt(pmax)) <= pmax else np.nextafter(npdt(pmax), npdt(-np.inf))
    for j in range(n):
        t = ts[j % len(ts)]
        if t == "min":
            v = lo_in
        elif t == "max":
            v = hi_in
        elif t == "min+":
            v = np.nextafter(lo_in, npdt(np.inf))
        elif t == "max-":
            v = np.nextafter(hi_in, npdt(-np.inf))
        elif t == "above":
            v = npdt(pmax + 0.25)
        elif t == "below":
            v = npdt(pmin - 0.25)
        else:
            v = npdt(pmin + float(t) * (pmax - pmin))
        if inside or t not in ("above", "below"):
            v = min(max(v, lo_in), hi_in)
        out[j] = v
    return out.reshape(shape)


def _set_state(d: Driver, n, arr):
    with impl("set state"):
        setattr(d.module, n, _t(arr, d.dtype))
    d.last[n] = d._raw(n).detach().clone()


def _range_family(cfg):
    kinds = {cfg["up"]} if cfg["mode"] == "full" else {cfg["up"], cfg["lo"]}
    return kinds


def run_range_step(case):
    d, pmin, pmax = _range_setup(case)
    cfg = case["cfg"]
    sharp = "sharp" in _range_family(cfg)
    capu, capl = _caps(cfg, pmin, pmax)
    red = None if cfg["reduction"] == "default" else cfg["reduction"]
    for k, n in enumerate(d.names):
        _set_state(d, n, _state_values(case["state"][k % len(case["state"])], d.shapes[n], pmin, pmax, d.dtype, not sharp))
    for k, n in enumerate(d.names):
        shapes = part_shapes(d.shapes[n])
        for side, specs, cap in (("p", case["pos"], capu), ("n", case["neg"], capl)):
            if not specs:
                continue
            raw = []
            for sp in specs:
                shp = shapes[(sp[0] + k) % len(shapes)]
                raw.append(_vals(sp[1], shp, "float64"))
            parts = _fit_parts(raw, cap, red, d.dtype)
            for p in parts:
                d.contribute(n, p if side == "p" else None, p if side == "n" else None, "tuple", f"contribute {side}")
    d.apply("update", d.names, None, "update")
    d.apply("update", d.names, None, "second update")
    s = d.stats
    nt = (s["range_elems"] > 0 or s["sharp_elems"] > 0) and s["applied_nonempty"] >= 1
    return _outcome(d, extra_cls=[f"mode={cfg['mode']}", f"red={cfg['reduction']}"], nt=nt)


def run_range_traj(case):
    d, pmin, pmax = _range_setup(case)
    cfg = case["cfg"]
    sharp = "sharp" in _range_family(cfg)
    capu, capl = _caps(cfg, pmin, pmax)
    red = None if cfg["reduction"] == "default" else cfg["reduction"]
    for k, n in enumerate(d.names):
        _set_state(d, n, _state_values(case["state"][k % len(case["state"])], d.shapes[n], pmin, pmax, d.dtype, True))
    rng = np.random.Generator(np.random.PCG64(case["seed"]))
    mode = case["magmode"]
    moved = 0
    for step in range(case["nsteps"]):
        if d.dead:
            break
        for n in d.names:
            shapes = part_shapes(d.shapes[n])
            for side, cap in (("p", capu), ("n", capl)):
                k = int(rng.integers(0, 4))
                if mode == "pos-only" and side == "n" or mode == "neg-only" and side == "p":
                    k = 0
                if k == 0:
                    continue
                raw = []
                for _ in range(k):
                    shp = shapes[int(rng.integers(0, len(shapes)))]
                    if mode == "cap":
                        r = np.ones(shp)
                    elif mode == "extreme":
                        r = rng.integers(0, 2, size=shp).astype(np.float64)
                    else:
                        r = rng.random(size=shp)
                    raw.append(np.asarray(r, dtype=np.float64))
                if mode == "cap" and red in (None, "sum", "custom") and k > 1:
                    raw = [raw[0]] + [np.zeros_like(r) for r in raw[1:]]
                for p in _fit_parts(raw, cap, red, d.dtype):
                    d.contribute(n, p if side == "p" else None, p if side == "n" else None, "tuple",
                                 f"step {step} contribute {side}")
        before = {n: d._np(d.last[n]) for n in d.names}
        d.apply("update", d.names, None, f"step {step} update")
        moved += any(not np.array_equal(before[n], d._np(d.last[n])) for n in d.names)
    s = d.stats
    claim_elems = s["sharp_elems"] if sharp and not s["range_elems"] else s["range_elems"]
    nt = claim_elems > 0 and s["applied_nonempty"] >= 2 and moved >= 1
    return _outcome(d, extra_cls=[f"mode={cfg['mode']}", f"red={cfg['reduction']}", f"mag={mode}",
                                  "steps>=100" if case["nsteps"] >= 100 else "steps<100"], nt=nt)


# ----------------------------------------------------------------------------------- generators

_pool = st.lists(st.sampled_from(PALETTE), min_size=1, max_size=6)
_raw = st.integers(0, 11)
_part_s = st.tuples(_raw, _pool).map(list)
_optpart = st.one_of(st.none(), _part_s, _part_s, _part_s)
_clearflag = st.sampled_from([None, None, True, False])


@functools.lru_cache(maxsize=None)
def _ops(pidx=None):
    """Strategies for the single operations; ``pidx`` pins the parameter index."""
    lim = st.sampled_from(LIMITS)
    pw = st.sampled_from(POWERS)
    rg = st.sampled_from(RANGES)
    kind = st.one_of(st.none(), _raw, _raw, _raw, _raw)
    pi = _raw if pidx is None else st.one_of(st.just(pidx), st.just(pidx), st.just(pidx), _raw)
    contrib = st.tuples(st.just("contrib"), pi, st.sampled_from(["tuple", "tuple", "tensor", "acc"]),
                        _optpart, _optpart)

    @st.composite
    def full(draw):
        k = draw(kind)
        lo, hi = sorted(draw(st.lists(lim, min_size=2, max_size=2, unique=True)))
        scaled = k is not None and HALF_KINDS[k % len(HALF_KINDS)].startswith("scaled")
        which = 0 if scaled else draw(st.sampled_from([0, 0, 0, 1, 2]))
        return ("full", draw(pi), k, None if which == 1 else hi, None if which == 2 else lo, draw(pw), draw(pw))

    config = st.one_of(
        st.tuples(st.just("reduction"), pi, st.sampled_from(REDS)),
        st.tuples(st.just("upper"), pi, kind, lim, pw, rg),
        st.tuples(st.just("lower"), pi, kind, lim, pw, rg),
        st.tuples(st.just("upper"), pi, kind, lim, pw, rg),
        st.tuples(st.just("lower"), pi, kind, lim, pw, rg),
        full(),
        full(),
    )
    apply_ = st.one_of(
        st.tuples(st.just("update"), _clearflag),
        st.tuples(st.just("update"), _clearflag),
        st.tuples(st.just("updatesome"), _raw, _clearflag, st.booleans()),
        st.tuples(st.just("call"), _raw),
    )
    other = st.one_of(
        st.tuples(st.just("clear"), st.sampled_from(["module", "updater", "del", "acc"]), pi),
        st.tuples(st.just("peek"), pi),
        st.tuples(st.just("peek"), pi),
    )
    return contrib, config, apply_, other


@st.composite
def _round(draw):
    """configure (0-2 ops) -> contribute (1-5 parts, mostly to one parameter) -> apply -> (0-2 other ops)."""
    focus = draw(_raw)
    contrib, config, apply_, other = _ops(focus)
    ops = [draw(config) for _ in range(draw(st.sampled_from([0, 1, 1, 2, 2, 3])))]
    for _ in range(draw(st.integers(1, 5))):
        ops.append(draw(contrib))
        if draw(st.integers(0, 7)) == 0:
            ops.append(draw(other))
    ops.append(draw(apply_))
    for _ in range(draw(st.sampled_from([0, 0, 1, 2]))):
        ops.append(draw(st.one_of(other, apply_, config)))
    return [list(o) for o in ops]


@st.composite
def algebra_case(draw, tier="quick", perm=False):
    target = draw(st.sampled_from(["tiny", "tiny", "dense"]))
    dtype = draw(st.sampled_from(["float32", "float32", "float64"]))
    if target == "tiny":
        shapes = draw(st.sampled_from([[[2, 3]], [[2, 3], [3]], [[3], [1, 2]], [[2]], [[2, 2], [2, 2]]]))
    else:
        shapes = [draw(st.sampled_from([[2, 3], [1, 2], [3, 1], [2, 2]]))]
    init = draw(st.lists(st.lists(st.sampled_from(INITS), min_size=1, max_size=6), min_size=1, max_size=2))
    rounds = draw(st.lists(_round(), min_size=1, max_size=5 if tier == "quick" else 10))
    ops = [o for r in rounds for o in r]
    case = {"target": target, "dtype": dtype, "shapes": shapes, "init": init,
            "ctor_reduction": draw(st.sampled_from([None, None, "mean", "amax", "custom", "sum"])),
            "delay": target == "dense" and draw(st.booleans()),
            "second_update": draw(st.integers(0, 3)) > 0,
            "ops": ops}
    if perm:
        case["perm"] = draw(st.lists(st.integers(0, 5), min_size=1, max_size=8))
        case["second_update"] = False
    return case


_T = st.one_of(st.sampled_from(["min", "max", "min+", "max-", 0.5, 0.25, 0.75, 0.03125, 0.9]),
               st.floats(0, 1, allow_nan=False, width=32))
_TS = st.one_of(_T, _T, _T, st.sampled_from(["above", "below"]))


@st.composite
def range_cfg(draw, allow_sharp=True):
    fam = list(RANGE_KINDS) + (["sharp"] if allow_sharp else [])
    mode = draw(st.sampled_from(["full", "halves", "halves"]))
    up = draw(st.sampled_from(fam))
    lo = up if mode == "full" or draw(st.integers(0, 2)) > 0 else draw(st.sampled_from(fam))
    pmin, pmax = sorted(draw(st.lists(st.sampled_from(LIMITS + [-8.0, 16.0, 100.0]), min_size=2, max_size=2, unique=True)))
    pw = st.sampled_from([1.0, 1.0, 2.0, 3.0, 1.5, 1.25])
    return {"mode": mode, "up": up, "lo": lo, "min": pmin, "max": pmax,
            "up_pow": draw(pw), "lo_pow": draw(pw),
            "reduction": draw(st.sampled_from(["default", "sum", "mean", "amax", "custom"])),
            "lower_first": draw(st.booleans())}


@st.composite
def _range_base(draw):
    target = draw(st.sampled_from(["tiny", "tiny", "tiny", "dense"]))
    shapes = draw(st.sampled_from([[[2, 3]], [[3]], [[2, 2], [2]], [[1]]])) if target == "tiny" else \
        [draw(st.sampled_from([[2, 3], [2, 2], [1, 2]]))]
    return {"target": target, "dtype": draw(st.sampled_from(["float32", "float32", "float64"])),
            "shapes": shapes, "init": [[0.0]], "ctor_reduction": None, "delay": False,
            "cfg": draw(range_cfg())}


_rawpart = st.tuples(_raw, st.lists(st.sampled_from([0.0, 1.0, 1.0, 0.5, 0.25, 0.75, 0.1, 0.9]), min_size=1, max_size=6)).map(list)


@st.composite
def range_step_case(draw, tier="quick"):
    case = draw(_range_base())
    sharp = "sharp" in _range_family(case["cfg"])
    tt = _TS if sharp else _T
    case["state"] = draw(st.lists(st.lists(tt, min_size=1, max_size=6), min_size=1, max_size=2))
    case["pos"] = draw(st.lists(_rawpart, min_size=0, max_size=3))
    case["neg"] = draw(st.lists(_rawpart, min_size=0, max_size=3))
    if not case["pos"] and not case["neg"]:
        case["pos"] = [draw(_rawpart)]
    return case


@st.composite
def range_traj_case(draw, tier="quick"):
    case = draw(_range_base())
    case["state"] = draw(st.lists(st.lists(_T, min_size=1, max_size=4), min_size=1, max_size=2))
    case["seed"] = draw(st.integers(0, 2 ** 32 - 1))
    case["magmode"] = draw(st.sampled_from(["random", "random", "cap", "extreme", "pos-only", "neg-only"]))
    hi = 200
    case["nsteps"] = draw(st.sampled_from([2, 5, 10, 20, 50, 100, hi] if tier == "quick"
                                          else [5, 20, 50, 100, hi, hi, hi]))
    return case


LEGS = [
    Leg(
        name="algebra", run=run_algebra, strategy=lambda tier: algebra_case(tier),
        quick=600, thorough=6000, quick_shards=5, thorough_shards=6, nt_floor=0.2,
        rule="operation sequence with >= 2 applied non-empty updates, >= 1 of them reducing >= 2 parts on one "
             "side, >= 1 with both sides present and >= 1 under a configured bound; distinct by SHA-1 of the case",
    ),
    Leg(
        name="perm", run=run_perm, strategy=lambda tier: algebra_case(tier, perm=True),
        quick=400, thorough=4000, quick_shards=3, thorough_shards=3, nt_floor=0.2,
        rule="twin runs whose contribution order actually differs, with >= 1 applied update reducing >= 2 parts "
             "on one side, compared after every applied update",
    ),
    Leg(
        name="range_traj", run=run_range_traj, strategy=lambda tier: range_traj_case(tier),
        quick=60, thorough=600, quick_shards=4, thorough_shards=4, nt_floor=0.3,
        rule="update history (2..200 updates, parts from a drawn PCG64 seed, reduced magnitudes <= cap by construction) "
             "from an in-range start under multiplicative / scaled multiplicative / scaled power (order >= 1) / sharp "
             "dependence with >= 2 non-empty updates, >= 1 moving a parameter, and >= 1 element for which the "
             "range (or sharp) premise held",
    ),
    Leg(
        name="range_step", run=run_range_step, strategy=lambda tier: range_step_case(tier),
        quick=800, thorough=10000, quick_shards=4, thorough_shards=3, nt_floor=0.3,
        rule="one update from a generated state (exactly on / one ulp inside the limits, interior; for sharp also "
             "outside) with element-wise drawn parts scaled to reduced magnitude <= cap (incl. exactly cap): >= 1 "
             "element for which the range (or sharp) premise held",
    ),
]

ASSUMPTIONS = [
    "CPU only; float32 and float64 parameters; parts are non-negative valued (as documented for depressive parts)",
    "one-step oracle: the expected value is computed from the observed pre-state with an enclosure of 32 eps on the "
    "term magnitudes plus +-4 ulp probing of (limit - P) (covers rounding of non-representable limits, fractional "
    "powers near a zero base and the sharp discontinuity)",
    "Theta(0) = 0 for sharp dependence, as the property statement ('never moves a parameter further beyond a limit "
    "it has reached') and torch.heaviside(x, 0) have it; the docstring prints Theta(0) = 1",
    "parameters whose magnitude exceeds 1e6 or that became NaN (legitimate under unscaled power dependence) end the case",
]

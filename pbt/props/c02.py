"""C02 — time-indexed select / insert hit the right samples and interpolate between them.

Oracle: ring model (pbt.models.ring) + time model (pbt.models.timeidx).  Every generated
case builds a ring state with the pointer anywhere, then applies select / insert operations
(scalar time, per-element tensor time, tensor time with an extra column dimension), comparing
after each with the model: on-grid -> the stored sample, off-grid -> the documented
interpolation of (older, newer, elapsed); insert is the dual and every other slot must stay
bit-identical; out-of-range times must raise ValueError; insert->select round trip.
"""

from __future__ import annotations

import numpy as np
import torch
from hypothesis import strategies as st

from ..harness import Leg, Violation, check, impl
from ..models import timeidx as tm
from ..models.ring import Ring

DT = {"float32": torch.float32, "float64": torch.float64, "int64": torch.int64}
ADJUST = {"half": lambda x: x * 0.5, "plus": lambda x: x + 1.0}
INTERPS = ["previous", "next", "nearest", "linear", "expdecay", "expratedecay"]
EXTRAPS = ["previous", "next", "neighbors", "nearest", "linear_forward", "linear_backward",
           "expdecay", "expratedecay"]
STRATA = ["grid", "grid", "grid+", "grid-", "off2+", "off2-", "mid", "q1", "q3", "frac", "frac",
          "lo", "hi", "hi+"]


def _fn(kind, name, default=False):
    import inferno.functional as F

    if default and name == "nearest":
        return None  # documented default: nearest
    return getattr(F, f"{kind}_{name}")


def _mk(case):
    from inferno.core.infrastructure import Module, RecordTensor

    owner = Module()
    shape = tuple(case["shape"])
    RecordTensor.create(owner, "rec", case["dt"], (case["n"] - case.get("durfrac", 0.0)) * case["dt"],
                        torch.zeros(shape, dtype=DT[case["dtype"]]), inclusive=case.get("inclusive", False))
    return owner, owner.rec


def _tol(key, dt):
    return {"0": 0.0, "1e-9": 1e-9, "1e-6": 1e-6, "1e-3dt": 1e-3 * dt, "0.3dt": 0.3 * dt,
            "0.6dt": 0.6 * dt}[key]


def _time(spec, n, dt, tol):
    """spec = [kraw, stratum, fr] -> float64 time (before the dtype cast), expect_out flag."""
    kraw, stratum, fr = spec
    offgrid_ok = n >= 2
    if stratum in ("mid", "q1", "q3", "frac", "off2+", "off2-") and not offgrid_ok:
        stratum = "grid"
    if stratum == "grid":
        return (kraw % n) * dt, False
    if stratum == "grid+":
        return (kraw % n) * dt + tol / 2, False
    if stratum == "grid-":
        return (kraw % n) * dt - tol / 2, False
    if stratum == "off2+":
        return (kraw % (n - 1)) * dt + 2 * tol, False
    if stratum == "off2-":
        return (1 + kraw % (n - 1)) * dt - 2 * tol, False
    k = kraw % max(n - 1, 1)
    if stratum == "mid":
        return (k + 0.5) * dt, False
    if stratum == "q1":
        return (k + 0.25) * dt, False
    if stratum == "q3":
        return (k + 0.75) * dt, False
    if stratum == "frac":
        return (k + 0.05 + 0.9 * fr / 100.0) * dt, False
    if stratum == "lo":
        return 0.0, False
    if stratum == "hi":
        return (n - 1) * dt, False
    if stratum == "hi+":
        return (n - 1) * dt + tol / 2, False
    if stratum == "out-":
        return -(2 * tol + 0.01 * dt), True
    if stratum == "out+":
        return (n - 1) * dt + 2 * tol + 0.01 * dt, True
    raise ValueError(stratum)


def _same(a, b):
    """exact equality, NaN == NaN."""
    return a == b or (a != a and b != b)


def _finite(*xs):
    return all(np.isfinite(x) for x in xs)


def _close(a, b, f32, extra=0.0):
    """extra: absolute allowance for the sensitivity of the documented formula to the rounding of the time."""
    if not _finite(a, b):
        return _same(a, b)
    tol = 2e-5 * (1 + abs(b)) if f32 else 1e-9 * (1 + abs(b))
    return abs(a - b) <= tol + extra


def _dt_err(t, dt, tdtype):
    """bound on the error of the elapsed time computed by the implementation in the time's dtype."""
    return 16 * tm.EPS[tdtype] * max(abs(t), dt)


def run_case(case):
    with impl("construct"):
        owner, rt = _mk(case)
        n = rt.recordsz
    dt = case["dt"]
    shape = tuple(case["shape"])
    numel = int(np.prod(shape)) if shape else 1
    ring = Ring(n, shape, case["dtype"])
    pre = case["pre"]
    pool = pre["pool"]
    with impl("prefix"):
        for i in range(pre["pushes"]):
            vals = np.array([pool[(i * 7 + j * 3) % len(pool)] * (1.0 if case["dtype"] == "int64" else 0.25) + i for j in range(numel)]).reshape(shape)
            if pre.get("nonfinite") and case["dtype"] != "int64":
                nf = pre["nonfinite"]
                flat = vals.reshape(-1)
                for j in range(flat.size):
                    tag = nf[(i * 3 + j) % len(nf)]
                    if tag:
                        flat[j] = {1: np.inf, 2: -np.inf, 3: np.nan}[tag]
                vals = flat.reshape(shape)
            rt.push(torch.tensor(vals, dtype=DT[case["dtype"]]), inplace=pre["inplace"])
            ring.push(vals)
        if pre["incr"] % n:
            rt.incr(pre["incr"] % n)
            ring.incr(pre["incr"] % n)
    ptr = rt.pointer
    st_ = dict.fromkeys(["off", "on", "amb", "rej", "distinct_bracket", "roundtrip", "insert_off",
                         "tensor", "scalar", "D"], 0)
    f32data = case["dtype"] in ("float32", "int64")
    dyadic_dt = dt in (0.25, 0.5, 1.0)  # ties at exactly half a step are decisive only where the arithmetic is exact
    prev_tensor = None
    idxs = [tuple(ix) for ix in np.ndindex(*shape)] if shape else [()]

    for oi, op in enumerate(case["ops"]):
        what = f"op#{oi} {op['op']}/{op['mode']}"
        tol = _tol(op["tol"], dt)
        off = op["offset"]
        tau = op["tau"]
        mode = op["mode"]
        if op["op"] == "insert" and mode == "tensorD":
            mode = "tensor"
        D = op.get("D", 1) if mode == "tensorD" else 1
        tdtype = "float64" if mode == "scalar" else op["tdtype"]
        # actual per-element (per-column) times
        specs = op["times"]
        tvals = np.zeros(shape + (D,), dtype=np.float64)
        expect_out = False
        for j, ix in enumerate(idxs):
            for d in range(D):
                sp = specs[0] if mode == "scalar" else specs[(j * D + d) % len(specs)]
                t, out = _time(sp, n, dt, tol)
                expect_out |= out
                tvals[ix + (d,)] = t
        if tdtype == "float32":
            tvals = tvals.astype(np.float32).astype(np.float64)
        f32 = f32data or tdtype == "float32"
        # range classification
        rng = [tm.in_range(float(t), dt, n, tol, tdtype) for t in tvals.ravel()]
        if mode == "scalar":
            targ = float(tvals.ravel()[0])
        elif mode == "tensor":
            targ = torch.tensor(tvals[..., 0], dtype=DT[tdtype])
        else:
            targ = torch.tensor(tvals, dtype=DT[tdtype])
        kw = {}
        name = op["fn"]
        adj = op.get("adjust") if (op["op"] == "insert" and name.startswith("linear")) else None
        if op["op"] == "insert" and case["dtype"] == "int64":
            continue  # integer storage: reads only (inserted values are cast back, not part of the oracle)
        if name == "expdecay":
            kw = {"time_constant": tau}
        elif name == "expratedecay":
            kw = {"rate_constant": 1.0 / tau}
        if adj:
            kw = dict(kw, adjust=ADJUST[adj])

        if "out" in rng:
            # documented rejection: ValueError, state untouched
            try:
                if op["op"] == "select":
                    rt.select(targ, _fn("interp", name), tolerance=tol, offset=off, interp_kwargs=kw)
                else:
                    rt.insert(torch.zeros(shape, dtype=DT[case["dtype"]]), targ, _fn("extrap", name),
                              tolerance=tol, offset=off, inplace=op["inplace"], extrap_kwargs=kw)
            except ValueError:
                st_["rej"] += 1
            except Exception as e:  # noqa: BLE001
                raise Violation("range:wrongexc", f"{what}: {type(e).__name__}: {e}") from e
            else:
                raise Violation("range:accepted", f"{what}: time outside [-tol, dt*(N-1)+tol] accepted "
                                                 f"(times {tvals.ravel().tolist()}, N={n}, dt={dt}, tol={tol})")
            _verify_all(rt, ring, what)
            continue
        if "amb" in rng:
            st_["amb"] += 1
            continue  # at the very edge of the documented range either outcome is acceptable

        cl = {}
        for ix in idxs:
            for d in range(D):
                cl[ix + (d,)] = tm.classify(float(tvals[ix + (d,)]), dt, tol, tdtype)
        st_["scalar" if mode == "scalar" else "tensor"] += 1
        st_["D"] += 1 if D > 1 else 0

        if op["op"] == "select":
            with impl(what):
                if mode != "scalar" and op.get("reuse") and prev_tensor is not None and prev_tensor.shape == targ.shape \
                        and prev_tensor.dtype == targ.dtype:
                    prev_tensor.copy_(targ)  # the caller updates ITS time tensor in place and selects again
                    targ = prev_tensor
                got = rt.select(targ, _fn("interp", name, op.get("default")), tolerance=tol, offset=off, interp_kwargs=kw)
                if mode != "scalar":
                    prev_tensor = targ
            want_shape = shape + (D,) if mode == "tensorD" else shape
            check(tuple(got.shape) == want_shape, "select:shape",
                  lambda: f"{what}: shape {tuple(got.shape)} != {want_shape}")
            g = got.detach().to(torch.float64).numpy().reshape(shape + (D,))
            for key, (status, k, older, newer, elapsed) in cl.items():
                ix = key[:-1]
                if status == "amb":
                    st_["amb"] += 1
                    continue
                if status == "on":
                    want, amb = float(ring.read(off + k)[ix]), False
                    st_["on"] += 1
                else:
                    o_, n_ = float(ring.read(off + older)[ix]), float(ring.read(off + newer)[ix])
                    if not _finite(o_, n_) and name not in ("previous", "next", "nearest"):
                        st_["amb"] += 1  # arithmetic on inf/nan samples is not asserted
                        continue
                    want, amb = tm.interp(name, o_, n_, elapsed, dt, tau, exact_tie=dyadic_dt)
                    if amb:
                        st_["amb"] += 1
                        continue
                    st_["off"] += 1
                    if o_ != n_:
                        st_["distinct_bracket"] += 1
                extra = 0.0
                # the elapsed time is computed in the time's dtype (tensor times) or cast to the record's dtype (scalar
                # times); the interpolation itself runs in the promoted dtype of data and time
                eff = "float32" if f32 else "float64"
                if status == "off" and name == "linear":
                    # slope x error of the elapsed time, plus cancellation between the two (possibly huge) samples
                    extra = abs(n_ - o_) / dt * _dt_err(float(tvals[key]), dt, eff) + 16 * tm.EPS[eff] * (abs(o_) + abs(n_))
                elif status == "off" and name in ("expdecay", "expratedecay"):
                    extra = abs(o_) / tau * _dt_err(float(tvals[key]), dt, eff) + 16 * tm.EPS[eff] * abs(o_)
                check(
                    _same(g[key], want) if (status == "on" or name in ("previous", "next", "nearest")) else _close(g[key], want, f32, extra),
                    f"select:{status}grid",
                    lambda: f"{what} interp={name} elem={key} t={tvals[key]!r} (dt={dt}, tol={tol}, N={n}, ptr={ptr}, "
                            f"offset={off}, {status} k={k} older={older} newer={newer} elapsed={elapsed}): got {g[key]!r} want {want!r}",
                )
        else:
            xvals = np.array([op["pool"][j % len(op["pool"])] * 0.25 for j in range(numel)]).reshape(shape)
            before = [np.array(h) for h in ring.hist]
            odt = DT[case["dtype"]]
            if op.get("odt") == "other":
                odt = torch.float64 if odt == torch.float32 else torch.float32
            with impl(what):
                rt.insert(torch.tensor(xvals, dtype=odt), targ, _fn("extrap", name, op.get("default")),
                          tolerance=tol, offset=off, inplace=op["inplace"], extrap_kwargs=kw)
                sdt = rt.value.dtype
            check(sdt == DT[case["dtype"]], "insert:dtype",
                  lambda: f"{what} extrap={name}: storage dtype became {sdt} (record dtype {case['dtype']}, observation dtype {odt}); "
                          "inserted values must be cast back to the data type of the storage")
            # expected contents per slot/element: (value, exact?) or None = unknown (ambiguous)
            expect = {}
            for key, (status, k, older, newer, elapsed) in cl.items():
                ix = key[:-1]
                x = float(xvals[ix])
                if status == "amb":
                    st_["amb"] += 1
                    for kk in {k, older, newer}:
                        expect[((off + kk) % n, ix)] = None
                    continue
                if status == "on":
                    st_["on"] += 1
                    expect[((off + k) % n, ix)] = (x, True)
                    continue
                o_, n_ = float(before[(off + older) % n][ix]), float(before[(off + newer) % n][ix])
                if not _finite(o_, n_) and name not in ("previous", "next", "neighbors", "nearest"):
                    st_["amb"] += 1  # arithmetic extrapolation from inf/nan neighbours is not asserted
                    expect[((off + older) % n, ix)] = None
                    expect[((off + newer) % n, ix)] = None
                    continue
                if name.startswith("linear") and (elapsed < 0.04 * dt or dt - elapsed < 0.04 * dt):
                    # documented division by t_s (resp. dt - t_s): not asserted near zero
                    st_["amb"] += 1
                    expect[((off + older) % n, ix)] = None
                    expect[((off + newer) % n, ix)] = None
                    continue
                if adj:  # documented: f is applied to the kept neighbour before extrapolating
                    if name == "linear_forward":
                        o_ = float(ADJUST[adj](o_))
                    else:
                        n_ = float(ADJUST[adj](n_))
                (eo, en), amb = tm.extrap(name, x, elapsed, o_, n_, dt, tau, exact_tie=dyadic_dt)
                if amb:
                    st_["amb"] += 1
                    expect[((off + older) % n, ix)] = None
                    expect[((off + newer) % n, ix)] = None
                    continue
                st_["off"] += 1
                st_["insert_off"] += 1
                exact = name in ("previous", "next", "neighbors", "nearest")
                eff = "float32" if (f32 or odt == torch.float32) else "float64"
                derr = _dt_err(float(tvals[key]), dt, eff)
                canc = 16 * tm.EPS[eff]
                ex_o = ex_n = 0.0
                if name == "linear_forward":
                    ex_n = abs(x - o_) * dt / (elapsed * elapsed) * derr + canc * (abs(x) + abs(o_)) * dt / elapsed
                elif name == "linear_backward":
                    ex_o = abs(n_ - x) * dt / ((dt - elapsed) ** 2) * derr + canc * (abs(x) + abs(n_)) * dt / (dt - elapsed)
                elif name in ("expdecay", "expratedecay"):
                    ex_o, ex_n = abs(eo) / tau * derr + canc * abs(eo), abs(en) / tau * derr + canc * abs(en)
                # kept neighbours of linear_forward / linear_backward (without adjust) are written back unchanged
                keep_o = name == "linear_forward" and not adj
                keep_n = name == "linear_backward" and not adj
                expect[((off + older) % n, ix)] = (eo, exact or keep_o, ex_o)
                expect[((off + newer) % n, ix)] = (en, exact or keep_n, ex_n)
            with impl("read back after " + what):
                after = [rt.read(k).detach().to(torch.float64).numpy().reshape(shape) for k in range(n)]
                check(rt.pointer == ptr and rt.recordsz == n, "insert:pointer",
                      lambda: f"{what}: pointer/recordsz changed ({rt.pointer}, {rt.recordsz})")
            for k in range(n):
                for ix in idxs:
                    gotv = float(after[k][ix])
                    e = expect.get((k, ix), (float(before[k][ix]), True, "untouched"))
                    if e is None:
                        continue
                    wantv, exact = e[0], e[1]
                    untouched = len(e) == 3 and e[2] == "untouched"
                    extra_w = e[2] if (len(e) == 3 and not untouched) else 0.0
                    ok = _same(gotv, wantv) if exact else _close(gotv, wantv, f32 or odt == torch.float32, extra_w)
                    check(ok, "insert:untouched" if untouched else "insert:written",
                          lambda: f"{what} extrap={name} slot k={k} elem={ix} times={tvals.ravel().tolist()} (dt={dt}, tol={tol}, "
                                  f"N={n}, ptr={ptr}, offset={off}, inplace={op['inplace']}): got {gotv!r} want {wantv!r} "
                                  f"({'must be untouched' if untouched else 'written'}); class={ {str(k_): v[:4] for k_, v in cl.items()} }")
            # resync the model to the implementation (no drift from tolerated rounding)
            ring.hist = [np.array(a, dtype=np.float64) for a in after]
            # round trip with a matching interpolation
            rti = op.get("roundtrip")
            if rti and rti in tm.ROUNDTRIP[name] and all(c[0] != "amb" for c in cl.values()):
                kw2 = {"time_constant": tau} if rti == "expdecay" else ({"rate_constant": 1.0 / tau} if rti == "expratedecay" else {})
                with impl(what + " roundtrip select"):
                    back = rt.select(targ, _fn("interp", rti), tolerance=tol, offset=off, interp_kwargs=kw2)
                b = back.detach().to(torch.float64).numpy().reshape(shape)
                # elements whose written slots were overwritten by another element cannot collide:
                # each element only touches its own position ix
                for key, (status, k, older, newer, elapsed) in cl.items():
                    ix = key[:-1]
                    if status == "off":
                        if name.startswith("linear") and (elapsed < 0.04 * dt or dt - elapsed < 0.04 * dt):
                            continue
                        if abs(elapsed / dt - 0.5) < 1e-3 and "nearest" in (name, rti):
                            continue
                    x = float(xvals[ix])
                    lin = name.startswith("linear") or name.startswith("exp")
                    okrt = _close(float(b[ix]), x, True) if lin else float(b[ix]) == x
                    if lin and status == "off" and not _finite(float(before[(off + older) % n][ix]), float(before[(off + newer) % n][ix])):
                        continue
                    if lin and not okrt:  # conditioning of the linear / exponential inverse
                        okrt = abs(float(b[ix]) - x) <= 1e-3 * (1 + abs(x) + max([abs(float(v)) for h in before for v in np.ravel(h) if np.isfinite(v)] + [0.0]))
                    check(okrt, "roundtrip",
                          lambda: f"{what} insert({name}) then select({rti}) at t={tvals[key]!r}: got {float(b[ix])!r} want {x!r}")
                    st_["roundtrip"] += 1
        _verify_all(rt, ring, what)

    cls = [f"N={n if n <= 3 else '4+'}", f"dt={dt}", f"ptr{'!=0' if ptr else '=0'}"]
    for k_ in ("off", "on", "amb", "rej", "roundtrip", "insert_off", "D", "scalar", "tensor"):
        if st_[k_]:
            cls.append(k_)
    nt = st_["off"] >= 1 and st_["distinct_bracket"] + st_["insert_off"] >= 1 and ptr != 0
    return {"nt": bool(nt), "cls": cls, "amb": st_["amb"]}


def _verify_all(rt, ring, what):
    for k in range(ring.n):
        with impl(f"read({k}) after {what}"):
            got = rt.read(k).detach().to(torch.float64).numpy().reshape(ring.shape)
        check(np.array_equal(got, ring.read(k), equal_nan=True), "state:drift",
              lambda: f"{what}: slot {k} is {got.tolist()} but model has {ring.read(k).tolist()}")


# ---------------------------------------------------------------------------- generator

_spec = st.tuples(st.integers(0, 20), st.sampled_from(STRATA), st.integers(0, 100)).map(list)
_spec_out = st.tuples(st.integers(0, 20), st.sampled_from(["out-", "out+"]), st.just(0)).map(list)


@st.composite
def _op(draw):
    kind = draw(st.sampled_from(["select", "select", "insert"]))
    mode = draw(st.sampled_from(["scalar", "tensor", "tensor", "tensorD"]))
    specs = draw(st.lists(_spec, min_size=1, max_size=6))
    if draw(st.integers(0, 11)) == 0:
        specs[draw(st.integers(0, len(specs) - 1))] = draw(_spec_out)
    fn = draw(st.sampled_from(INTERPS if kind == "select" else EXTRAPS))
    op = {
        "op": kind, "mode": mode, "times": specs, "fn": fn,
        "tdtype": draw(st.sampled_from(["float64", "float64", "float32"])),
        "tol": draw(st.sampled_from(["0", "1e-9", "1e-6", "1e-6", "1e-3dt", "1e-3dt", "0.3dt", "0.6dt"])),
        "offset": draw(st.sampled_from([0, 1, 2, 3, 0, 1, -1, -2, -3])),
        "tau": draw(st.sampled_from([0.7, 2.0, 10.0])),
        "D": draw(st.integers(1, 3)),
        "default": draw(st.integers(0, 3)) == 0, "reuse": draw(st.booleans()),
    }
    if op["default"]:
        op["fn"] = "nearest"  # the documented default (interp / extrap left at None) is nearest
    if op["fn"] == "nearest" and draw(st.booleans()):
        # ties at exactly half a step (decisive for dyadic dt): the documented side is the older sample
        op["times"] = [[sp[0], "mid", sp[2]] for sp in op["times"]]
    fn = op["fn"]
    if kind == "insert":
        op["inplace"] = draw(st.booleans())
        op["pool"] = draw(st.lists(st.integers(-20, 20), min_size=1, max_size=4))
        op["roundtrip"] = draw(st.sampled_from(tm.ROUNDTRIP[fn] + [None]))
        op["adjust"] = draw(st.sampled_from([None, None, "half", "plus"]))
        op["odt"] = draw(st.sampled_from(["same", "same", "other"]))
    return op


@st.composite
def case_strategy(draw, tier="quick"):
    n = draw(st.sampled_from([1, 2, 2, 3, 3, 4, 5, 6, 7]))
    dt = draw(st.sampled_from([0.5, 1.0, 0.25, 1.3, 0.1, 0.7, 1.0]))
    shape = draw(st.sampled_from([[], [1], [2], [3], [2, 2]]))
    return {
        "n": n, "dt": dt, "dtype": draw(st.sampled_from(["float32", "float32", "float64", "int64"])),
        "shape": shape,
        "inclusive": draw(st.booleans()), "durfrac": draw(st.sampled_from([0.0, 0.0, 0.5, 0.25])),
        "pre": {"pushes": draw(st.integers(0, 2 * n + 3)), "inplace": draw(st.booleans()),
                "nonfinite": draw(st.sampled_from([None, None, None, [0, 0, 1, 0, 3], [2, 0, 0, 0], [3, 0, 1, 0, 0, 2, 0]])),
                "pool": draw(st.lists(st.integers(-20, 20), min_size=2, max_size=6)),
                "incr": draw(st.integers(0, 8))},
        "ops": draw(st.lists(_op(), min_size=1, max_size=4 if tier == "quick" else 8)),
    }


LEGS = [
    Leg(
        name="timeidx",
        run=run_case,
        strategy=lambda tier: case_strategy(tier),
        quick=500, thorough=6000, quick_shards=4, thorough_shards=16, nt_floor=0.2, fuzz_runs=10_000,
        rule="ring state with pointer != 0, then select/insert ops (scalar / tensor / tensor+D times; 6 interpolations, "
             "8 extrapolations; strata on-grid, +-tol/2, +-2tol, fractions, both range limits, outside); non-trivial = "
             ">= 1 decisive off-grid element with distinct bracketing samples (or an off-grid insert) and pointer != 0",
    ),
]

ASSUMPTIONS = [
    "float storage (float32/float64) for select and insert, int64 storage for select; times classified through the documented tolerance predicate on exact rationals "
    "with an ambiguity band of 8 ulp of the working dtype (ambiguous elements are skipped and counted)",
    "linear_* extrapolation is not asserted when t_s (resp. dt - t_s) < 0.04 dt (documented division)",
    "interp_nearest: nearest neighbour in time (the code's behaviour; the docstring's case formula is inverted), tie at half a step banded",
]

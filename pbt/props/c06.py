"""C06 — a connection delay is a pure per-synapse time shift.

Differential oracle: a twin connection built WITHOUT delays (same synapse parameters, same
weights) is driven by the same inputs; its synapse.current / synapse.spike are recorded per
step.  The delayed connection's output at step t must equal the documented linear map
(index loops, written here) applied to, per synapse, the twin's current at step t - k (zero
before the start / the last clear), or the synapse's documented interpolation of the two
neighbouring recorded steps when the delay is off the grid.  syncurrent / synspike views must
show the same shifted values; delay 0 is indistinguishable from no delay.
"""

from __future__ import annotations

import math

import numpy as np
import torch
from hypothesis import strategies as st

from .. import builders as B
from ..harness import Leg, check, impl
from ..models import timeidx as tm


def _syn_layout(cfg, conn_t):
    """Returns (synshape, dshape, gather) where gather(D_hist(o-idx...)) builds output.
    Layout conventions (documented selector shapes): dense/lateral (B, I, O); direct (B, N, 1);
    conv (B, N, L, F)."""
    t = cfg["type"]
    return t


def _expected(t, cfg, W, bias, ksel, Hfun, Bsz, outshape):
    """W: numpy weight (as read back), ksel: callable (syn index tuple, out index) -> delayed value
    provider; Hfun(b, syn_index, out_index) -> float64 current for that synapse/output pair."""
    raise NotImplementedError


def run_case(case):
    dt = case["dt"]
    Bsz = case["batch"]
    cfg = dict(case["conn"])
    K = cfg["delay"]
    tcfg = dict(cfg)
    tcfg["delay"] = None
    torch.manual_seed(0)
    with impl("construct delayed"):
        D = B.make_connection(cfg, dt, Bsz)
    with impl("construct twin"):
        T = B.make_connection(tcfg, dt, Bsz)
    t = cfg["type"]
    syncls = cfg["syn"]["cls"]
    tol = cfg["syn"].get("tol", 0.0)
    interp = cfg["syn"].get("interp", "previous")
    with impl("read parameters"):
        W = D.weight.detach().double().numpy()
        WT = T.weight.detach().double().numpy()
        bias = D.bias.detach().double().numpy() if D.bias is not None else None
        dl = D.delay.detach().numpy()  # float32 as stored
        delayedby = D.delayedby
    check(np.array_equal(W, WT), "harness:weights", "twin weights differ")  # same builder + seeds
    if t == "lateral":
        check(np.all(np.diag(dl) == 0), "lateral:selfdelay", f"diag(delay) = {np.diag(dl).tolist()}")
    inshape, outshape = B.conn_shapes(cfg)
    steps = case["steps"]
    spikes = B.spikes_from(case["sseed"], steps, (Bsz,) + inshape, case["rate"])
    inj = B.dyadic(case["sseed"] + 7, (steps, Bsz) + inshape, -8, 8, 4) if syncls == "DeltaPlusCurrent" else None
    clear_at = case.get("clear_at")

    # classification of every stored delay through the documented tolerance contract
    cls_ = np.empty(dl.shape, dtype=object)
    amb = 0
    ks = set()
    for ix in np.ndindex(*dl.shape):
        c = tm.classify(float(dl[ix]), dt, tol, "float32")
        if c[0] == "off" and syncls in ("DeltaCurrent", "DeltaPlusCurrent", "SingleExponentialCurrent", "DoubleExponentialCurrent"):
            if interp == "nearest" and abs(c[4] / dt - 0.5) < 1e-3:
                c = ("amb",) + c[1:]
        cls_[ix] = c
        if c[0] == "amb":
            amb += 1
        elif c[0] == "on":
            ks.add(c[1])
        else:
            ks.add(c[2] + 0.5)

    Hc, Hs, Hp, Hn = [], [], [], []  # twin histories since the last clear
    stats = {"before_start": 0, "steps": 0, "offgrid": 0}

    def hist(H, age):
        return H[len(H) - 1 - age] if 0 <= age < len(H) else None

    def delayed_value(ix_delay, syn_ix, b):
        """current and spike of synapse syn_ix for the delay entry ix_delay, sample b."""
        st_, k, older, newer, elapsed = cls_[ix_delay]
        if st_ == "amb":
            return None, None
        if st_ == "on":
            hc, hs = hist(Hc, k), hist(Hs, k)
            if hc is None:
                stats["before_start"] += 1
                return 0.0, 0.0
            return float(hc[(b,) + syn_ix]), float(hs[(b,) + syn_ix])
        stats["offgrid"] += 1
        ho, hn = hist(Hs, older), hist(Hs, newer)
        so = float(ho[(b,) + syn_ix]) if ho is not None else 0.0
        sn_ = float(hn[(b,) + syn_ix]) if hn is not None else 0.0
        spk, _ = tm.interp(interp, so, sn_, elapsed, dt)
        if syncls == "DeltaCurrent":
            return spk * (cfg["syn"].get("q", 30.0) / dt), spk
        if syncls == "DeltaPlusCurrent":
            co = hist(Hc, older)
            cn = hist(Hc, newer)
            co = float(co[(b,) + syn_ix]) if co is not None else 0.0
            cn = float(cn[(b,) + syn_ix]) if cn is not None else 0.0
            cur, _ = tm.interp(interp, co, cn, elapsed, dt)
            return cur, spk
        if syncls == "SingleExponentialCurrent":
            co = hist(Hc, older)
            co = float(co[(b,) + syn_ix]) if co is not None else 0.0
            return co * math.exp(-elapsed / cfg["syn"].get("tau", 4.0)), spk
        po, no = hist(Hp, older), hist(Hn, older)
        po = float(po[(b,) + syn_ix]) if po is not None else 0.0
        no = float(no[(b,) + syn_ix]) if no is not None else 0.0
        return (po * math.exp(-elapsed / cfg["syn"].get("tau_d", 6.0))
                - no * math.exp(-elapsed / cfg["syn"].get("tau_r", 2.0))), spk

    def classify_all():
        nonlocal amb
        for ix in np.ndindex(*dl.shape):
            c = tm.classify(float(dl[ix]), dt, tol, "float32")
            if c[0] == "off" and interp == "nearest" and abs(c[4] / dt - 0.5) < 1e-3:
                c = ("amb",) + c[1:]
            cls_[ix] = c
            if c[0] == "amb":
                amb += 1
            elif c[0] == "on":
                ks.add(c[1])
            else:
                ks.add(c[2] + 0.5)

    reassign_at = case.get("reassign_at")
    for step in range(steps):
        if reassign_at is not None and step == reassign_at and delayedby:
            # new per-synapse delays through the public setter (as an updater / a delay-learning rule does)
            rng = np.random.Generator(np.random.PCG64(int(case["sseed"]) + 99))
            newk = rng.integers(0, K + 1, size=dl.shape)
            with impl(f"delay re-assignment before step {step}"):
                D.delay = torch.tensor(newk * dt, dtype=torch.float32)
                dl = D.delay.detach().numpy()
            if t == "lateral":
                check(np.all(np.diag(dl) == 0), "lateral:selfdelay", f"diag(delay) = {np.diag(dl).tolist()} after re-assignment")
            classify_all()
        if clear_at is not None and step == clear_at:
            with impl("clear"):
                D.clear()
                T.clear()
            Hc, Hs, Hp, Hn = [], [], [], []
        x = torch.tensor(spikes[step])
        args = (x,) if inj is None else (x.float(), torch.tensor(inj[step], dtype=torch.float32))
        with impl(f"step {step} forward"):
            outD = D(*args)
            outT = T(*args)
            Hc.append(T.synapse.current.detach().double().numpy().copy())
            Hs.append(T.synapse.spike.detach().double().numpy().copy())
            if syncls == "DoubleExponentialCurrent":
                Hp.append(T.synapse.pos_current.detach().double().numpy().copy())
                Hn.append(T.synapse.neg_current.detach().double().numpy().copy())
            sc = D.syncurrent.detach().double().numpy()
            ss = D.synspike.detach().double().numpy()
        stats["steps"] += 1
        check(tuple(outD.shape) == (Bsz,) + outshape, "shape",
              lambda: f"step {step}: output shape {tuple(outD.shape)} != {(Bsz,) + outshape}")
        got = outD.detach().double().numpy()
        if not delayedby:
            # delay parameter present with maximum 0: indistinguishable from no delay
            check(np.array_equal(got, outT.detach().double().numpy()), "zero-delay",
                  lambda: f"step {step}: delay-0 connection differs from the undelayed twin")
            continue
        # per-output expected value with explicit index loops
        exp = np.zeros((Bsz,) + outshape)
        skip = np.zeros((Bsz,) + outshape, dtype=bool)
        scale = np.zeros((Bsz,) + outshape)

        def acc(b, oix, w, dix, six, view_ix):
            cur, spk = delayed_value(dix, six, b)
            if cur is None:
                skip[(b,) + oix] = True
                return
            exp[(b,) + oix] += w * cur
            scale[(b,) + oix] += abs(w * cur)
            check(abs(sc[view_ix] - cur) <= 1e-5 * (1 + abs(cur)), "syncurrent",
                  lambda: f"step {step}: syncurrent{view_ix} = {sc[view_ix]!r}, shifted twin current = {cur!r} "
                          f"(delay {float(dl[dix])!r}, class {cls_[dix][:4]})")
            check(ss[view_ix] == spk, "synspike",
                  lambda: f"step {step}: synspike{view_ix} = {ss[view_ix]!r}, shifted twin spike = {spk!r} "
                          f"(delay {float(dl[dix])!r}, class {cls_[dix][:4]})")

        if t in ("dense", "lateral"):
            O, I = W.shape
            for b in range(Bsz):
                for o in range(O):
                    for i in range(I):
                        acc(b, np.unravel_index(o, outshape), W[o, i], (o, i), (i,), (b, i, o))
        elif t == "direct":
            N = W.shape[0]
            for b in range(Bsz):
                for i in range(N):
                    acc(b, np.unravel_index(i, outshape), W[i], (i,), (i,), (b, i, 0))
        else:  # conv: synapse shape (N, L); delay (F, C, kh, kw); view (B, N, L, F)
            F_, C_, kh, kw = W.shape
            L = outshape[1] * outshape[2]
            Wf = W.reshape(F_, -1)
            for b in range(Bsz):
                for f in range(F_):
                    for l in range(L):
                        for n in range(Wf.shape[1]):
                            acc(b, (f,) + tuple(np.unravel_index(l, outshape[1:])), Wf[f, n],
                                (f,) + tuple(np.unravel_index(n, (C_, kh, kw))), (n, l), (b, n, l, f))
        if bias is not None:
            if t == "conv":
                exp += bias.reshape(1, -1, 1, 1)
            else:
                exp += bias.reshape((1,) + outshape)
        ok = skip | (np.abs(got - exp) <= 1e-5 * (1 + scale + np.abs(exp)))
        check(bool(ok.all()), "shift",
              lambda: f"step {step}: output {got[~ok].ravel()[:4].tolist()} != time-shifted reference "
                      f"{exp[~ok].ravel()[:4].tolist()} at {np.argwhere(~ok)[:4].tolist()} (type {t}, synapse {syncls}, "
                      f"dt={dt}, K={K}, delays(steps)={np.round(dl / dt, 3).ravel()[:8].tolist()})")
    nt = len(ks) >= 2 and stats["before_start"] >= 1 and bool(spikes.any()) and not bool(spikes.all())
    cls = [t, syncls, f"dt={dt}", f"K={K}", cfg.get("delays", "hetero")]
    if stats["offgrid"]:
        cls.append("offgrid")
    if clear_at is not None:
        cls.append("clear")
    if reassign_at is not None and delayedby:
        cls.append("delay-reassigned")
    if not delayedby:
        cls.append("zero-max")
        nt = True
    return {"nt": bool(nt), "cls": cls, "amb": amb}


@st.composite
def case_strategy(draw, tier="quick"):
    t = draw(st.sampled_from(["dense", "dense", "direct", "lateral", "conv"]))
    dt = draw(st.sampled_from([1.0, 0.5, 1.3, 0.1, 0.7]))
    K = draw(st.sampled_from([0, 1, 2, 3, 4, 5]))
    syncls = draw(st.sampled_from(B.SYNAPSES))
    offgrid = draw(st.integers(0, 3)) == 0 and K >= 1
    tol = draw(st.sampled_from([0.0, 1e-6, 1e-3 * dt])) if dt in (1.0, 0.5) else draw(st.sampled_from([1e-3 * dt, 1e-3 * dt, 0.0]))
    syn = {"cls": syncls, "q": draw(st.sampled_from([8.0, 30.0])), "tol": tol,
           "interp": draw(st.sampled_from(["previous", "nearest"])), "inplace": draw(st.booleans())}
    conn = {"type": t, "syn": syn, "bias": draw(st.booleans()), "delay": K,
            "wseed": draw(st.integers(0, 10_000)), "dseed": draw(st.integers(0, 10_000)),
            "delays": draw(st.sampled_from(["hetero", "hetero", "hetero", "homo", "zero"])), "offgrid": offgrid}
    if t == "dense":
        conn["inshape"] = draw(st.sampled_from([[3], [2, 2], [4]]))
        conn["outshape"] = draw(st.sampled_from([[2], [3], [2, 2]]))
    elif t in ("direct", "lateral"):
        conn["inshape"] = draw(st.sampled_from([[3], [2, 2], [4]]))
    else:
        conn.update({"H": draw(st.integers(2, 4)), "W": draw(st.integers(2, 4)), "C": draw(st.integers(1, 2)),
                     "F": draw(st.integers(1, 2)), "k": [draw(st.integers(1, 2)), draw(st.integers(1, 2))],
                     "stride": [draw(st.integers(1, 2)), 1], "padding": [draw(st.integers(0, 1)), 0]})
    steps = draw(st.integers(K + 2, 3 * K + 6))
    return {"dt": dt, "batch": draw(st.integers(1, 3)), "conn": conn, "steps": steps,
            "sseed": draw(st.integers(0, 100_000)), "rate": draw(st.sampled_from([0.2, 0.5, 0.8])),
            "clear_at": draw(st.sampled_from([None, None, None, steps // 2])),
            "reassign_at": draw(st.sampled_from([None, None, 1, 2, steps // 2]))}


LEGS = [
    Leg(name="shift", run=run_case, strategy=lambda tier: case_strategy(tier),
        quick=120, thorough=6000, quick_shards=8, thorough_shards=16, nt_floor=0.25,
        rule="4 connection types x 4 synapse types x dt in {1,0.5,1.3,0.1,0.7} x max delay 0..5 steps x homogeneous/"
             "heterogeneous/zero/off-grid per-synapse delays x batch 1-3 x histories of K+2..3K+6 steps (+ mid-run clear); "
             "non-trivial = >= 2 distinct delays, a non-constant spike history and >= 1 read reaching before the start"),
]

ASSUMPTIONS = [
    "delays are classified on/off grid from the STORED float32 delay and the float64 dt through the documented tolerance "
    "predicate with an ambiguity band (synapses whose delay is ambiguous are skipped and counted)",
    "outputs compared at rtol 1e-5 (float32 sums); syncurrent/synspike compared per synapse",
]

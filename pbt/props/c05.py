"""C05 — connections compute their documented linear map.

Legs
  linear   : LinearDense / LinearDirect / LinearLateral — forward == index-loop map of the
             synapse's current (read back), shapes, reshaping helpers, receptive views
  conv     : Conv2D — forward == naive 2-D cross-correlation of the synapse's current
             re-expressed in input layout; output-size formula; helpers; receptive views;
             geometry generated from the output size backwards
  convgrid : exhaustive small-geometry grid of the same check (H,W<=5, k<=3, s,d<=2, p<=1)
  lateral  : stateful — sequences of weight/delay assignments, updater contributions +
             update(), real STDP trainer steps; diag(weight)==0 and diag(delay)==0 after every op
Oracle: pbt.models.connections (NumPy index loops; no inferno, no einsum, no unfold);
torch.nn.functional.conv2d (a path the implementation does not use) cross-checks the model.
"""

from __future__ import annotations

import contextlib

import numpy as np
import torch
from hypothesis import strategies as st

from ..harness import HarnessError, Leg, check, impl
from ..models import connections as M

# ---------------------------------------------------------------------------- utilities


@contextlib.contextmanager
def _default_dtype(f64: bool):
    old = torch.get_default_dtype()
    torch.set_default_dtype(torch.float64 if f64 else torch.float32)
    try:
        yield
    finally:
        torch.set_default_dtype(old)


def _np(t) -> np.ndarray:
    return t.detach().to(torch.float64).cpu().numpy()


def _t(arr, dtype=None) -> torch.Tensor:
    t = torch.tensor(np.asarray(arr, dtype=np.float64), dtype=torch.float64)
    return t.to(dtype if dtype is not None else torch.get_default_dtype())


def _data(case, key, n, off=0):
    """values for tensor `key` of the case: dyadic pool/seed spec or seeded reals."""
    if case["data"] == "real":
        return M.realvals(case["seed"] * 16 + off, n)
    return M.vals(case[key], n)


def _same(got, want, kind, what, *, exact, f64, scale=None, info=None):
    check(isinstance(got, torch.Tensor), kind + ":type", lambda: f"{what}: got {type(got)}", info)
    want = np.asarray(want, dtype=np.float64)
    check(tuple(got.shape) == tuple(want.shape), kind + ":shape",
          lambda: f"{what}: shape {tuple(got.shape)} != documented {tuple(want.shape)}", info)
    g = _np(got)
    if exact:
        ok = np.array_equal(g, want)
    else:
        sc = np.abs(want) if scale is None else np.asarray(scale)
        rtol = 1e-12 if f64 else 2e-5
        ok = bool(np.all(np.abs(g - want) <= rtol * sc + (1e-13 if f64 else 1e-6)))

    def _d():
        bad = np.argwhere(~np.isclose(g, want, rtol=1e-5, atol=1e-6) if not exact else g != want)
        first = tuple(int(v) for v in bad[0]) if len(bad) else ()
        return (f"{what}: {len(bad)} of {g.size} elements differ; first at {first}: got "
                f"{g[first] if len(bad) else None} want {want[first] if len(bad) else None}")

    check(ok, kind + ":value", _d, info)


def _index_coded(shape, base=1.0):
    n = int(np.prod(shape))
    return (np.arange(n, dtype=np.float64) + base).reshape(shape)


def _synapse(case):
    from inferno.neural import DeltaPlusCurrent

    return DeltaPlusCurrent.partialconstructor(float(case["charge"]))


def _delay_arg(case):
    mode = case["delaymode"]
    if mode == "none":
        return None
    if mode == "zero":
        return 0.0
    return float(case["dt"]) * 2.0  # capacity for delays, learned delays stay all-zero


def _inputs(case, step, bshape):
    """(spikes tensor, [injected current tensors]) of one step, plus nothing else."""
    n = int(np.prod(bshape))
    bits = (np.abs(M.vals(step["spk"], n, scale=1.0)) % 2 == 1).astype(np.float64).reshape(bshape)
    if case["spkdtype"] == "bool":
        spk = torch.tensor(bits != 0)
    else:
        spk = _t(bits)
    inj = []
    for k in range(case["ninj"]):
        if case["data"] == "real":
            v = M.realvals(case["seed"] * 16 + 7 + k + 3 * step["k"], n)
        else:
            v = M.vals(step["inj"], n) * (1 if k == 0 else -0.5)
        inj.append(_t(v.reshape(bshape)))
    return spk, inj


def _asym(w: np.ndarray) -> bool:
    """weight distinguishes an index mix-up: not constant, and not equal to its transpose /
    180-degree flip where that has the same shape."""
    if w.size < 2 or np.all(w == w.flat[0]):
        return False
    if w.ndim == 2 and w.shape[0] == w.shape[1] and np.array_equal(w, w.T):
        return False
    if w.ndim == 4:
        if w.shape[2] * w.shape[3] > 1 and np.array_equal(w, w[:, :, ::-1, ::-1]):
            return False
        if w.shape[2] == w.shape[3] and w.shape[2] > 1 and np.array_equal(w, np.swapaxes(w, 2, 3)):
            return False
    return True


def _reparam(conn, case, step, wm, bm, lateral, info, stats):
    """Parameter changes BETWEEN forward calls, through the public setters (`conn.weight = T`,
    `conn.bias = T`) and through the updater (`conn.updater.weight = (pos, neg); conn.update()`).
    Returns the CURRENT (wm, bm) the documented map must use from now on: the assigned value for a
    setter (a lateral connection must ignore its diagonal), the value read back after an update."""
    f64, real, k = case["f64"], case["data"] == "real", step["k"]
    for j, op in enumerate(step.get("pre", [])):
        name = op[0]
        if name in ("b", "ub") and bm is None:
            continue
        if name in ("uw", "ub") and not case.get("updater"):
            continue
        isw = name in ("w", "uw")
        shape = wm.shape if isw else bm.shape
        size = int(np.prod(shape))

        def draw(spec, off):
            if real:
                return M.realvals(case["seed"] * 16 + 100 + 10 * k + 2 * j + off, size).reshape(shape)
            return M.vals(spec, size).reshape(shape)

        tgt = "weight" if isw else "bias"
        what = f"before step {k}: {name}"
        if name in ("w", "b"):
            v = draw(op[1], 0)
            with impl(what):
                setattr(conn, tgt, _t(v))
                r = getattr(conn, tgt)
            stored = M.lateral_assign(v) if (lateral and isw) else v
            _same(r, stored, "assign:" + tgt, f"{tgt} read back ({what})", exact=True, f64=f64, info=info)
            if isw:
                wm = v
                stats["diag"] = stats["diag"] or (lateral and bool(np.any(np.diag(v) != 0)))
            else:
                bm = v
            stats["set"] += 1
        else:
            pos, neg = np.abs(draw(op[1], 0)), np.abs(draw(op[2], 1)) * 0.5
            mode = op[3] % 3
            old = (M.lateral_assign(wm) if lateral else wm) if isw else bm
            with impl(what):
                if mode == 0:
                    setattr(conn.updater, tgt, (_t(pos), _t(neg)))
                    new = old + pos - neg
                elif mode == 1:
                    setattr(conn.updater, tgt, _t(pos))
                    new = old + pos
                else:
                    setattr(conn.updater, tgt, (None, _t(neg)))
                    new = old - neg
                conn.update()
                r = getattr(conn, tgt)
            if lateral and isw:
                stats["diag"] = stats["diag"] or bool(np.any(np.diag(new) != 0))
                new = M.lateral_assign(new)
            _same(r, new, "update:" + tgt, f"{tgt} read back ({what})", exact=not real, f64=f64,
                  scale=np.abs(old) + pos + neg, info=info)
            if isw:
                wm = _np(r)
            else:
                bm = _np(r)
            stats["upd"] += 1
    return wm, bm


# ---------------------------------------------------------------------------- linear leg


def _pcls(case, pstats):
    out = [f"steps={len(case['steps'])}"]
    if pstats["set"]:
        out.append("reassigned-between-steps")
    if pstats["upd"]:
        out.append("updated-between-steps")
    if pstats["set"] or pstats["upd"]:
        out.append("params-changed-between-steps")
    return out


def _build_linear(case):
    from inferno.neural import LinearDense, LinearDirect, LinearLateral

    kind = case["kind"]
    ish = tuple(case["in_shape"])
    osh = tuple(case["out_shape"]) if kind == "dense" else ish
    I, O = int(np.prod(ish)), int(np.prod(osh))
    wshape = {"dense": (O, I), "direct": (I,), "lateral": (I, I)}[kind]
    wm = _data(case, "w", int(np.prod(wshape)), 1).reshape(wshape)
    bm = _data(case, "b", O, 2) if case["bias"] else None
    arg = (lambda s: s[0] if (case["scalar_shape"] and len(s) == 1) else s)
    kw = dict(synapse=_synapse(case), bias=case["bias"], delay=_delay_arg(case), batch_size=case["batch"])
    if case["wmode"] == "init":
        kw["weight_init"] = lambda w: _t(wm, w.dtype)
        if case["bias"]:
            kw["bias_init"] = lambda b: _t(bm, b.dtype)
    with impl("construct " + kind):
        if kind == "dense":
            conn = LinearDense(arg(ish), arg(osh), float(case["dt"]), **kw)
        elif kind == "direct":
            conn = LinearDirect(arg(ish), float(case["dt"]), **kw)
        else:
            conn = LinearLateral(arg(ish), float(case["dt"]), **kw)
        if case["wmode"] == "set":
            conn.weight = _t(wm)
            if case["bias"]:
                conn.bias = _t(bm)
        if case.get("updater"):
            conn.updater = conn.defaultupdater()
        wr = conn.weight
        br = conn.bias
    if case["wmode"] == "default":  # inferno's own random initial values: the readback is the weight
        wm = _np(wr)
        bm = _np(br) if case["bias"] else None
    return conn, ish, osh, wm, bm, wr, br


def _run_linear(case):
    kind, B, f64 = case["kind"], case["batch"], case["f64"]
    exact = case["data"] == "dyadic"
    torch.manual_seed(case["seed"])
    conn, ish, osh, wm, bm, wr, br = _build_linear(case)
    I, O = int(np.prod(ish)), int(np.prod(osh))
    info = {"kind": kind}

    # parameters read back: what was assigned (lateral: masked off the diagonal)
    wstored = M.lateral_assign(wm) if kind == "lateral" else wm
    _same(wr, wstored, "assign:weight", f"{kind}.weight after assignment", exact=True, f64=f64, info=info)
    if kind == "lateral":
        d = np.diag(_np(wr))
        check(bool(np.all(d == 0)), "lateral:diag:weight", lambda: f"diag(weight) = {d.tolist()}", info)
    if case["bias"]:
        _same(br, bm, "assign:bias", f"{kind}.bias after assignment", exact=True, f64=f64, info=info)
    else:
        check(br is None, "assign:bias", "bias is not None on an unbiased connection", info)

    with impl("shapes"):
        shp = (conn.inshape, conn.outshape, conn.batched_inshape, conn.batched_outshape, conn.batchsz)
    check(shp == (ish, osh, (B,) + ish, (B,) + osh, B), "shape:attrs",
          lambda: f"(inshape,outshape,batched_inshape,batched_outshape,batchsz) = {shp}", info)

    ref = {"dense": M.dense, "direct": M.direct, "lateral": M.lateral}[kind]
    nonconst = False
    out_np = cur_np = None
    pstats = {"set": 0, "upd": 0, "diag": kind == "lateral" and bool(np.any(np.diag(wm) != 0))}
    for step in case["steps"]:
        wm, bm = _reparam(conn, case, step, wm, bm, kind == "lateral", info, pstats)
        wstored = M.lateral_assign(wm) if kind == "lateral" else wm
        spk, inj = _inputs(case, step, (B,) + ish)
        with impl(f"forward step {step['k']}"):
            out = conn(spk, *inj)
            cur = conn.synapse.current
        check(tuple(cur.shape) == (B, I), "current:shape", lambda: f"synapse.current shape {tuple(cur.shape)}", info)
        cur_np = _np(cur)
        want = ref(cur_np, wm, bm)
        scale = M.abs_dense(cur_np, wstored if kind != "direct" else np.diag(wm), bm)
        _same(out, want.reshape((B,) + osh), f"{kind}:forward", f"step {step['k']} output", exact=exact,
              f64=f64, scale=scale.reshape((B,) + osh), info=info)
        out_np = want
        nonconst = nonconst or len(np.unique(cur_np)) >= 2

    _helpers_linear(conn, case, kind, B, ish, osh, I, O, wm, wstored, cur_np, out_np, bm, info)

    cls = [f"kind={kind}", f"rank_in={len(ish)}", f"delay={case['delaymode']}", f"data={case['data']}",
           "f64" if f64 else "f32", "bias" if case["bias"] else "nobias", f"wmode={case['wmode']}"]
    if kind == "dense" and len(osh) > 1:
        cls.append("rank_out>1")
    cls += _pcls(case, pstats)
    wtest = wm if kind != "lateral" else wstored
    nt = O >= 2 and _asym(wtest) and nonconst
    if kind == "lateral":
        nt = nt and pstats["diag"]
    if not nt:
        cls.append("trivial:" + ("O<2" if O < 2 else "weight-symmetric" if not _asym(wtest) else
                                 "current-constant" if not nonconst else "lateral-zero-diag-assigned"))
    return {"nt": bool(nt), "cls": cls}


def _helpers_linear(conn, case, kind, B, ish, osh, I, O, wm, wstored, cur_np, out_np, bm, info):
    f64 = case["f64"]
    ex = dict(exact=True, f64=f64, info=info)
    x = _index_coded((B,) + ish)
    for dt_ in (None, torch.int64):
        with impl("like_synaptic/like_input"):
            syn = conn.like_synaptic(_t(x, dt_))
            back = conn.like_input(syn)
        _same(syn, x.reshape(B, I), "helper:like_synaptic", f"like_synaptic({dt_})", **ex)
        _same(back, x, "helper:like_input", f"like_input(like_synaptic(x)) ({dt_})", **ex)
    # like_bias: postsyn-receptive layout without batch and receptive dims -> bias layout
    bcode = _index_coded((O,))
    bsh = (O,) if kind == "direct" else (O, 1)
    with impl("like_bias"):
        lb = conn.like_bias(_t(bcode.reshape(bsh)))
    _same(lb, bcode, "helper:like_bias", "like_bias", **ex)
    # receptive views
    y = _index_coded((B,) + osh, 3.0)
    with impl("postsyn_receptive"):
        post = conn.postsyn_receptive(_t(y))
    psh = (B, O, 1) if kind == "direct" else (B, O, 1, 1)
    _same(post, y.reshape(psh), "receptive:post", "postsyn_receptive(index-coded)", **ex)
    d2 = _index_coded((B, I), 5.0)
    with impl("presyn_receptive"):
        pre2 = conn.presyn_receptive(_t(d2))
    if kind == "direct":
        _same(pre2, d2.reshape(B, I, 1), "receptive:pre", "presyn_receptive (B,N)", **ex)
        with impl("presyn_receptive"):
            pre3 = conn.presyn_receptive(_t(d2.reshape(B, I, 1)))
        _same(pre3, d2.reshape(B, I, 1), "receptive:pre", "presyn_receptive (B,N,1)", **ex)
    else:
        _same(pre2, M.presyn_dense(d2), "receptive:pre", "presyn_receptive (B,M)", **ex)
        d3 = _index_coded((B, I, O), 7.0)
        with impl("presyn_receptive"):
            pre3 = conn.presyn_receptive(_t(d3))
        _same(pre3, M.presyn_dense(d3), "receptive:pre", "presyn_receptive (B,M,N)", **ex)
    wshape = tuple(wm.shape)
    for nm, p in (("pre", pre2), ("pre+", pre3)):
        try:
            bc = np.broadcast_shapes(tuple(p.shape), tuple(post.shape), (1,) + wshape + (1,))
        except ValueError:
            bc = None
        check(bc == (B,) + wshape + (1,), "receptive:broadcast",
              lambda: f"{nm} {tuple(p.shape)} x post {tuple(post.shape)} does not broadcast to (B, *weight.shape, 1)", info)
    # receptive identity: sum over the non-output weight dims of weight * presyn(current) == forward - bias
    with impl("presyn_receptive(current)"):
        pc = _np(conn.presyn_receptive(conn.synapse.current))
    if kind == "direct":
        got = wm[None, :] * pc[:, :, 0]
    else:
        got = np.sum(wstored[None, :, :, None] * pc, axis=(2, 3))
    want = out_np - (0.0 if bm is None else bm[None, :])
    tol = 0.0 if case["data"] == "dyadic" else 1e-9 * (1.0 + np.abs(want).max())
    check(got.shape == want.shape and bool(np.all(np.abs(got - want) <= tol)), "receptive:identity",
          lambda: f"sum(weight * presyn_receptive(current)) != forward without bias: {got.tolist()} vs {want.tolist()}", info)


def run_linear(case):
    with _default_dtype(case["f64"]):
        return _run_linear(case)


# ---------------------------------------------------------------------------- conv legs


def _pair(case, key):
    a, b = case[key]
    if case["scalar_args"] and a == b:
        return a
    return (a, b)


def _run_conv(case):
    from inferno.neural import Conv2D

    B, C, F, f64 = case["batch"], case["C"], case["F"], case["f64"]
    H, W = case["H"], case["W"]
    exact = case["data"] == "dyadic"
    torch.manual_seed(case["seed"])
    g = M.Geometry(C, H, W, case["kernel"], case["stride"], case["padding"], case["dilation"])
    if g.OH < 1 or g.OW < 1:
        raise HarnessError(f"generator produced an empty output: {case}")
    info = {"kernel": case["kernel"], "stride": case["stride"], "padding": case["padding"],
            "dilation": case["dilation"]}
    wshape = (F, C, g.kh, g.kw)
    wm = _data(case, "w", int(np.prod(wshape)), 1).reshape(wshape)
    bm = _data(case, "b", F, 2) if case["bias"] else None
    kw = dict(stride=_pair(case, "stride"), padding=_pair(case, "padding"), dilation=_pair(case, "dilation"),
              synapse=_synapse(case), bias=case["bias"], delay=_delay_arg(case), batch_size=B)
    if case["wmode"] == "init":
        kw["weight_init"] = lambda w: _t(wm, w.dtype)
        if case["bias"]:
            kw["bias_init"] = lambda b: _t(bm, b.dtype)
    with impl("construct conv2d"):
        conn = Conv2D(H, W, C, F, float(case["dt"]), _pair(case, "kernel"), **kw)
        if case["wmode"] == "set":
            conn.weight = _t(wm)
            if case["bias"]:
                conn.bias = _t(bm)
        if case.get("updater"):
            conn.updater = conn.defaultupdater()
        wr, br = conn.weight, conn.bias
    if case["wmode"] == "default":
        wm = _np(wr)
        bm = _np(br) if case["bias"] else None
    _same(wr, wm, "assign:weight", "conv.weight after assignment", exact=True, f64=f64, info=info)
    if case["bias"]:
        _same(br, bm, "assign:bias", "conv.bias after assignment", exact=True, f64=f64, info=info)

    # advertised shapes: the documented floor formula
    with impl("shapes"):
        shp = (tuple(conn.inshape), tuple(conn.outshape), tuple(conn.batched_inshape),
               tuple(conn.batched_outshape), conn.batchsz)
    wantshp = ((C, H, W), (F, g.OH, g.OW), (B, C, H, W), (B, F, g.OH, g.OW), B)
    check(shp == wantshp, "conv:outshape", lambda: f"shapes {shp} != documented {wantshp}", info)

    nonconst = False
    want = cur_np = None
    pstats = {"set": 0, "upd": 0, "diag": False}
    for step in case["steps"]:
        wm, bm = _reparam(conn, case, step, wm, bm, False, info, pstats)
        spk, inj = _inputs(case, step, (B, C, H, W))
        with impl(f"forward step {step['k']}"):
            out = conn(spk, *inj)
            cur = conn.synapse.current
        check(tuple(cur.shape) == (B, g.N, g.L), "current:shape",
              lambda: f"synapse.current shape {tuple(cur.shape)} != (B, C*kH*kW, OH*OW) = {(B, g.N, g.L)}", info)
        cur_np = _np(cur)
        # the synapse's current re-expressed in input layout
        x, seen, consistent, padzero = M.refold(g, cur_np)
        check(consistent and padzero, "conv:current:layout",
              lambda: "synapse.current is not the documented (C*kH*kW, OH*OW) patch layout of any input "
                      f"(taps reading one input position agree: {consistent}; padding taps zero: {padzero})", info)
        want = M.xcorr2d(g, x, wm, bm)
        scale = M.xcorr2d(g, np.abs(x), np.abs(wm), None if bm is None else np.abs(bm))
        # second opinion on the model itself (harness self-check, never a violation)
        second = torch.nn.functional.conv2d(
            torch.tensor(x), torch.tensor(wm), None if bm is None else torch.tensor(bm),
            stride=tuple(case["stride"]), padding=tuple(case["padding"]), dilation=tuple(case["dilation"]))
        if not np.allclose(second.numpy(), want, rtol=1e-10, atol=1e-10):
            raise HarnessError(f"reference cross-correlation disagrees with F.conv2d on {case}")
        _same(out, want, "conv:forward", f"step {step['k']} output", exact=exact, f64=f64, scale=scale, info=info)
        nonconst = nonconst or len(np.unique(x[:, seen])) >= 2

    cov = g.coverage()
    _helpers_conv(conn, case, g, B, F, wm, bm, cov, cur_np, want, info)

    ker, st_, pd, dl = case["kernel"], case["stride"], case["padding"], case["dilation"]
    cls = [f"delay={case['delaymode']}", f"data={case['data']}", "f64" if f64 else "f32",
           "bias" if case["bias"] else "nobias", f"wmode={case['wmode']}"]
    if max(st_) > 1:
        cls.append("stride>1")
    if max(dl) > 1 and (ker[0] > 1 and dl[0] > 1 or ker[1] > 1 and dl[1] > 1):
        cls.append("dilation>1(effective)")
    if max(pd) > 0:
        cls.append("padding>0")
    if max(st_) > 1 or max(pd) > 0 or "dilation>1(effective)" in cls:
        cls.append("geom-nontrivial")
    if ker[0] != ker[1] or st_[0] != st_[1] or pd[0] != pd[1] or dl[0] != dl[1] or H != W:
        cls.append("nonsquare")
    if np.any(cov == 0):
        cls.append("uncovered-inputs")
    if np.any(cov > 1):
        cls.append("overlapping-patches")
    if g.OH * g.OW > 1:
        cls.append("L>1")
    if ker[0] * ker[1] > 1:
        cls.append("kernel>1x1")
    cls += _pcls(case, pstats)
    nt = F * g.OH * g.OW >= 2 and _asym(wm) and nonconst
    if not nt:
        cls.append("trivial:" + ("out<2" if F * g.OH * g.OW < 2 else "weight-symmetric" if not _asym(wm)
                                 else "current-constant"))
    return {"nt": bool(nt), "cls": cls}


def _helpers_conv(conn, case, g, B, F, wm, bm, cov, cur_np, out_np, info):
    f64 = case["f64"]
    ex = dict(exact=True, f64=f64, info=info)
    C, H, W = g.C, g.H, g.W
    x = _index_coded((B, C, H, W))
    covered = np.broadcast_to(cov > 0, (B, C, H, W))
    for dt_ in (None, torch.int64):
        with impl("like_synaptic"):
            syn = conn.like_synaptic(_t(x, dt_))
        _same(syn, M.unfold(g, x), "helper:like_synaptic", f"like_synaptic({dt_})", **ex)
        with impl("like_input"):
            back = conn.like_input(syn)
        check(tuple(back.shape) == (B, C, H, W), "helper:like_input:shape",
              lambda: f"like_input shape {tuple(back.shape)} != {(B, C, H, W)}", info)
        bn = _np(back)
        ok = np.array_equal(bn[covered], x[covered])
        check(ok, "helper:like_input:value",
              lambda: f"like_input(like_synaptic(x)) != x on positions the connection reads ({dt_}): "
                      f"{int(np.sum(bn[covered] != x[covered]))} of {int(covered.sum())} differ", info)
    bits = (x % 3 == 0)
    with impl("like_synaptic(bool)"):
        synb = conn.like_synaptic(torch.tensor(bits))
    check(synb.dtype == torch.bool, "helper:like_synaptic:dtype", lambda: f"bool input gave {synb.dtype}", info)
    _same(synb, M.unfold(g, bits.astype(np.float64)), "helper:like_synaptic", "like_synaptic(bool)", **ex)

    bcode = _index_coded((F,))
    with impl("like_bias"):
        lb = conn.like_bias(_t(bcode.reshape(F, 1, 1, 1)))
    _same(lb, bcode, "helper:like_bias", "like_bias", **ex)

    y = _index_coded((B, F, g.OH, g.OW), 3.0)
    with impl("postsyn_receptive"):
        post = conn.postsyn_receptive(_t(y))
    wantpost = np.zeros((B, F, 1, 1, 1, g.L))
    for oh, ow in g.cols():
        wantpost[:, :, 0, 0, 0, g.col_index(oh, ow)] = y[:, :, oh, ow]
    _same(post, wantpost, "receptive:post", "postsyn_receptive(index-coded)", **ex)

    d3 = _index_coded((B, g.N, g.L), 5.0)
    with impl("presyn_receptive (B,N,L)"):
        pre3 = conn.presyn_receptive(_t(d3))
    _same(pre3, M.presyn_conv(g, d3), "receptive:pre", "presyn_receptive (B,N,L)", **ex)
    d4 = _index_coded((B, g.N, g.L, F), 7.0)
    with impl("presyn_receptive (B,N,L,F)"):
        pre4 = conn.presyn_receptive(_t(d4))
    _same(pre4, M.presyn_conv(g, d4), "receptive:pre", "presyn_receptive (B,N,L,F)", **ex)
    wshape = tuple(wm.shape)
    for nm, p in (("pre", pre3), ("pre+", pre4)):
        try:
            bc = np.broadcast_shapes(tuple(p.shape), tuple(post.shape), (1,) + wshape + (1,))
        except ValueError:
            bc = None
        check(bc == (B,) + wshape + (g.L,), "receptive:broadcast",
              lambda: f"{nm} {tuple(p.shape)} x post {tuple(post.shape)} does not broadcast to (B, *weight.shape, L)", info)
    with impl("presyn_receptive(current)"):
        pc = _np(conn.presyn_receptive(conn.synapse.current))
    got = np.sum(wm[None, :, :, :, :, None] * pc, axis=(2, 3, 4)).reshape(B, F, g.OH, g.OW)
    want = out_np - (0.0 if bm is None else bm[None, :, None, None])
    tol = 0.0 if case["data"] == "dyadic" else 1e-9 * (1.0 + np.abs(want).max())
    check(bool(np.all(np.abs(got - want) <= tol)), "receptive:identity",
          lambda: "sum over (C,kH,kW) of weight * presyn_receptive(current) != forward without bias", info)


def run_conv(case):
    with _default_dtype(case["f64"]):
        return _run_conv(case)


# ---------------------------------------------------------------------------- lateral stateful leg


def _offdiag_equal(a: np.ndarray, b: np.ndarray) -> bool:
    """off-diagonal entries agree to float32 rounding of one addition (inferno's random initial
    weights are not dyadic, so `w + update` rounds)."""
    m = ~np.eye(a.shape[0], dtype=bool)
    return bool(np.all(np.abs(a[m] - b[m]) <= 2e-6 * (1.0 + np.abs(b[m]))))


def _run_lateral(case):
    from inferno.extra import ExactNeuron
    from inferno.learn import STDP
    from inferno.neural import DeltaCurrent, LinearLateral, Serial

    shape = tuple(case["shape"])
    N, B, dt = int(np.prod(shape)), case["batch"], float(case["dt"])
    delayed = case["delay_steps"] is not None
    dmax = None if not delayed else case["delay_steps"] * dt
    torch.manual_seed(case["seed"])
    mat = lambda spec: M.vals(spec, N * N).reshape(N, N)  # noqa: E731

    def dmat(spec):
        """valid delays (whole steps in [0, capacity]); non-zero draws stay non-zero when capacity allows"""
        v = np.abs(M.vals(spec, N * N, scale=1.0))
        steps = case["delay_steps"]
        if steps == 0:
            return np.zeros((N, N))
        return np.where(v == 0, 0.0, (v - 1) % steps + 1).reshape(N, N) * dt

    kw = dict(synapse=DeltaCurrent.partialconstructor(1.0), bias=case["bias"], delay=dmax, batch_size=B)
    wm = dm = None
    if case["winit"] is not None:
        w0 = mat(case["winit"])
        kw["weight_init"] = lambda w: _t(w0)
        wm = M.lateral_assign(w0)
    if delayed and case["dinit"] is not None:
        d0 = dmat(case["dinit"])
        kw["delay_init"] = lambda d: _t(d0)
        dm = M.lateral_assign(d0)
    with impl("construct lateral"):
        conn = LinearLateral(shape if len(shape) > 1 or not case["scalar_shape"] else shape[0], dt, **kw)
        conn.updater = conn.defaultupdater()
        neuron = ExactNeuron(shape, dt, rest_v=-60.0, thresh_v=-45.0, batch_size=B)
        layer = Serial(conn, neuron)
        trainer = STDP(lr_post=case["lr"][0] * 0.25, lr_pre=case["lr"][1] * 0.25, tc_post=20.0, tc_pre=20.0,
                       delayed=False, batch_reduction=torch.sum)
        trainer.register_cell("c", layer.cell)
        layer.train()
        trainer.train()

    stats = dict.fromkeys(["assign_w_diag", "assign_d_diag", "upd_w_diag", "upd_d_diag", "train_diag"], 0)
    if case["winit"] is not None and np.any(np.diag(w0) != 0):
        stats["assign_w_diag"] += 1
    if dm is not None and np.any(np.diag(d0) != 0):
        stats["assign_d_diag"] += 1

    def inv(what, exact_w=True, exact_d=True):
        nonlocal wm, dm
        with impl("read weight/delay after " + what):
            w = conn.weight
            d = conn.delay
        wn = _np(w)
        check(wn.shape == (N, N), "lateral:weight:shape", lambda: f"{what}: weight shape {wn.shape}")
        dg = np.diag(wn)
        check(bool(np.all(dg == 0)), "lateral:diag:weight", lambda: f"after {what}: diag(weight) = {dg.tolist()}",
              {"op": what.split(" ")[1] if " " in what else what})
        if wm is not None and exact_w:
            check(_offdiag_equal(wn, wm), "lateral:offdiag:weight",
                  lambda: f"after {what}: off-diagonal weights {wn.tolist()} != assigned/accumulated {wm.tolist()}")
        wm = wn
        if delayed:
            dn = _np(d)
            dgd = np.diag(dn)
            check(bool(np.all(dgd == 0)), "lateral:diag:delay", lambda: f"after {what}: diag(delay) = {dgd.tolist()}",
                  {"op": what.split(" ")[1] if " " in what else what})
            if dm is not None and exact_d:
                check(_offdiag_equal(dn, dm), "lateral:offdiag:delay",
                      lambda: f"after {what}: off-diagonal delays {dn.tolist()} != assigned/accumulated {dm.tolist()}")
            dm = dn
        else:
            check(d is None, "lateral:delay:none", lambda: f"{what}: delay is not None on an undelayed connection")

    inv("construct")
    pend_w, pend_d = [], []  # accumulated (sign, matrix) contributions known to the model
    trained = False  # a trainer contributed since the last update (its value is C08's subject)
    trained_diag = False  # ... and its pending contribution has a non-zero diagonal
    for k, op in enumerate(case["ops"]):
        name = op[0]
        what = f"op#{k} {name}"
        if name == "w":
            v = mat(op[1])
            with impl(what):
                conn.weight = _t(v)
            wm = M.lateral_assign(v)
            stats["assign_w_diag"] += int(np.any(np.diag(v) != 0))
            inv(what)
        elif name == "w+=":
            v = mat(op[1])
            with impl(what):
                conn.weight += _t(v)
            wm = M.lateral_assign(wm + v)
            stats["assign_w_diag"] += int(np.any(np.diag(v) != 0))
            inv(what)
        elif name == "d":
            if not delayed:
                continue
            v = dmat(op[1])
            with impl(what):
                conn.delay = _t(v)
            dm = M.lateral_assign(v)
            stats["assign_d_diag"] += int(np.any(np.diag(v) != 0))
            inv(what)
        elif name in ("uw", "ud"):
            if name == "ud" and not delayed:
                continue
            mode = op[3] % 3  # 0: (pos, neg)  1: pos only (bare tensor)  2: (None, neg)
            acc = pend_w if name == "uw" else pend_d
            if name == "uw":
                pos = np.abs(mat(op[1]))
                neg = np.abs(mat(op[2])) * 0.5
            else:
                # keep every off-diagonal delay inside [0, capacity] after the update (documented
                # range of a learned delay); the diagonal contribution is free, it must be masked
                off = ~np.eye(N, dtype=bool)
                cur_ = dm + sum((s_ * m_ for s_, m_ in pend_d), np.zeros((N, N)))
                pos, neg = dmat(op[1]), dmat(op[2])
                pos = np.where(off, np.minimum(pos, np.clip(dmax - cur_, 0, None)), pos)
                cur_ = cur_ + (pos if mode != 2 else 0)
                neg = np.where(off, np.minimum(neg, np.clip(cur_, 0, None)), neg)
            with impl(what):
                tgt = "weight" if name == "uw" else "delay"
                if mode == 0:
                    setattr(conn.updater, tgt, (_t(pos), _t(neg)))
                    acc += [(1, pos), (-1, neg)]
                elif mode == 1:
                    setattr(conn.updater, tgt, _t(pos))
                    acc += [(1, pos)]
                else:
                    setattr(conn.updater, tgt, (None, _t(neg)))
                    acc += [(-1, neg)]
            inv(what)  # accumulating alone must not change anything
        elif name == "step":
            n = B * N
            pre = (np.abs(M.vals(op[1], n, scale=1.0)) % 2 == 1).reshape((B,) + shape)
            post = (np.abs(M.vals(op[2], n, scale=1.0)) % 2 == 1).reshape((B,) + shape)
            with impl(what):
                layer(torch.tensor(pre), neuron_kwargs={"override": torch.tensor(post)})
                trainer()
                tp, tn = conn.updater.weight.pos, conn.updater.weight.neg
            trained = True
            for t_ in (tp, tn):
                if t_ is not None and np.any(np.diag(_np(t_)) != 0):
                    stats["train_diag"] += 1
                    trained_diag = True
                    break
            inv(what)
        elif name == "update":
            dw = sum((s * m for s, m in pend_w), np.zeros((N, N)))
            dd = sum((s * m for s, m in pend_d), np.zeros((N, N)))
            with impl(what):
                conn.update()
            if np.any(np.diag(dw) != 0) or trained_diag:
                stats["upd_w_diag"] += 1
            if delayed and np.any(np.diag(dd) != 0):
                stats["upd_d_diag"] += 1
            exact_w = not trained
            wm = M.lateral_assign(wm + dw)
            if delayed:
                dm = M.lateral_assign(dm + dd)
            pend_w, pend_d, trained, trained_diag = [], [], False, False
            inv(what, exact_w=exact_w)
        else:
            raise ValueError(name)

    cls = [f"N={N if N < 5 else '5+'}", "delayed" if delayed else "undelayed"]
    for k_ in ("assign_w_diag", "assign_d_diag", "upd_w_diag", "upd_d_diag", "train_diag"):
        if stats[k_]:
            cls.append(k_)
    nt = (N >= 2 and stats["assign_w_diag"] >= 1 and stats["upd_w_diag"] >= 1
          and (not case["delay_steps"] or (stats["assign_d_diag"] + stats["upd_d_diag"]) >= 1))
    if not nt:
        cls.append("trivial:" + ("N<2" if N < 2 else "no-diag-weight-assignment" if not stats["assign_w_diag"]
                                 else "no-diag-weight-update" if not stats["upd_w_diag"] else "no-diag-delay-op"))
    return {"nt": bool(nt), "cls": cls}


def run_lateral(case):
    with _default_dtype(False):
        return _run_lateral(case)


# ---------------------------------------------------------------------------- generators

_pool = st.lists(st.integers(-8, 8), min_size=1, max_size=6)
_seed = st.one_of(st.just(0), st.just(0), st.integers(1, 2**31 - 1), st.integers(1, 2**31 - 1))


@st.composite
def _spec(draw):
    return {"pool": draw(_pool), "seed": draw(_seed)}


@st.composite
def _rich(draw):
    """mostly seeded (non-constant, non-periodic) values; shrinks to a constant pool."""
    seed = draw(st.one_of(st.just(0), *[st.integers(1, 2**31 - 1)] * 5))
    return {"pool": draw(_pool), "seed": seed}


_nzpool = st.lists(st.sampled_from([3, -1, 2, 1, -4, 5]), min_size=1, max_size=4)


@st.composite
def _common(draw, tier):
    data = draw(st.sampled_from(["dyadic", "dyadic", "dyadic", "real"]))
    wmode = draw(st.sampled_from(["set", "set", "init", "init", "default"]))
    if wmode == "default":
        data = "real"
    nsteps = draw(st.sampled_from([1, 2, 3, 3, 4, 5]))
    preop = st.one_of(
        st.tuples(st.just("w"), _rich()), st.tuples(st.just("w"), _rich()),
        st.tuples(st.just("b"), _spec()),
        st.tuples(st.just("uw"), _rich(), _spec(), st.integers(0, 2)),
        st.tuples(st.just("ub"), _spec(), _spec(), st.integers(0, 2)),
    ).map(list)
    return {
        "batch": draw(st.sampled_from([1, 1, 2, 3])),
        "bias": draw(st.booleans()),
        "dt": draw(st.sampled_from([1.0, 0.5, 2.0])) if data == "dyadic" else draw(st.sampled_from([1.3, 0.7, 1.0])),
        "charge": draw(st.sampled_from([1.0, 0.5, -2.0, 4.0])) if data == "dyadic" else draw(st.sampled_from([0.7, 1.0, -1.9])),
        "f64": draw(st.integers(0, 4)) == 0,
        "data": data,
        "wmode": wmode,
        "delaymode": draw(st.sampled_from(["none", "none", "zero", "cap"])),
        "spkdtype": draw(st.sampled_from(["bool", "float"])),
        "ninj": draw(st.sampled_from([1, 1, 1, 2, 0])),
        "seed": draw(st.integers(0, 2**20)),
        "w": draw(_rich()),
        "b": draw(_spec()),
        "updater": draw(st.booleans()),
        "steps": [{"k": k, "spk": draw(_rich()), "inj": draw(_rich()),
                   "pre": [] if k == 0 else draw(st.lists(preop, min_size=0, max_size=2))}
                  for k in range(nsteps)],
    }


_dims_small = st.sampled_from([2, 3, 1, 2, 3, 4, 5])


@st.composite
def _shape(draw, maxnumel):
    rank = draw(st.sampled_from([1, 1, 2, 2, 3]))
    shp = [draw(_dims_small) for _ in range(rank)]
    while int(np.prod(shp)) > maxnumel:  # shrink the largest dimension (construction, not rejection)
        j = int(np.argmax(shp))
        shp[j] -= 1
    if int(np.prod(shp)) == 1 and draw(st.integers(0, 9)) > 0:
        shp[-1] = 2  # single-element layers are legal but say little: keep them rare
    return shp


@st.composite
def linear_case(draw, tier="quick"):
    kind = draw(st.sampled_from(["dense", "dense", "direct", "lateral"]))
    cap = 30 if tier == "quick" else 60
    c = draw(_common(tier))
    c["kind"] = kind
    c["in_shape"] = draw(_shape(cap if kind != "lateral" else 16))
    if kind == "dense":
        # square layers (transposition is only expressible there) in a third of the cases
        c["out_shape"] = list(c["in_shape"]) if draw(st.integers(0, 2)) == 0 else draw(_shape(cap))
        if draw(st.integers(0, 3)) == 0 and int(np.prod(c["out_shape"])) > 1:
            # same number of elements, different factorisation
            n = int(np.prod(c["in_shape"]))
            c["out_shape"] = [n]
    c["scalar_shape"] = draw(st.booleans())
    return c


@st.composite
def conv_case(draw, tier="quick"):
    c = draw(_common(tier))
    small = st.sampled_from([1, 2, 2, 3]) if tier == "quick" else st.sampled_from([1, 2, 2, 3, 4])
    geom = {}
    for ax in (0, 1):
        out = draw(st.sampled_from([1, 2, 2, 3, 3, 4]))
        k = draw(st.sampled_from([1, 2, 2, 3, 3]))
        s = draw(st.sampled_from([1, 1, 2, 2, 3]))
        d = draw(st.sampled_from([1, 1, 2, 3]))
        slack = draw(st.integers(0, 2)) % s
        pmax = ((out - 1) * s + d * (k - 1) + slack) // 2  # keeps the input size >= 1
        p = draw(st.sampled_from([0, 0, 1, 1, 2])) % (min(2, pmax) + 1)
        size = M.in_size_for(out, k, s, p, d, slack)
        geom[ax] = (size, k, s, p, d)
    if draw(st.integers(0, 3)) == 0:  # square stratum (all pairs equal): scalar-argument path
        geom[1] = geom[0]
    c.update({
        "C": draw(small), "F": draw(small),
        "H": geom[0][0], "W": geom[1][0],
        "kernel": [geom[0][1], geom[1][1]], "stride": [geom[0][2], geom[1][2]],
        "padding": [geom[0][3], geom[1][3]], "dilation": [geom[0][4], geom[1][4]],
        "scalar_args": draw(st.booleans()),
    })
    return c


def _axis_configs(tier):
    smax, kmax, sdmax, pmax = (5, 3, 2, 1) if tier == "quick" else (6, 3, 3, 2)
    out = []
    for size in range(1, smax + 1):
        for k in range(1, kmax + 1):
            for s in range(1, sdmax + 1):
                for d in range(1, sdmax + 1):
                    if k == 1 and d > 1:
                        continue  # dilation is vacuous for a 1-wide kernel
                    for p in range(0, pmax + 1):
                        if M.out_size(size, k, s, p, d) >= 1 and size + 2 * p >= d * (k - 1) + 1:
                            out.append((size, k, s, p, d))
    return out


def _grid_cases(tier):
    cfg = _axis_configs(tier)
    n = len(cfg)
    idx = 0
    for i in range(n):
        for j in range(n):
            a, b = cfg[i], cfg[j]
            idx += 1
            yield {
                "batch": 1 + idx % 2, "bias": idx % 3 == 0, "dt": 1.0, "charge": 1.0, "f64": False,
                "data": "dyadic", "wmode": "set", "delaymode": "none" if idx % 5 else "cap",
                "spkdtype": "bool", "ninj": 1, "seed": idx,
                "w": {"pool": [1, -2, 3, 5, -7], "seed": 1000 + idx}, "b": {"pool": [2, -3], "seed": 0},
                "updater": idx % 8 == 0,
                "steps": [{"k": 0, "spk": {"pool": [1, 0, 0, 1, 1], "seed": 77 + idx},
                           "inj": {"pool": [0], "seed": 500 + idx}}] + ([] if idx % 4 else [
                    {"k": 1, "spk": {"pool": [0, 1, 1], "seed": 78 + idx}, "inj": {"pool": [0], "seed": 501 + idx},
                     "pre": [["uw", {"pool": [1, 2], "seed": 3000 + idx}, {"pool": [3], "seed": 3001 + idx}, 0]
                             if idx % 8 == 0 else ["w", {"pool": [2, -1, 4], "seed": 2000 + idx}]]}]),
                "C": 1 + (idx // 2) % 2, "F": 1 + (idx // 4) % 2,
                "H": a[0], "W": b[0], "kernel": [a[1], b[1]], "stride": [a[2], b[2]],
                "padding": [a[3], b[3]], "dilation": [a[4], b[4]], "scalar_args": idx % 2 == 0,
            }


def _lat_op():
    raw = st.integers(0, 5)
    return st.one_of(
        st.tuples(st.just("w"), _spec()),
        st.tuples(st.just("w+="), _spec()),
        st.tuples(st.just("d"), _spec()),
        st.tuples(st.just("uw"), _spec(), _spec(), raw),
        st.tuples(st.just("ud"), _spec(), _spec(), raw),
        st.tuples(st.just("step"), _spec(), _spec()),
        st.tuples(st.just("step"), _spec(), _spec()),
        st.tuples(st.just("update")),
        st.tuples(st.just("update")),
    ).map(list)


@st.composite
def lateral_case(draw, tier="quick"):
    shape = draw(st.sampled_from([[2], [3], [1], [3], [4], [5], [2, 2], [2, 3], [1, 2, 2]]))
    maxops = 14 if tier == "quick" else 40
    ops = draw(st.lists(_lat_op(), min_size=2, max_size=maxops))
    if draw(st.integers(0, 9)) < 8:
        # construction, not rejection: make sure the interesting paths are reached (values with a
        # non-zero diagonal assigned, accumulated and applied), before or after the free part
        nz = lambda: {"pool": draw(_nzpool), "seed": draw(_seed)}  # noqa: E731
        fixed = [["w", nz()], ["d", nz()], ["uw", nz(), nz(), draw(st.integers(0, 2))],
                 ["ud", nz(), nz(), draw(st.integers(0, 2))], ["update"]]
        ops = fixed + ops if draw(st.booleans()) else ops + fixed
    return {
        "shape": shape, "scalar_shape": draw(st.booleans()),
        "batch": draw(st.sampled_from([1, 2, 3])), "dt": draw(st.sampled_from([1.0, 0.5])),
        "bias": draw(st.booleans()),
        "delay_steps": draw(st.sampled_from([None, 0, 2, 3])),
        "winit": draw(st.one_of(st.none(), _spec())), "dinit": draw(st.one_of(st.none(), _spec())),
        "lr": [draw(st.sampled_from([2, -1, 1, -2])), draw(st.sampled_from([-1, 2, 1, -2]))],
        "seed": draw(st.integers(0, 2**20)), "ops": ops,
    }


# ---------------------------------------------------------------------------- registration

_FWD_RULE = ("forward of 1-2 steps through a DeltaPlusCurrent synapse (spikes + injected currents); non-trivial: "
             ">= 2 output elements per sample, weight not constant and not equal to its transpose / 180-degree "
             "flip where that has the same shape, synaptic current with >= 2 distinct values")

LEGS = [
    Leg(name="linear", run=run_linear, strategy=lambda tier: linear_case(tier),
        quick=700, thorough=3500, quick_shards=4, thorough_shards=12, nt_floor=0.5,
        rule="dense/direct/lateral with input/output shapes of rank 1-3; " + _FWD_RULE
             + "; lateral additionally needs a non-zero diagonal in the assigned weight"),
    Leg(name="conv", run=run_conv, strategy=lambda tier: conv_case(tier),
        quick=500, thorough=3000, quick_shards=6, thorough_shards=16, nt_floor=0.5,
        rule="conv2d geometry built from the output size backwards (kernel/stride/dilation 1-3, padding 0-2, "
             "unread trailing rows, non-square pairs); " + _FWD_RULE),
    Leg(name="convgrid", run=run_conv, enumerate=_grid_cases,
        quick_shards=4, thorough_shards=16, nt_floor=0.5,
        rule="every (H,kH,sH,pH,dH) x (W,kW,sW,pW,dW) with a non-empty output: quick sizes <= 5, kernel <= 3, "
             "stride/dilation <= 2, padding <= 1 (78 x 78 geometries); thorough sizes <= 6, kernel <= 3, "
             "stride/dilation <= 3, padding <= 2; fixed seeded dyadic data per geometry; " + _FWD_RULE,
        exhaustive_note="finite small-geometry grid enumerated completely (full product of the two axes)"),
    Leg(name="lateral", run=run_lateral, strategy=lambda tier: lateral_case(tier),
        quick=500, thorough=2500, quick_shards=2, thorough_shards=8, nt_floor=0.4,
        rule="sequence of weight= / weight+= / delay= assignments, updater contributions, update(), STDP "
             "trainer steps on a LinearLateral; non-trivial: >= 1 assignment and >= 1 applied update whose "
             "value has a non-zero diagonal (and for delayed connections >= 1 such delay assignment/update)"),
]

ASSUMPTIONS = [
    "CPU only; float32 as shipped and float64 default dtype in ~20% of forward cases",
    "dyadic data (multiples of 1/4, sums exact in float32) compared exactly; non-dyadic data with "
    "|err| <= 2e-5 * sum|terms| + 1e-6 (float32) / 1e-12 relative (float64)",
    "'no delays' = delay None, delay 0.0, or a delay capacity of two steps with all learned delays zero",
    "weights/delays of a lateral connection are changed only through the documented setters, the updater "
    "and trainers (in-place mutation of the returned Parameter is not an assignment)",
    "torch.nn.functional.conv2d and NumPy are trusted (model self-check)",
]

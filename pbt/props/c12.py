"""C12 — checkpoint at any step, restore into a fresh model, and the future is identical.

For a generated model (layer + trainers + stand-alone reducer / monitor + classifier) and a run of
T steps, EVERY checkpoint index k in [1, T-1] is exercised: the state dictionaries are serialised
with torch.save into a BytesIO after step k, an independently built instance of the same
configuration (different initial weights, already run j >= 1 steps on other data so lazily shaped
recorders exist and ring pointers differ) loads them with strict=True, and both continue on the
same inputs.  Every later output and the complete module state (parameters, buffers incl. ring
storages, extras incl. ring pointers / reducer counters) must be torch.equal.
"""

from __future__ import annotations

import io

import numpy as np
import torch
from hypothesis import strategies as st

from .. import builders as B
from ..harness import Leg, check, impl
from . import c11 as C11
from . import c17 as L


class Model:
    def __init__(self, case, variant):
        from inferno import learn, observe

        self.case = case
        lc = dict(case["layer"])
        lc["conns"] = {k: dict(v) for k, v in lc["conns"].items()}
        if variant:  # the target instance starts from different parameter values
            for c in lc["conns"].values():
                c["wseed"] = c.get("wseed", 0) + 1000 * variant
                c["dseed"] = c.get("dseed", 0) + 1000 * variant
        self.lc = lc
        self.layer, self.comps = L.build(lc, True)
        self.layer.train(case.get("mode", "train") == "train")
        self.mods = {"layer": self.layer}
        self.trainers = []
        cellname = {"serial": ("c0", "n0"), "recurrent": ("ff", "nff")}.get(lc["kind"])
        if cellname is None:
            cellname = (sorted(lc["conns"])[0], sorted(lc["neurs"])[0])
        for i, tc in enumerate(case["trainers"]):
            conn = self.comps["conn"][cellname[0]]
            if not conn.updatable:
                conn.updater = conn.defaultupdater()
            tr = C11._trainer(tc)
            if lc["kind"] == "serial":
                cell = self.layer.cell
            elif lc["kind"] == "recurrent":
                cell = self.layer.feedfwd_cell
            else:
                cell = self.layer.get_cell(*cellname)
            tr.register_cell("cell", cell)
            self.trainers.append((tr, tc))
            self.mods[f"trainer{i}"] = tr
        self.main = {"serial": "n0", "recurrent": "nff"}.get(lc["kind"], sorted(lc["neurs"])[0])
        dt = lc["dt"]
        self.reducer = None
        if case["reducer"]:
            rc = case["reducer"]
            if rc["cls"] == "CA":
                self.reducer = observe.CAReducer(dt, duration=rc["dur"] * dt, inplace=rc["inplace"])
            elif rc["cls"] == "EMA":
                self.reducer = observe.EMAReducer(dt, 0.25, duration=rc["dur"] * dt, inplace=rc["inplace"])
            elif rc["cls"] == "trace":
                self.reducer = observe.CumulativeTraceReducer(dt, 10.0, 1.0, True, duration=rc["dur"] * dt, inplace=rc["inplace"])
            else:
                self.reducer = observe.EventReducer(dt, lambda x: x > 0, "inf", duration=rc["dur"] * dt, inplace=rc["inplace"])
            self.mods["reducer"] = self.reducer
        self.monitor = None
        if case["monitor"]:
            red = observe.PassthroughReducer(dt, duration=case["monitor"]["dur"] * dt)
            self.monitor = observe.OutputMonitor(red, self.comps["neur"][self.main])
            self.mods["monitor"] = self.monitor
        self.clf = None
        if case["classifier"]:
            self.clf = learn.MaxRateClassifier(tuple(lc["neurs"][self.main]["shape"]), case["classifier"]["classes"],
                                               decay=case["classifier"]["decay"])
            if variant and case.get("clf_deepcopy"):
                # the target classifier is "another instance of the same configuration" obtained by copy.deepcopy
                # of a classifier that has already seen other data (the prototype stays alive)
                import copy

                rng = np.random.Generator(np.random.PCG64(case["sseed"] + 4242))
                shp = tuple(lc["neurs"][self.main]["shape"])
                self._proto = self.clf
                for _ in range(2):
                    self._proto(torch.tensor(rng.random(size=(lc["batch"],) + shp), dtype=torch.float32),
                                torch.tensor(rng.integers(0, case["classifier"]["classes"], size=(lc["batch"],)), dtype=torch.int64))
                self.clf = copy.deepcopy(self._proto)
            self.mods["classifier"] = self.clf

    def step(self, xs, t, labels, reward):
        if self.lc["kind"] == "serial" and self.lc["conns"]["c0"]["syn"]["cls"] == "DeltaPlusCurrent" and "inj:c0" in xs:
            # the documented second input of a delta-plus synapse: injected current
            outs = {"n0": self.layer(xs["c0"][t].float(), xs["inj:c0"][t])}
        else:
            outs, _ = C11._layer_step(self.lc, self.layer, {k: v[t] for k, v in xs.items() if not k.startswith("inj:")})
        obs = {f"out:{k}": v.detach().clone() for k, v in outs.items()}
        if self.layer.training:  # training loop as a user writes it: no trainer calls / updates while evaluating
            for tr, tc in self.trainers:
                if tc["cls"] in ("MSTDP", "MSTDPET"):
                    tr(reward[t])
                else:
                    tr()
            if self.trainers:
                self.layer.update()
        main = outs[self.main]
        if self.reducer is not None:
            self.reducer(main if "Event" in type(self.reducer).__name__ or "Trace" in type(self.reducer).__name__ else main.float())
        if self.clf is not None:
            pred = self.clf(main.float(), labels[t])
            obs["clf:pred"] = pred.detach().clone()
        return obs

    def state(self):
        st_ = {}
        for name, m in self.mods.items():
            for k, v in B.module_state(m).items():
                st_[f"{name}/{k}"] = v
        if self.clf is not None:
            st_["clf/assignments"] = self.clf.assignments.detach().clone()
            st_["clf/occurrences"] = self.clf.occurrences.detach().clone()
            st_["clf/proportions"] = self.clf.proportions.detach().clone()
        if self.reducer is not None:
            p = self.reducer.peek()
            if p is not None:
                st_["reducer/peek"] = p.detach().clone()
        if self.monitor is not None:
            p = self.monitor.peek()
            if p is not None:
                st_["monitor/peek"] = p.detach().clone()
        return st_

    def _container(self):
        # model, trainers, reducers and classifier checkpointed together as submodules of one parent
        return torch.nn.ModuleDict(dict(self.mods))

    def save(self):
        buf = io.BytesIO()
        if self.case["container"]:
            torch.save(self._container().state_dict(), buf)
        else:
            torch.save({name: m.state_dict() for name, m in self.mods.items()}, buf)
        return buf.getvalue()

    def load(self, blob):
        sd = blob if isinstance(blob, dict) else torch.load(io.BytesIO(blob), weights_only=False)
        if self.case["container"]:
            self._container().load_state_dict(sd, strict=True)
        else:
            for name, m in self.mods.items():
                m.load_state_dict(sd[name], strict=True)

    def clear_aux(self, keepshape):
        """clear() of the stand-alone reducer / monitor (a documented operation at any time)."""
        if self.reducer is not None:
            self.reducer.clear(keepshape=keepshape)
        if self.monitor is not None:
            self.monitor.clear(keepshape=keepshape)

    def clear_layer(self):
        self.layer.clear()


def _data(case, seed):
    lc = case["layer"]
    T, Bsz = case["steps"], lc["batch"]
    xs = {}
    for name, c in lc["conns"].items():
        if lc["kind"] == "recurrent" and name != "ff":
            continue
        inshape, _ = B.conn_shapes(c)
        xs[name] = torch.tensor(B.spikes_from(seed + L.hash_name(name), T, (Bsz,) + inshape, case["rate"]))
        if c["syn"]["cls"] == "DeltaPlusCurrent":
            xs["inj:" + name] = torch.tensor(B.dyadic(seed + 77 + L.hash_name(name), (T, Bsz) + inshape, -8, 40, 4), dtype=torch.float32)
    rng = np.random.Generator(np.random.PCG64(seed + 5))
    ncls = case["classifier"]["classes"] if case["classifier"] else 2
    labels = torch.tensor(rng.integers(0, ncls, size=(T, Bsz)), dtype=torch.int64)
    reward = torch.tensor(rng.integers(-4, 5, size=(T,)) / 4.0, dtype=torch.float32)
    return xs, labels, reward


def run_case(case):
    T = case["steps"]
    xs, labels, reward = _data(case, case["sseed"])
    oxs, olabels, oreward = _data(case, case["sseed"] + 7777)
    # uninterrupted run A, with a checkpoint after every step
    with impl("build A"):
        A = Model(case, 0)
    blobs, obsA, stA = {}, [], []
    spikes = 0
    def mode_after(t):
        """training flag in force when step t starts (switches at t are applied before step t)."""
        m = case.get("mode", "train")
        for st_, md in sorted(case.get("switches", []), key=lambda x: x[0]):  # one switch per step (generator)
            if st_ <= t:
                m = md
        return m

    def clears(model, t, who):
        for st_, md in case.get("switches", []):
            if st_ == t:
                model.layer.train(md == "train")
        for ct, what in case["clears"]:
            if ct == t:
                with impl(f"{who}: {what} before step {t}"):
                    if what == "layer":
                        model.clear_layer()
                    else:
                        model.clear_aux(what == "aux_keepshape")

    for t in range(T):
        clears(A, t, "A")
        with impl(f"A step {t}"):
            o = A.step(xs, t, labels, reward)
        obsA.append(o)
        with impl(f"A state/save after step {t}"):
            stA.append(A.state())
            if 1 <= t + 1 <= T - 1:
                blobs[t + 1] = A.save()
        spikes += sum(int(v.sum()) for k, v in o.items() if k.startswith("out"))
    ptr_nonzero = any(k.endswith("_pointer") and isinstance(v, int) and v != 0 for k, v in stA[0].items()) or \
        any(k.endswith("_pointer") and isinstance(v, int) and v != 0 for s in stA for k, v in s.items())
    wchange = any(not torch.equal(stA[0][k], stA[-1][k]) for k in stA[0] if k.startswith("layer/P:") and "weight" in k)
    differed = 0
    for k in range(1, T):
        with impl(f"build target for checkpoint {k}"):
            targets = [Model(case, 1)] + ([Model(case, 2)] if case.get("twins") else [])
            for Bm in targets:
                if case.get("prerun_mode"):
                    Bm.layer.train(case["prerun_mode"] == "train")
                for j in range(case["prerun"]):
                    Bm.step(oxs, j % T, olabels, oreward)
                if case.get("prerun_tail_eval"):  # the target's last step on other data was an evaluation step
                    Bm.layer.train(False)
                    Bm.step(oxs, case["prerun"] % T, olabels, oreward)
                Bm.layer.train(mode_after(k - 1) == "train")  # the mode the source is in at the checkpoint
                if case["target_clear"] is not None:
                    Bm.clear_aux(case["target_clear"])
            Bm = targets[0]
        ok0, _ = B.states_equal(stA[k - 1], Bm.state())
        differed += 0 if ok0 else 1
        with impl(f"load_state_dict(strict=True) of checkpoint taken after step {k} into an instance pre-run {case['prerun']} steps"):
            if case.get("target_trainer_eval_at_load"):
                for tg in targets:  # the target's trainers are evaluating when the state arrives, and resume training afterwards
                    for tr, _ in tg.trainers:
                        tr.eval()
            if len(targets) > 1:
                # ONE deserialised checkpoint loaded into two live instances; both are then stepped
                sd = torch.load(io.BytesIO(blobs[k]), weights_only=False)
                for tg in targets:
                    tg.load(sd)
            else:
                Bm.load(blobs[k])
        if case.get("target_trainer_eval_at_load"):
            with impl("trainer.train() after loading"):
                for tg in targets:
                    for tr, _ in tg.trainers:
                        tr.train()
        ok, why = B.states_equal(stA[k - 1], Bm.state())
        check(ok, "restore:state", lambda: f"checkpoint after step {k}: state right after loading differs from the source: {why}")
        for t in range(k, T):
            for other in targets[1:]:  # the second instance restored from the same object advances first
                clears(other, t, f"second resumed instance (checkpoint {k})")
                with impl(f"second resumed instance step {t} (checkpoint {k})"):
                    o2 = other.step(xs, t, labels, reward)
                for name in obsA[t]:
                    check(name in o2 and o2[name].shape == obsA[t][name].shape and torch.equal(o2[name], obsA[t][name]), "resume:output",
                          lambda: f"checkpoint after step {k}, second instance restored from the same loaded object, step {t}: '{name}' differs")
            clears(Bm, t, f"resumed (checkpoint {k})")
            with impl(f"resumed step {t} (checkpoint {k})"):
                o = Bm.step(xs, t, labels, reward)
            for name in obsA[t]:
                check(name in o and o[name].shape == obsA[t][name].shape and torch.equal(o[name], obsA[t][name]), "resume:output",
                      lambda: f"checkpoint after step {k}, resumed step {t}: '{name}' differs from the uninterrupted run")
            ok, why = B.states_equal(stA[t], Bm.state())
            check(ok, "resume:state", lambda: f"checkpoint after step {k}, resumed step {t}: state differs from the uninterrupted run: {why}")
    nt = spikes >= 1 and ptr_nonzero and differed >= 1 and (wchange or not case["trainers"])
    cls = [case["layer"]["kind"], f"trainers={len(case['trainers'])}"] + [t["cls"] for t in case["trainers"]]
    for k in ("reducer", "monitor", "classifier"):
        if case[k]:
            cls.append(k)
    if any(c.get("delay") for c in case["layer"]["conns"].values()):
        cls.append("delays")
    if case["container"]:
        cls.append("container")
    if case.get("twins"):
        cls.append("twins")
    cls.append(f"mode={case.get('mode')}/prerun={case.get('prerun_mode')}")
    if case.get("switches"):
        cls.append("mode-switch")
    if case.get("prerun_tail_eval"):
        cls.append("prerun-tail-eval")
    for _, what in case["clears"]:
        cls.append("clear:" + what)
    if case["target_clear"] is not None:
        cls.append(f"target_clear:{case['target_clear']}")
    return {"nt": bool(nt), "cls": cls}


@st.composite
def case_strategy(draw, tier="quick"):
    lc = draw(L.layer_case(tier, False))
    T = draw(st.integers(4, 9 if tier == "quick" else 16))
    lc["steps"] = T
    lc["train"] = True
    lc["capture"] = False
    for c in lc["conns"].values():
        c["syn"]["q"] = 150.0
    for n in lc["neurs"].values():  # adaptive neurons (learned adaptations are part of the checkpoint) more often
        if draw(st.booleans()):
            n["cls"] = draw(st.sampled_from(["ALIF", "GLIF2", "Izhikevich", "AdEx"]))
    ntr = draw(st.sampled_from([0, 1, 1, 2]))
    names = ["STDP", "TripletSTDP", "MSTDP", "MSTDPET", "LinearHomeostasis"]
    cellconn = {"serial": "c0", "recurrent": "ff"}.get(lc["kind"], sorted(lc["conns"])[0])
    if lc["conns"][cellconn].get("delay"):
        names.append("DelayAdjustedSTDP")
    trainers = []
    for i in range(ntr):
        cls = draw(st.sampled_from(names))
        if i == 1 and cls == trainers[0]["cls"]:
            cls = "LinearHomeostasis" if cls != "LinearHomeostasis" else "STDP"
        delayed = bool(lc["conns"][cellconn].get("delay")) and cls in ("STDP", "TripletSTDP", "MSTDP") and draw(st.booleans())
        trainers.append({"cls": cls, "a": draw(st.sampled_from([0.05, -0.05, 0.1])), "b": draw(st.sampled_from([-0.025, 0.05])),
                         "mode": draw(st.sampled_from(["cumulative", "nearest"])), "delayed": delayed})
    # trainer monitors only record in training mode; with trainers present both runs stay in training mode so that
    # the documented precondition (lazily shaped recorders have seen a step, shapes match) holds on both sides
    # two trainers writing colliding monitor names on one cell is C15's known finding: keep MSTDPET alone
    if len(trainers) == 2 and any(t["cls"] == "MSTDPET" for t in trainers):
        trainers = trainers[:1]
    return {
        "layer": lc, "steps": T, "sseed": draw(st.integers(0, 99999)), "rate": draw(st.sampled_from([0.4, 0.7])),
        "prerun": draw(st.sampled_from([1, 1, 2, 5])), "trainers": trainers,
        "container": draw(st.booleans()),
        "twins": draw(st.integers(0, 3)) == 0,
        "clf_deepcopy": draw(st.booleans()),
        "target_trainer_eval_at_load": draw(st.booleans()),
        "prerun_tail_eval": draw(st.booleans()),
        "switches": draw(st.lists(st.tuples(st.integers(2, T - 1), st.sampled_from(["eval", "eval", "train"])).map(list), max_size=2,
                                  unique_by=lambda x: x[0])),
        "mode": draw(st.sampled_from(["train", "train", "eval"])) if not trainers else "train",
        "prerun_mode": draw(st.sampled_from([None, "train", "eval"])) if not trainers else None,
        "clears": draw(st.lists(st.tuples(st.integers(1, T - 1), st.sampled_from(["aux_keepshape", "aux_keepshape", "aux", "layer"])).map(list),
                                max_size=2)),
        "target_clear": draw(st.sampled_from([None, None, True])),  # keepshape=False would break the documented shape precondition
        "reducer": draw(st.sampled_from([None, {"cls": "CA", "dur": 0, "inplace": False}, {"cls": "CA", "dur": 3, "inplace": True},
                                         {"cls": "EMA", "dur": 2, "inplace": False}, {"cls": "trace", "dur": 3, "inplace": False},
                                         {"cls": "event", "dur": 2, "inplace": True}])),
        "monitor": draw(st.sampled_from([None, {"dur": 0}, {"dur": 3}])),
        "classifier": draw(st.sampled_from([None, {"classes": 3, "decay": 0.0}, {"classes": 2, "decay": 0.1}])),
    }


LEGS = [
    Leg(name="resume", run=run_case, strategy=lambda tier: case_strategy(tier),
        quick=30, thorough=200, quick_shards=12, thorough_shards=16, nt_floor=0.2,
        rule="layer (Serial/Biclique/RecurrentSerial over generated neurons x synapses x connections, delays, in-place) + 0-2 trainers "
             "+ optional stand-alone reducer, OutputMonitor and MaxRateClassifier; run length 4-9 (thorough 4-16); EVERY checkpoint "
             "k in [1,T-1] is saved with torch.save, loaded (strict) into an independently built, pre-run instance and resumed; "
             "non-trivial = >= 1 spike, a ring pointer != 0, target state differed before loading, weights changed when trainers exist"),
]

ASSUMPTIONS = [
    "checkpoints are taken between complete steps (after update() cleared the accumulators); batch size, dt, durations equal "
    "in source and target as docs/guide/pragmatics.md requires; CPU, single thread",
    "MSTDPET is not combined with a second trainer on the same cell (C15 known finding: shared monitor namespace)",
]

import argparse
import json
import os
import sys
import traceback


def main() -> int:
    ap = argparse.ArgumentParser()
    ap.add_argument("prop")
    ap.add_argument("tier", nargs="?", default=os.environ.get("VERIF_TIER", "quick"))
    ap.add_argument("--replay")
    ap.add_argument("--legs", default="")
    a = ap.parse_args()
    prop = a.prop.upper()
    seed = int(os.environ.get("VERIF_SEED", "1") or 1)
    try:
        import torch

        torch.set_num_threads(1)
        from . import harness

        if a.replay:
            leg, v = harness.replay_file(prop, a.replay)
            if v is None:
                print(f"replay {a.replay}: passes (leg {leg})")
                return 0
            with open(a.replay) as fh:
                case = json.load(fh)["case"]
            for f in harness.load_known()["findings"]:
                if harness.finding_matches(f, prop, leg, v, case):
                    print(f"KNOWN-FINDING: property={prop} {f['what']}")
                    return 0
            print(f"VIOLATION property={prop} replay={a.replay}")
            print(f"  leg={leg} {v.kind}: {v.detail[:1500]}")
            return 1
        if a.tier not in ("quick", "thorough"):
            print("tier must be quick|thorough", file=sys.stderr)
            return 2
        legs = [s for s in a.legs.split(",") if s]
        return harness.run_property(prop, a.tier, seed, legs or None)
    except Exception:  # harness errors never look like violations
        traceback.print_exc()
        return 2


if __name__ == "__main__":
    sys.exit(main())

"""Loads property modules pbt.props.cNN and asserts the code under test is /repo's tree."""
import importlib
import os


def assert_repo():
    import inferno

    want = os.path.realpath(os.environ.get("VERIF_REPO", "/repo"))
    got = os.path.realpath(os.path.dirname(os.path.dirname(inferno.__file__)))
    if got != want:
        raise RuntimeError(f"inferno imported from {got}, expected {want}")


def load(prop: str):
    assert_repo()
    return importlib.import_module(f"pbt.props.{prop.lower()}")

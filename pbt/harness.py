"""Shared machinery: legs, seeds, tiers, sharding, failure capture + shrinking, replay
files, known-findings matching, evidence writer, exit codes.

A *leg* is (strategy producing a JSON-serialisable case, run(case) -> outcome).  ``run``
builds the inferno objects, drives them, evaluates the oracle and raises ``Violation``.
Everything random goes through Hypothesis, seeded from VERIF_SEED.

Exit codes: 0 property held on everything explored; 1 violation (a line
``VIOLATION property=<id> replay=<path>`` is printed); 2 harness error / vacuity.
"""

from __future__ import annotations

import contextlib
import hashlib
import json
import os
import re
import sys
import time
import traceback
from dataclasses import dataclass, field
from typing import Any, Callable, Iterable

ROOT = os.path.dirname(os.path.dirname(os.path.abspath(__file__)))


class Violation(Exception):
    """The oracle disagrees with the implementation."""

    def __init__(self, kind: str, detail: str = "", info: dict | None = None):
        super().__init__(f"{kind}: {detail}")
        self.kind = kind
        self.detail = detail
        self.info = info or {}


class HarnessError(Exception):
    pass


def _innermost_inferno_frame(tb) -> str:
    site = "?"
    for fs in traceback.extract_tb(tb):
        fn = fs.filename.replace("\\", "/")
        if "/inferno/" in fn and "/verif/" not in fn:
            site = f"{fn.split('/inferno/', 1)[1]}:{fs.name}"
    return site


@contextlib.contextmanager
def impl(what: str = "", allow: tuple = ()):
    """Wrap calls into the implementation: an exception on documented-valid input is a
    violation of kind crash:<Exc>@<innermost inferno frame>.  Exceptions in ``allow``
    propagate unchanged (documented rejections asserted by the caller)."""
    try:
        yield
    except Violation:
        raise
    except allow:
        raise
    except Exception as e:  # noqa: BLE001 - by design: classify implementation crashes
        site = _innermost_inferno_frame(e.__traceback__)
        raise Violation(
            f"crash:{type(e).__name__}@{site}",
            f"{what}: {type(e).__name__}: {str(e)[:300]}",
            {"exc": type(e).__name__, "site": site, "what": what},
        ) from e


def check(cond: bool, kind: str, detail: str | Callable[[], str] = "", info: dict | None = None):
    if not cond:
        if callable(detail):
            detail = detail()
        raise Violation(kind, detail, info)


def _as_text(x: Any) -> str:
    if isinstance(x, str):
        return x
    if isinstance(x, dict):
        return "; ".join(f"{k}: {_as_text(v)}" for k, v in x.items())
    if isinstance(x, (list, tuple)):
        return "; ".join(_as_text(v) for v in x)
    return "" if x is None else str(x)


def digest(case: Any) -> str:
    return hashlib.sha1(
        json.dumps(case, sort_keys=True, separators=(",", ":"), default=str).encode()
    ).hexdigest()[:16]


@dataclass
class Leg:
    name: str
    run: Callable[[Any], dict | None]
    strategy: Callable[[str], Any] | None = None  # tier -> hypothesis strategy
    enumerate: Callable[[str], Iterable[Any]] | None = None  # tier -> finite iterable
    quick: int = 200  # examples per shard, quick
    thorough: int = 2000  # examples per shard, thorough
    quick_shards: int = 2
    thorough_shards: int = 4
    nt_floor: float = 0.2
    rule: str = ""
    exhaustive_note: str = ""
    fuzz_runs: int = 0  # thorough tier: additional atheris campaign over the same strategy (optional engine)
    fuzz_modules: tuple = ("inferno.core.infrastructure",)


# --------------------------------------------------------------------------------------
# known findings


def load_known() -> dict:
    p = os.environ.get("VERIF_KNOWN") or os.path.join(ROOT, "known_findings.json")  # override: trying out proposed entries
    if not os.path.exists(p):
        return {"findings": [], "fixed": []}
    with open(p) as f:
        return json.load(f)


def _lookup(obj: Any, path: str) -> Any:
    cur = obj
    for part in path.split("."):
        if isinstance(cur, dict):
            if part not in cur:
                return KeyError
            cur = cur[part]
        elif isinstance(cur, list):
            try:
                cur = cur[int(part)]
            except (ValueError, IndexError):
                return KeyError
        else:
            return KeyError
    return cur


def _pred(val: Any, spec: Any) -> bool:
    if val is KeyError:
        return False
    if isinstance(spec, dict):
        ok = True
        if "eq" in spec:
            ok &= val == spec["eq"]
        if "in" in spec:
            ok &= val in spec["in"]
        if "min" in spec:
            ok &= isinstance(val, (int, float)) and val >= spec["min"]
        if "max" in spec:
            ok &= isinstance(val, (int, float)) and val <= spec["max"]
        if "re" in spec:
            ok &= re.search(spec["re"], str(val)) is not None
        return bool(ok)
    return val == spec


def finding_matches(f: dict, prop: str, leg: str, v: Violation, case: Any) -> bool:
    if f.get("property") != prop:
        return False
    if f.get("leg") not in (None, "*", leg):
        return False
    if not re.match(f.get("kind", ""), v.kind):
        return False
    env = {"case": case, "info": v.info, "detail": v.detail}
    for path, spec in (f.get("where") or {}).items():
        if not _pred(_lookup(env, path), spec):
            return False
    return True


# --------------------------------------------------------------------------------------
# statistics for one (leg, shard)


@dataclass
class Stats:
    evaluations: int = 0
    nontrivial: set = field(default_factory=set)
    classes: dict = field(default_factory=dict)
    ambiguous: int = 0
    known_hits: dict = field(default_factory=dict)
    excluded_hits: int = 0
    samples: list = field(default_factory=list)
    largest: tuple | None = None
    last_nt: Any = None
    wall_s: float = 0.0
    failures: list = field(default_factory=list)  # [{kind, detail, case, leg}]
    last_fail: tuple | None = None
    note: str = ""

    def to_json(self) -> dict:
        samples = list(self.samples)
        if self.largest is not None:
            samples.append(self.largest[1])
        if self.last_nt is not None:
            samples.append(self.last_nt)
        return {
            "evaluations": self.evaluations,
            "nontrivial": sorted(self.nontrivial),
            "classes": self.classes,
            "ambiguous": self.ambiguous,
            "known_hits": self.known_hits,
            "excluded_hits": self.excluded_hits,
            "samples": samples,
            "wall_s": self.wall_s,
            "failures": self.failures,
            "note": self.note,
        }


def _execute(prop: str, leg: Leg, case: Any, st: Stats, known: list, excluded: set):
    st.evaluations += 1
    try:
        out = leg.run(case) or {}
    except Violation as v:
        for f in known:
            if finding_matches(f, prop, leg.name, v, case):
                st.known_hits[f["id"]] = st.known_hits.get(f["id"], 0) + 1
                return
        if v.kind in excluded:
            st.excluded_hits += 1
            return
        st.last_fail = (case, v)
        raise
    for c in out.get("cls", ()):  # class histogram (measured generator distribution)
        st.classes[c] = st.classes.get(c, 0) + 1
    st.ambiguous += int(out.get("amb", 0))
    if out.get("nt"):
        d = digest(case)
        if d not in st.nontrivial:
            st.nontrivial.add(d)
            size = len(json.dumps(case, default=str))
            if len(st.samples) < 2:
                st.samples.append(case)
            elif st.largest is None or size > st.largest[0]:
                if size < 6000:
                    st.largest = (size, case)
            st.last_nt = case


def run_leg_shard(prop: str, leg: Leg, tier: str, seed: int, shard: int, nshards: int) -> dict:
    """Runs one shard of one leg in this process; returns JSON-able stats."""
    import hypothesis
    from hypothesis import HealthCheck, Phase, given, settings

    known = [f for f in load_known()["findings"] if f.get("property") == prop]
    st = Stats()
    t0 = time.time()
    excluded: set = set()
    budget = leg.quick if tier == "quick" else leg.thorough
    scale = float(os.environ.get("VERIF_SCALE", "1"))
    budget = max(1, int(budget * scale))

    if leg.enumerate is not None:
        for i, case in enumerate(leg.enumerate(tier)):
            if i % nshards != shard:
                continue
            try:
                _execute(prop, leg, case, st, known, excluded)
            except Violation as v:
                st.failures.append(
                    {"kind": v.kind, "detail": v.detail[:2000], "case": case, "leg": leg.name}
                )
                excluded.add(v.kind)
                if len(st.failures) >= 3:
                    break
        st.wall_s = time.time() - t0
        return st.to_json()

    strat = leg.strategy(tier)
    for _round in range(3):
        st.last_fail = None

        @hypothesis.seed(seed * 1000 + shard + 7919 * _round)
        @settings(
            max_examples=budget,
            database=None,
            deadline=None,
            derandomize=False,
            report_multiple_bugs=False,
            suppress_health_check=list(HealthCheck),
            phases=[Phase.generate, Phase.shrink],
            print_blob=False,
        )
        @given(strat)
        def test(case):
            _execute(prop, leg, case, st, known, excluded)

        try:
            test()
            break
        except Violation as v:
            case, vv = st.last_fail if st.last_fail is not None else (None, v)
            st.failures.append(
                {"kind": vv.kind, "detail": vv.detail[:2000], "case": case, "leg": leg.name}
            )
            excluded.add(vv.kind)
            # search on behind this root cause
            continue
        except BaseException as e:  # noqa: BLE001
            # Hypothesis reports a violation that does not reproduce identically on replay (code under test
            # that became non-deterministic, e.g. reads a global RNG) as Flaky / an exception group: it is
            # still a violation found by the oracle, reported with the last failing case (not shrunk)
            def _viol(x):
                if isinstance(x, Violation):
                    return x
                for sub in getattr(x, "exceptions", ()) or ():
                    r = _viol(sub)
                    if r is not None:
                        return r
                for sub in (getattr(x, "__cause__", None), getattr(x, "__context__", None)):
                    if sub is not None and sub is not x:
                        r = _viol(sub)
                        if r is not None:
                            return r
                return None

            vv = _viol(e)
            if vv is None or st.last_fail is None:
                raise
            case, lv = st.last_fail
            st.failures.append({"kind": lv.kind, "detail": ("[did not reproduce identically on replay] " + lv.detail)[:2000],
                                "case": case, "leg": leg.name})
            excluded.add(lv.kind)
            continue
    st.wall_s = time.time() - t0
    return st.to_json()


def _fuzz_worker(prop, legname, runs, seed):
    """Spawns the atheris campaign in a subprocess (libFuzzer owns the process exit)."""
    import shutil
    import subprocess
    import tempfile

    tmp = tempfile.mkdtemp(prefix="verif_fuzz_")
    out = os.path.join(tmp, "out.json")
    try:
        leg_mods = []
        from . import registry

        mod = registry.load(prop)
        leg = next(l for l in mod.LEGS if l.name == legname)
        leg_mods = list(leg.fuzz_modules)
        r = subprocess.run([sys.executable, "-m", "pbt.fuzz", prop, legname, str(runs), str(seed), out] + leg_mods,
                           capture_output=True, text=True, cwd=ROOT, timeout=3 * 3600)
        if not os.path.exists(out):
            return {"evaluations": 0, "nontrivial": [], "classes": {}, "ambiguous": 0, "known_hits": {}, "excluded_hits": 0,
                    "samples": [], "wall_s": 0.0, "failures": [], "fuzz_execs": 0,
                    "note": "atheris campaign unavailable: " + (r.stderr or r.stdout)[-300:]}
        with open(out) as f:
            d = json.load(f)
        d["note"] = f"atheris exit {r.returncode}"
        return d
    finally:
        shutil.rmtree(tmp, ignore_errors=True)


def _worker(args):
    prop, legname, tier, seed, shard, nshards = args
    if shard == "fuzz":
        try:
            return (legname, -1, _fuzz_worker(prop, legname, nshards, seed), None)
        except BaseException as e:  # noqa: BLE001
            return (legname, -1, None, "".join(traceback.format_exception(e))[-3000:])
    try:
        import torch

        torch.set_num_threads(1)
        from . import registry

        mod = registry.load(prop)
        leg = next(l for l in mod.LEGS if l.name == legname)
        return (legname, shard, run_leg_shard(prop, leg, tier, seed, shard, nshards), None)
    except BaseException as e:  # noqa: BLE001
        return (legname, shard, None, "".join(traceback.format_exception(e))[-6000:])


# --------------------------------------------------------------------------------------
# replay


def replay_file(prop: str, path: str) -> tuple[str, Violation | None]:
    from . import registry

    mod = registry.load(prop)
    with open(path) as f:
        rec = json.load(f)
    leg = next((l for l in mod.LEGS if l.name == rec["leg"]), None)
    if leg is None:
        raise HarnessError(f"replay {path}: unknown leg {rec['leg']}")
    try:
        leg.run(rec["case"])
    except Violation as v:
        return rec["leg"], v
    return rec["leg"], None


def write_replay(prop: str, fail: dict) -> str:
    d = os.path.join(ROOT, "replay", prop)
    if os.environ.get("VERIF_NOWRITE"):  # mutation / seeded-change runs: keep the corpus clean
        d = os.path.join("/tmp", "verif_mut_replay", prop)
    os.makedirs(d, exist_ok=True)
    name = f"{fail['leg']}-{digest(fail['case'])[:10]}.json"
    p = os.path.join(d, name)
    with open(p, "w") as f:
        json.dump(
            {
                "property": prop,
                "leg": fail["leg"],
                "kind": fail["kind"],
                "detail": fail["detail"],
                "case": fail["case"],
            },
            f,
            indent=1,
            default=str,
        )
    return p


# --------------------------------------------------------------------------------------
# main entry


def run_property(prop: str, tier: str, seed: int, only_legs: list[str] | None = None) -> int:
    import multiprocessing as mp

    from . import registry

    t0 = time.time()
    mod = registry.load(prop)
    legs: list[Leg] = [l for l in mod.LEGS if not only_legs or l.name in only_legs]
    known_all = load_known()
    known = [f for f in known_all["findings"] if f.get("property") == prop]
    violations: list[str] = []
    replayed = 0
    known_lines: list[str] = []

    # 1. known findings: replay the stored reproduction of each
    for f in known:
        rp = os.path.join(ROOT, f["replay"])
        legname, v = replay_file(prop, rp)
        with open(rp) as fh:
            case = json.load(fh)["case"]
        if v is not None and finding_matches(f, prop, legname, v, case):
            line = f"KNOWN-FINDING: property={prop} {f['what']}"
            print(line, flush=True)
            known_lines.append(line)
        elif v is None:
            print(f"KNOWN-FINDING-RESOLVED: property={prop} {f['id']} no longer reproduces", flush=True)
        else:
            print(f"VIOLATION property={prop} replay={rp}", flush=True)
            print(f"  (listed reproduction now fails differently: {v.kind}: {v.detail[:300]})")
            violations.append(rp)
    known_replays = {os.path.join(ROOT, f["replay"]) for f in known}

    # 2. replay corpus (regressions incl. fixed: records) — must pass
    rdir = os.path.join(ROOT, "replay", prop)
    if os.path.isdir(rdir):
        for fn in sorted(os.listdir(rdir)):
            p = os.path.join(rdir, fn)
            if not fn.endswith(".json") or p in known_replays:
                continue
            legname, v = replay_file(prop, p)
            replayed += 1
            if v is not None:
                with open(p) as fh:
                    case = json.load(fh)["case"]
                if any(finding_matches(f, prop, legname, v, case) for f in known):
                    continue
                print(f"VIOLATION property={prop} replay={p}", flush=True)
                print(f"  {v.kind}: {v.detail[:500]}")
                violations.append(p)

    # 3. generated search, sharded over processes
    tasks = []
    for leg in legs:
        n = leg.quick_shards if tier == "quick" else leg.thorough_shards
        if os.environ.get("VERIF_SHARDS"):
            n = int(os.environ["VERIF_SHARDS"])
        for s in range(n):
            tasks.append((prop, leg.name, tier, seed, s, n))
        if tier == "thorough" and leg.fuzz_runs and leg.strategy is not None and not os.environ.get("VERIF_NOFUZZ"):
            tasks.append((prop, leg.name, tier, seed, "fuzz", int(leg.fuzz_runs * float(os.environ.get("VERIF_SCALE", "1")))))
    nproc = min(int(os.environ.get("VERIF_JOBS", "16")), max(1, len(tasks)))
    results: dict[str, list[dict]] = {l.name: [] for l in legs}
    errors: list[str] = []
    if nproc == 1:
        outs = [_worker(t) for t in tasks]
    else:
        ctx = mp.get_context("spawn")
        with ctx.Pool(nproc, maxtasksperchild=1) as pool:
            outs = list(pool.imap_unordered(_worker, tasks, chunksize=1))
    fuzz_info = {}
    for legname, shard, res, err in sorted(outs, key=lambda o: (o[0], o[1])):
        if shard == -1:  # optional engine: never a harness error, the claim does not rest on it
            if err is not None or not res.get("fuzz_execs"):
                fuzz_info[legname] = {"fuzz_execs": 0, "note": (err or res.get("note", ""))[-300:]}
                continue
            fuzz_info[legname] = {"fuzz_execs": res["fuzz_execs"], "note": res.get("note", "")}
            res["is_fuzz"] = True
            results[legname].append(res)
        elif err is not None:
            errors.append(f"leg {legname} shard {shard}:\n{err}")
        else:
            results[legname].append(res)

    # 4. aggregate
    cov_legs = {}
    total_eval = 0
    all_nt: set = set()
    samples = []
    vacuous = []
    ambiguous = 0
    known_hits: dict = {}
    excluded_hits = 0
    for leg in legs:
        rs = results[leg.name]
        ev = sum(r["evaluations"] for r in rs)
        nt = set()
        cls: dict = {}
        for r in rs:
            nt.update(r["nontrivial"])
            for k, c in r["classes"].items():
                cls[k] = cls.get(k, 0) + c
            ambiguous += r["ambiguous"]
            for k, c in r["known_hits"].items():
                known_hits[k] = known_hits.get(k, 0) + c
            excluded_hits += r["excluded_hits"]
            for fl in r["failures"]:
                p = write_replay(prop, fl)
                if p not in violations:
                    print(f"VIOLATION property={prop} replay={p}", flush=True)
                    print(f"  leg={fl['leg']} {fl['kind']}: {fl['detail'][:800]}")
                    violations.append(p)
        for r in rs[:1]:
            for s in r["samples"][:2]:
                samples.append({"leg": leg.name, "case": s})
        total_eval += ev
        all_nt.update(f"{leg.name}:{d}" for d in nt)
        # vacuity is judged on the generated (Hypothesis / enumerated) cases only; the optional
        # coverage-guided campaign starts from tiny inputs and is reported separately
        ev_h = sum(r["evaluations"] for r in rs if not r.get("is_fuzz"))
        nt_h = set()
        for r in rs:
            if not r.get("is_fuzz"):
                nt_h.update(r["nontrivial"])
        frac = (len(nt_h) / ev_h) if ev_h else 0.0
        cov_legs[leg.name] = {
            "evaluations": ev,
            "distinct_nontrivial": len(nt),
            "nontrivial_fraction": round(frac, 4),
            "rule": _as_text(leg.rule),
            "classes": dict(sorted(cls.items())),
            "shards": len(rs),
            "wall_s": round(max([r["wall_s"] for r in rs], default=0.0), 2),
            "exhaustive": leg.enumerate is not None,
            "exhaustive_note": leg.exhaustive_note,
        }
        has_fail = any(r["failures"] for r in rs)
        if ev and frac < leg.nt_floor and not has_fail and not errors:
            vacuous.append(f"{leg.name}: non-trivial fraction {frac:.3f} < floor {leg.nt_floor}")

    wall = time.time() - t0
    evidence = {
        "property_id": prop,
        "tier": tier,
        "seed": seed,
        "level": "exploration",
        "coverage": {
            "evaluations": total_eval + replayed,
            "distinct_nontrivial": len(all_nt),
            "rule": _as_text(getattr(mod, "RULE", ""))
            or "; ".join(f"{l.name}: {_as_text(l.rule)}" for l in legs),
            "samples": samples[:12],
            "legs": cov_legs,
            "ambiguous": ambiguous,
            "known_hits": known_hits,
            "excluded_by_root_cause": excluded_hits,
            "replayed": replayed,
            "known_finding_lines": known_lines,
            "exhaustive": False,
            "exhaustive_sublegs": [l.name for l in legs if l.enumerate is not None],
            "fuzz": fuzz_info,
        },
        "assumptions": list(getattr(mod, "ASSUMPTIONS", [])),
        "wall_s": round(wall, 2),
        "violations": len(violations),
    }
    edir = os.path.join(ROOT, "evidence")
    if os.environ.get("VERIF_NOWRITE"):
        edir = os.path.join("/tmp", "verif_mut_evidence")
    os.makedirs(edir, exist_ok=True)
    with open(os.path.join(edir, f"{prop}.json"), "w") as f:
        json.dump(evidence, f, indent=1, default=str)

    summary = ", ".join(
        f"{k}: {v['evaluations']} cases/{v['distinct_nontrivial']} nt" for k, v in cov_legs.items()
    )
    print(f"[{prop} {tier} seed={seed}] {summary}; replayed={replayed}; "
          f"known_hits={known_hits}; wall={wall:.1f}s", flush=True)
    if errors:
        for e in errors:
            print("HARNESS-ERROR " + e, file=sys.stderr)
        return 1 if violations else 2
    if violations:
        return 1
    if vacuous:
        for v in vacuous:
            print("VACUOUS " + v, file=sys.stderr)
        return 2
    return 0

"""Closed forms for spike traces / fold reducers and the time model for ``view`` (C07).

No inferno import, no recurrences: every value is computed from the *event list* (the
observations folded since the last clear, with their times) in NumPy float64.

Conventions
  * a *history* is the list of observations folded since the last clear; entry ``j`` was
    folded at clock ``T[j]`` (``T`` grows by the step time in force at that fold);
  * ``contrib[j]`` is what entry ``j`` adds (cumulative) or sets (nearest): ``A`` or
    ``s*h_j + A``; ``mask[j]`` says whether entry ``j`` is an event (per element);
  * a *record* is the list of recorded per-step values, newest first, padded with the
    reducer's documented fill value up to its size ``N``.

Time model (DESIGN.md section 2/3): a time ``t`` before present is on-grid iff
``|t - round(t/dt)*dt| <= tolerance`` evaluated on exact rationals of the actual floats;
the same documented predicate is evaluated a second time in an emulation of the working
dtype; the classification is decisive only if both agree and either the arithmetic is
exact (on-grid only) or the margin to the tolerance exceeds a few ulps.  Inside the band
either the grid value or the interpolated value is accepted.
"""

from __future__ import annotations

import functools
import math
from fractions import Fraction

import numpy as np

BAND_ULPS = 8

# --------------------------------------------------------------------------------------
# criteria (numpy side; the property module holds the torch twins under the same names)

CRITERIA = {
    "gt0": lambda h: h > 0,
    "nz": lambda h: h != 0,
    "ge1": lambda h: h >= 1,
    "lt0": lambda h: h < 0,
}


def _f32_exact(x: float) -> bool:
    return math.isfinite(x) and float(np.float32(x)) == float(x)


def _dyadic(x: float) -> bool:
    """multiple of 2**-12 below 2**10: sums/differences of such numbers are exact in
    float32 and float64"""
    return math.isfinite(x) and abs(x) < 1024 and (x * 4096.0) == math.floor(x * 4096.0)


def match_mask(h: np.ndarray, target: float, tol: float | None, work: str = "float32"):
    """Documented match predicate ``|h - h*| <= eps`` (``h == h*`` when eps is None).

    Returns ``(mask, ambiguous)``: ``ambiguous[i]`` is True when the decision for element
    ``i`` lies inside the rounding band of the working dtype (either outcome accepted)."""
    h = np.asarray(h, dtype=np.float64)
    mask = np.zeros(h.shape, dtype=bool)
    amb = np.zeros(h.shape, dtype=bool)
    tgt = float(target)
    eps = 0.0 if tol is None else float(tol)
    W = np.float32 if work == "float32" else np.float64
    for idx in np.ndindex(h.shape):
        x = float(h[idx])
        if _dyadic(x) and _dyadic(tgt) and _dyadic(eps):
            mask[idx] = abs(x - tgt) <= eps  # exact in every dtype involved
            continue
        d = abs(Fraction(x) - Fraction(tgt))
        m = d - Fraction(eps)
        mask[idx] = m <= 0
        ulp = float(np.spacing(W(max(abs(x), abs(tgt), eps, 1e-30))))
        exact = work == "float64" or (_f32_exact(x) and _f32_exact(tgt) and _f32_exact(eps))
        if abs(m) <= BAND_ULPS * ulp and not (exact and tol is None and d == 0):
            amb[idx] = True
    return mask, amb


# --------------------------------------------------------------------------------------
# closed forms over an event list


def weights_pow(n_entries: int, decay: float) -> np.ndarray:
    """alpha**(n - k) for k = 0..n  (unit-free decay term, one factor per step)"""
    ages = np.arange(n_entries - 1, -1, -1, dtype=np.float64)
    return np.power(float(decay), ages)


def weights_exp(clock: np.ndarray, rate: float) -> np.ndarray:
    """exp(-(t_n - t_k) * rate) for the entries' clocks t_0..t_n (rate = 1/tau or lambda)"""
    clock = np.asarray(clock, dtype=np.float64)
    return np.exp(-(clock[-1] - clock) * float(rate))


def _bshape(w: np.ndarray, nd: int) -> np.ndarray:
    return w.reshape((-1,) + (1,) * nd)


def closed_cumulative(contrib: np.ndarray, mask: np.ndarray, w: np.ndarray):
    """sum over all matching entries of contrib_k * w_k; returns (value, magnitude)"""
    contrib = np.asarray(contrib, dtype=np.float64)
    m = np.asarray(mask, dtype=np.float64)
    ww = _bshape(np.asarray(w, dtype=np.float64), contrib.ndim - 1)
    terms = contrib * m * ww
    return terms.sum(0), np.abs(terms).sum(0)


def closed_nearest(contrib: np.ndarray, mask: np.ndarray, w: np.ndarray):
    """contrib_last * w_last with last = the most recent matching entry, 0 before any"""
    contrib = np.asarray(contrib, dtype=np.float64)
    mask = np.asarray(mask, dtype=bool)
    n = contrib.shape[0]
    out = np.zeros(contrib.shape[1:], dtype=np.float64)
    for idx in np.ndindex(out.shape):
        ks = [k for k in range(n) if mask[(k,) + idx]]
        if ks:
            k = ks[-1]
            out[idx] = contrib[(k,) + idx] * w[k]
    return out, np.abs(out)


def closed_event(mask: np.ndarray, clock: np.ndarray, initial: float):
    """time since the last event; before the first event the documented initial value plus
    the time since the first observation (inf and nan absorb the addition)"""
    mask = np.asarray(mask, dtype=bool)
    n = mask.shape[0]
    out = np.zeros(mask.shape[1:], dtype=np.float64)
    for idx in np.ndindex(out.shape):
        ks = [k for k in range(n) if mask[(k,) + idx]]
        if ks:
            out[idx] = clock[-1] - clock[ks[-1]]
        else:
            with np.errstate(invalid="ignore"):
                out[idx] = initial + (clock[-1] - clock[0])
    return out, np.abs(np.where(np.isfinite(out), out, 0.0)) + (clock[-1] - clock[0])


def closed_ema(obs: np.ndarray, alpha: float):
    """s_0 = x_0 ; s_n = (1-a)^n x_0 + sum_{k=1..n} a (1-a)^(n-k) x_k"""
    obs = np.asarray(obs, dtype=np.float64)
    n = obs.shape[0] - 1
    a = float(alpha)
    c = np.array([(1 - a) ** n] + [a * (1 - a) ** (n - k) for k in range(1, n + 1)], dtype=np.float64)
    cc = _bshape(c, obs.ndim - 1)
    return (obs * cc).sum(0), (np.abs(obs) * cc).sum(0)


def closed_ca(obs: np.ndarray):
    obs = np.asarray(obs, dtype=np.float64)
    return obs.mean(0), np.abs(obs).mean(0)


# --------------------------------------------------------------------------------------
# time model


@functools.lru_cache(maxsize=4096)
def classify_time(t: float, dt: float, tol: float, work: str) -> dict:
    """Classify the time ``t`` (already a value of the working dtype) against the grid.

    keys: k (nearest grid index), on (exact-rational verdict), decisive, q (exact t/dt),
    older / newer (grid indices around t), elapsed (time from the older sample to t)."""
    tf, dtf, tolf = Fraction(float(t)), Fraction(float(dt)), Fraction(float(tol))
    q = tf / dtf
    k = round(q)  # half-even, as torch.round / Python round
    dist = abs(k * dtf - tf)
    on = dist <= tolf
    # emulation of the documented predicate in the working dtype
    W = np.float32 if work == "float32" else np.float64
    with np.errstate(all="ignore"):
        tw, dtw, tolw = W(t), W(dt), W(tol)
        shift = tw / dtw
        sr = np.round(shift)
        dw = abs(dtw * sr - tw)
        on_w = bool(dw <= tolw)
    exact_arith = (
        Fraction(float(dtw)) == dtf
        and Fraction(float(shift)) == q
        and Fraction(float(dw)) == dist
        and (Fraction(float(tolw)) == tolf or (dist <= min(tolf, Fraction(float(tolw)))))
    )
    ulp = float(np.spacing(W(abs(float(t)) + float(dt))))
    margin = abs(dist - tolf)
    wide = margin > BAND_ULPS * ulp
    if on:
        decisive = on_w and (exact_arith or wide)
    else:
        decisive = (not on_w) and wide
    older = math.ceil(q)
    newer = math.floor(q)
    elapsed = float((older - q) * dtf)
    return {
        "k": int(k), "on": bool(on), "decisive": bool(decisive), "q": q,
        "older": int(older), "newer": int(newer), "elapsed": elapsed,
    }


def grid_time(k: int, frac: Fraction, dt: float, n: int, work: str, nudge: Fraction = Fraction(0)) -> float:
    """A documented-valid time (k + frac)*dt + nudge as a value of the working dtype, never
    above (n-1)*dt on exact rationals (callers keep nudges >= -tolerance: times down to
    -tolerance are documented as valid)."""
    W = np.float32 if work == "float32" else np.float64
    dtf = Fraction(float(dt))
    want = (Fraction(k) + frac) * dtf + nudge
    hi = (n - 1) * dtf
    t = W(float(min(want, hi)))
    while Fraction(float(t)) > hi:
        t = np.nextafter(t, W(-np.inf))
    return float(t)


# --------------------------------------------------------------------------------------
# reducer model

TRACE_KINDS = ("nearest", "cumulative", "scaled_nearest", "scaled_cumulative", "cond_nearest", "cond_cumulative")
ALL_KINDS = TRACE_KINDS + ("event", "passthrough", "ema", "ca")

INITIALS = {"inf": float("inf"), "zero": 0.0, "nan": float("nan")}


class ReducerModel:
    """List-of-observations model of a fold reducer.

    ``hist`` holds what was folded since the last clear: (clock, h, mask, contrib).
    ``rec`` is the list of recorded (value, magnitude) pairs, newest first, at most ``n``."""

    def __init__(self, kind: str, dt: float, n: int, **p):
        assert kind in ALL_KINDS
        self.kind = kind
        self.dt = float(dt)
        self.n = int(n)
        self.p = p
        self.fill = INITIALS[p["initial"]] if kind == "event" else 0.0
        self.clear()

    # -- lifecycle
    def clear(self):
        self.clock: list[float] = []
        self.h: list[np.ndarray] = []
        self.mask: list[np.ndarray] = []
        self.rec: list[tuple[np.ndarray, np.ndarray]] = []
        self.taint = None
        self.shape = None

    @property
    def initial(self) -> bool:
        return not self.h

    def set_dt(self, dt: float, n: int):
        """only ever called right before clear() by the property (see c07.py)"""
        self.dt = float(dt)
        self.n = int(n)

    # -- fold
    def events(self, h: np.ndarray, cond: np.ndarray | None, work: str):
        """documented event predicate of this reducer for observation h"""
        k = self.kind
        if k in ("nearest", "cumulative"):
            return match_mask(h, self.p["target"], self.p["mtol"], work)
        if k in ("scaled_nearest", "scaled_cumulative", "event"):
            return CRITERIA[self.p["crit"]](h), np.zeros(h.shape, dtype=bool)
        if k in ("cond_nearest", "cond_cumulative"):
            return np.asarray(cond, dtype=bool), np.zeros(h.shape, dtype=bool)
        return np.ones(h.shape, dtype=bool), np.zeros(h.shape, dtype=bool)

    def forward(self, h: np.ndarray, cond: np.ndarray | None = None, work: str = "float32") -> int:
        h = np.asarray(h, dtype=np.float64)
        mask, amb = self.events(h, cond, work)
        if self.shape is None:
            self.shape = h.shape
            self.taint = np.zeros(h.shape, dtype=bool)
        self.taint |= amb
        self.clock.append((self.clock[-1] + self.dt) if self.clock else 0.0)
        self.h.append(h)
        self.mask.append(np.asarray(mask, dtype=bool))
        self.rec.insert(0, self._closed())
        del self.rec[self.n:]
        return int(amb.sum())

    def _closed(self):
        k = self.kind
        H = np.stack(self.h)
        M = np.stack(self.mask)
        clock = np.asarray(self.clock, dtype=np.float64)
        if k in TRACE_KINDS:
            w = weights_exp(clock, 1.0 / self.p["tau"])
            if k in ("nearest", "cumulative"):
                contrib = np.full(H.shape, float(self.p["amp"]))
            else:
                contrib = float(self.p["scale"]) * H + float(self.p["amp"])
            if k.endswith("nearest"):
                return closed_nearest(contrib, M, w)
            return closed_cumulative(contrib, M, w)
        if k == "event":
            return closed_event(M, clock, self.fill)
        if k == "passthrough":
            return H[-1].copy(), np.abs(H[-1])
        if k == "ema":
            return closed_ema(H, self.p["alpha"])
        if k == "ca":
            return closed_ca(H)
        raise ValueError(k)

    # -- reads
    def record(self, k: int):
        """(value, magnitude) recorded k steps before the latest; fill beyond the history"""
        if k < len(self.rec):
            return self.rec[k]
        v = np.full(self.shape, self.fill, dtype=np.float64)
        return v, np.zeros(self.shape, dtype=np.float64)

    def dump(self):
        vs = [self.record(k) for k in range(self.n)]
        return np.stack([v for v, _ in vs]), np.stack([m for _, m in vs])

    def interp(self, older: int, newer: int, elapsed: float, idx: tuple):
        """documented interpolation rule of this reducer for one element"""
        vo, mo = self.record(older)
        vo, mo = float(vo[idx]), float(mo[idx])
        k = self.kind
        with np.errstate(invalid="ignore", over="ignore"):
            if k in TRACE_KINDS:  # analytic decay from the older sample
                f = math.exp(-elapsed / self.p["tau"])
                return vo * f, mo * f
            if k == "event":  # elapsed time added to the older sample
                return vo + elapsed, (abs(vo) if math.isfinite(vo) else 0.0) + self.dt * self.n
            if k == "passthrough":  # previous value
                return vo, mo
            # ema / ca: linear between the two neighbouring samples
            vn, mn = self.record(newer)
            vn, mn = float(vn[idx]), float(mn[idx])
            return vo + (vn - vo) * (elapsed / self.dt), mo + mn + abs(vo) + abs(vn)

    def view_element(self, t: float, tol: float, work: str, idx: tuple, scalar: bool = False):
        """acceptable (value, magnitude) candidates for one element read at time t;
        returns (candidates, info) where info has 'decisive', 'on', 'k'"""
        c = classify_time(t, self.dt, tol, work)
        k = min(max(c["k"], 0), self.n - 1)
        cands = []
        if c["decisive"]:
            if c["on"]:
                v, m = self.record(k)
                cands.append((float(v[idx]), float(m[idx])))
            else:
                cands.append(self.interp(c["older"], c["newer"], c["elapsed"], idx))
        else:
            v, m = self.record(k)
            cands.append((float(v[idx]), float(m[idx])))
            q = c["q"]
            if k + 1 <= self.n - 1:  # seen from above the grid point
                el = float((k + 1 - q) * Fraction(self.dt)) if q > k else self.dt
                cands.append(self.interp(k + 1, k, min(max(el, 0.0), self.dt), idx))
            if k >= 1:  # seen from below
                el = float((k - q) * Fraction(self.dt)) if q < k else 0.0
                cands.append(self.interp(k, k - 1, min(max(el, 0.0), self.dt), idx))
            if scalar:
                # scalar reads a rounding error above a grid point: 1 + t/dt rounds to an integer, both
                # neighbours collapse onto sample k and the rule is applied over a whole step
                cands.append(self.interp(k, k, self.dt, idx))
        return cands, c

"""Reference maps of the connections (no inferno import, no einsum, no unfold).

Everything is NumPy float64 with explicit index loops over the output coordinates; the only
vector operation is the dot product over the summed input index, whose meaning does not
depend on any axis convention.

Layouts (from the docstrings of inferno.neural.connections):
  dense    weight (O, I), bias (O,),   synaptic current (B, I)
  direct   weight (N,),   bias (N,),   synaptic current (B, N)
  lateral  weight (N, N), bias (N,),   synaptic current (B, N), self-weights excluded
  conv2d   weight (F, C, kH, kW), bias (F,), synaptic current (B, C*kH*kW, OH*OW) whose row
           n = (c*kH + i)*kW + j and column l = oh*OW + ow hold the input sample
           x[b, c, oh*sH - pH + i*dH, ow*sW - pW + j*dW]  (zero where that lies in the padding)
"""

from __future__ import annotations

import itertools

import numpy as np


def vals(spec: dict, n: int, scale: float = 0.25) -> np.ndarray:
    """n dyadic values from a case spec {"pool": [ints], "seed": int}: the cyclic pool
    (shrinks element-wise) plus, for seed != 0, integers in [-8, 8] from PCG64(seed)."""
    pool = spec["pool"]
    out = np.array([pool[j % len(pool)] for j in range(n)], dtype=np.float64)
    if spec.get("seed"):
        rng = np.random.Generator(np.random.PCG64(int(spec["seed"])))
        out = out + rng.integers(-8, 9, size=n).astype(np.float64)
    return out * scale


def realvals(seed: int, n: int) -> np.ndarray:
    """n float32-representable non-dyadic values (for the tolerance stratum)."""
    rng = np.random.Generator(np.random.PCG64(int(seed) + 1))
    return rng.normal(0.0, 1.5, size=n).astype(np.float32).astype(np.float64)


# ---------------------------------------------------------------------------- linear maps


def dense(x: np.ndarray, w: np.ndarray, b: np.ndarray | None) -> np.ndarray:
    """y[b, o] = sum_i x[b, i] * w[o, i] + b[o]"""
    B, I = x.shape
    O = w.shape[0]
    assert w.shape == (O, I)
    y = np.zeros((B, O))
    for bi in range(B):
        for o in range(O):
            y[bi, o] = float(np.dot(x[bi, :], w[o, :])) + (0.0 if b is None else b[o])
    return y


def lateral(x: np.ndarray, w: np.ndarray, b: np.ndarray | None) -> np.ndarray:
    """y[b, o] = sum_{i != o} x[b, i] * w[o, i] + b[o]   (W^T masked off the diagonal)"""
    B, N = x.shape
    assert w.shape == (N, N)
    y = np.zeros((B, N))
    for bi in range(B):
        for o in range(N):
            acc = 0.0
            for i in range(N):
                if i != o:
                    acc += x[bi, i] * w[o, i]
            y[bi, o] = acc + (0.0 if b is None else b[o])
    return y


def direct(x: np.ndarray, w: np.ndarray, b: np.ndarray | None) -> np.ndarray:
    """y[b, n] = x[b, n] * w[n] + b[n]"""
    B, N = x.shape
    assert w.shape == (N,)
    y = np.zeros((B, N))
    for bi in range(B):
        for n in range(N):
            y[bi, n] = x[bi, n] * w[n] + (0.0 if b is None else b[n])
    return y


def abs_dense(x, w, b):
    """sum of |terms| per output (scale for tolerances)."""
    return dense(np.abs(x), np.abs(w), None if b is None else np.abs(b))


# ---------------------------------------------------------------------------- conv geometry


def out_size(size: int, k: int, s: int, p: int, d: int) -> int:
    """floor((size + 2p - d(k-1) - 1) / s + 1) on integers."""
    return (size + 2 * p - d * (k - 1) - 1) // s + 1


def in_size_for(out: int, k: int, s: int, p: int, d: int, slack: int) -> int:
    """smallest input size giving `out` outputs, plus `slack` in [0, s) unread trailing rows."""
    return (out - 1) * s + d * (k - 1) + 1 - 2 * p + slack


class Geometry:
    def __init__(self, C, H, W, kernel, stride, padding, dilation):
        self.C, self.H, self.W = C, H, W
        self.kh, self.kw = kernel
        self.sh, self.sw = stride
        self.ph, self.pw = padding
        self.dh, self.dw = dilation
        self.OH = out_size(H, self.kh, self.sh, self.ph, self.dh)
        self.OW = out_size(W, self.kw, self.sw, self.pw, self.dw)
        self.N = C * self.kh * self.kw
        self.L = self.OH * self.OW

    def src(self, c, i, j, oh, ow):
        """input coordinate read by kernel tap (c, i, j) at output (oh, ow); None in padding."""
        h = oh * self.sh - self.ph + i * self.dh
        w = ow * self.sw - self.pw + j * self.dw
        if 0 <= h < self.H and 0 <= w < self.W:
            return (c, h, w)
        return None

    def rows(self):
        return itertools.product(range(self.C), range(self.kh), range(self.kw))

    def cols(self):
        return itertools.product(range(self.OH), range(self.OW))

    def row_index(self, c, i, j):
        return (c * self.kh + i) * self.kw + j

    def col_index(self, oh, ow):
        return oh * self.OW + ow

    def coverage(self) -> np.ndarray:
        """how many (tap, output) pairs read each input position."""
        cov = np.zeros((self.C, self.H, self.W), dtype=np.int64)
        for c, i, j in self.rows():
            for oh, ow in self.cols():
                s = self.src(c, i, j, oh, ow)
                if s is not None:
                    cov[s] += 1
        return cov

    def padded_taps(self) -> int:
        return sum(
            1 for c, i, j in self.rows() for oh, ow in self.cols() if self.src(c, i, j, oh, ow) is None
        )


def unfold(g: Geometry, x: np.ndarray) -> np.ndarray:
    """input layout (B, C, H, W) -> synaptic layout (B, N, L), zero in the padding."""
    B = x.shape[0]
    assert x.shape[1:] == (g.C, g.H, g.W)
    out = np.zeros((B, g.N, g.L))
    for c, i, j in g.rows():
        n = g.row_index(c, i, j)
        for oh, ow in g.cols():
            s = g.src(c, i, j, oh, ow)
            if s is not None:
                out[:, n, g.col_index(oh, ow)] = x[(slice(None),) + s]
    return out


def refold(g: Geometry, cur: np.ndarray):
    """synaptic layout (B, N, L) -> input layout (B, C, H, W).

    Returns (x, covered, consistent, padzero): x holds the value of every input position read
    by at least one tap (0 elsewhere), `consistent` is False if two taps reading the same
    input position hold different values, `padzero` is False if a tap lying in the padding is
    not zero (such a current is not the image of any input)."""
    B = cur.shape[0]
    assert cur.shape[1:] == (g.N, g.L), (cur.shape, g.N, g.L)
    x = np.zeros((B, g.C, g.H, g.W))
    seen = np.zeros((g.C, g.H, g.W), dtype=bool)
    consistent, padzero = True, True
    for c, i, j in g.rows():
        n = g.row_index(c, i, j)
        for oh, ow in g.cols():
            v = cur[:, n, g.col_index(oh, ow)]
            s = g.src(c, i, j, oh, ow)
            if s is None:
                if np.any(v != 0):
                    padzero = False
                continue
            if seen[s]:
                if not np.array_equal(x[(slice(None),) + s], v):
                    consistent = False
            else:
                x[(slice(None),) + s] = v
                seen[s] = True
    return x, seen, consistent, padzero


def xcorr2d(g: Geometry, x: np.ndarray, w: np.ndarray, b: np.ndarray | None) -> np.ndarray:
    """out[b, f, oh, ow] = b[f] + sum_{c,i,j} w[f, c, i, j] * xpad[b, c, oh*sH + i*dH, ow*sW + j*dW]
    (standard 2-D cross-correlation, zero padding, no kernel flip)."""
    B = x.shape[0]
    F = w.shape[0]
    assert w.shape == (F, g.C, g.kh, g.kw)
    out = np.zeros((B, F, g.OH, g.OW))
    for oh, ow in g.cols():
        for c, i, j in g.rows():
            s = g.src(c, i, j, oh, ow)
            if s is None:
                continue
            xv = x[(slice(None),) + s]  # (B,)
            for f in range(F):
                out[:, f, oh, ow] += w[f, c, i, j] * xv
    if b is not None:
        for f in range(F):
            out[:, f, :, :] += b[f]
    return out


# ---------------------------------------------------------------------------- receptive views


def presyn_dense(data: np.ndarray) -> np.ndarray:
    """(B, M) -> (B, 1, M, 1);  (B, M, N) -> (B, N, M, 1)"""
    if data.ndim == 2:
        B, M = data.shape
        out = np.zeros((B, 1, M, 1))
        for b in range(B):
            for i in range(M):
                out[b, 0, i, 0] = data[b, i]
        return out
    B, M, N = data.shape
    out = np.zeros((B, N, M, 1))
    for b in range(B):
        for i in range(M):
            for o in range(N):
                out[b, o, i, 0] = data[b, i, o]
    return out


def presyn_conv(g: Geometry, data: np.ndarray) -> np.ndarray:
    """(B, N, L) -> (B, 1, C, kH, kW, L);  (B, N, L, F) -> (B, F, C, kH, kW, L)"""
    if data.ndim == 3:
        data = data[..., None]
    B, N, L, F = data.shape
    assert (N, L) == (g.N, g.L)
    out = np.zeros((B, F, g.C, g.kh, g.kw, L))
    for c, i, j in g.rows():
        n = g.row_index(c, i, j)
        for f in range(F):
            out[:, f, c, i, j, :] = data[:, n, :, f]
    return out


def lateral_assign(value: np.ndarray) -> np.ndarray:
    """what a lateral connection stores when `value` is assigned to weight or delay."""
    out = np.array(value, dtype=np.float64)
    for i in range(out.shape[0]):
        out[i, i] = 0.0
    return out

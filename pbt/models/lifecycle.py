"""Reference model for C15 (trainer / monitor lifecycle).  Pure Python + NumPy, no inferno.

The model is a registry of *monitor objects* (``Mon``) and, per trainer, a table
``cell name -> monitor name -> Mon``.  It answers three questions from the documentation
alone:

  * which object does a request resolve to (pooling: within one trainer a request with the
    same monitor name, the same attribute OF THE SAME LAYER and equal tags resolves to the
    object already held by some cell of that trainer; ``unique`` never aliases; a name that
    already exists on the cell is returned as is, or replaced when ``unique``),
  * whether an object is attached to the layer (a new object is attached iff its trainer
    is in training mode; ``trainer.train()/eval()`` attaches / detaches every object of the
    pool; an object leaves the layer when the *last* pool entry holding it is deleted or
    when its trainer is dropped),
  * what the object's reducer holds: one fold per layer step taken while the object is
    attached and the layer is in training mode (monitors are built with train_update=True,
    eval_update=False), none otherwise; ``clear`` forgets everything.

Reducer folds (closed forms from the docstrings, float64):
  pass    x_t = h_t
  cum     x_t = x_{t-1} e^{-dt/tc} + A [h_t]            (first: A [h_t])
  near    x_t = A if h_t else x_{t-1} e^{-dt/tc}        (first: A [h_t])
  event   x_t = 0 if h_t else x_{t-1} + dt              (first: 0 if h_t else nan)
  ca      x_t = x_{t-1} + (h_t - x_{t-1}) / n_t
  elig    z_t = z_{t-1} e^{-dt/tc} + obs_t (x) cond_t / tc, obs/cond = latest values of two
          sibling monitors of the *own* (trainer, cell) entry (MSTDPET eligibility)

Besides the expected values the model keeps, only for *labelling* failures, an emulation of
the per-cell name map that all trainers share (``namemap``): an MSTDPET entry whose sibling
names currently resolve to a foreign object in that map is reported as ``shadowed``.
"""

from __future__ import annotations

import math
from collections import OrderedDict

import numpy as np


class Mon:
    __slots__ = ("uid", "name", "source", "kind", "p", "cap", "fill", "attached", "states",
                 "key", "owner", "count", "sib", "nobs_total", "layer")

    def __init__(self, uid, name, source, kind, p, cap, key, owner, sib=None, layer=None):
        self.uid = uid
        self.name = name
        self.source = source  # ("n", neuron) | ("c", connection) | ("cell", cellkey)
        self.kind = kind
        self.p = p
        self.cap = cap
        self.fill = float("nan") if kind == "event" else 0.0
        self.attached = False
        self.states = []  # folded states since the last clear (newest last)
        self.key = key  # alias key (None = unique, never aliased)
        self.owner = owner  # trainer index
        self.count = 0
        self.sib = sib  # for elig: (cell entry, obs name, cond name, orientation)
        self.nobs_total = 0
        self.layer = layer  # monitors are attached to (and fire with) one layer

    def clear(self):
        self.states = []
        self.count = 0

    def fold(self, h):
        k, p = self.kind, self.p
        prev = self.states[-1] if self.states else None
        if k == "pass":
            x = np.asarray(h, dtype=np.float64)
        elif k in ("cum", "near"):
            hit = np.asarray(h, dtype=bool)
            decay = math.exp(-p["dt"] / p["tc"])
            if prev is None:
                x = np.where(hit, p["amp"], 0.0)
            elif k == "cum":
                x = prev * decay + np.where(hit, p["amp"], 0.0)
            else:
                x = np.where(hit, p["amp"], prev * decay)
        elif k == "event":
            hit = np.asarray(h, dtype=bool)
            if prev is None:
                x = np.where(hit, 0.0, np.nan)
            else:
                x = np.where(hit, 0.0, prev + p["dt"])
        elif k == "ca":
            self.count += 1
            v = np.asarray(h, dtype=np.float64)
            x = v if prev is None else prev + (v - prev) / self.count
        elif k == "elig":
            decay = math.exp(-p["dt"] / p["tc"])
            v = np.asarray(h, dtype=np.float64) / p["tc"]
            x = v if prev is None else prev * decay + v
        else:
            raise ValueError(k)
        self.states.append(np.asarray(x, dtype=np.float64))
        if len(self.states) > self.cap + 2:
            del self.states[: len(self.states) - (self.cap + 2)]
        self.nobs_total += 1

    def latest(self):
        return self.states[-1] if self.states else None

    def dump(self):
        """Newest first, ``cap`` slots, unfilled slots hold the reducer's fill value."""
        if not self.states:
            return None
        out = list(reversed(self.states[-self.cap:]))
        while len(out) < self.cap:
            out.append(np.full_like(out[0], self.fill))
        return np.stack(out, 0)


class Entry:
    """One registered (trainer, cell)."""

    def __init__(self, cname, cellkey, hp):
        self.cname = cname
        self.cellkey = cellkey  # (connection, neuron)
        self.hp = hp
        self.mons = OrderedDict()  # monitor name -> Mon


class Trainer:
    def __init__(self, idx, ttype):
        self.idx = idx
        self.ttype = ttype
        self.training = True
        self.cells = OrderedDict()  # cell name -> Entry

    def objects(self):
        seen, out = set(), []
        for e in self.cells.values():
            for m in e.mons.values():
                if m.uid not in seen:
                    seen.add(m.uid)
                    out.append(m)
        return out

    def holders(self, mon):
        return [(e.cname, n) for e in self.cells.values() for n, m in e.mons.items() if m is mon]


class World:
    def __init__(self):
        self.layer_training = {}  # layer name -> bool
        self.trainers = {}  # idx -> Trainer
        self.namemap = {}  # cellkey -> {monitor name -> Mon}   (labelling only)
        self._uid = 0
        self.nsteps = 0
        self.flags = {"alias_del": False}

    # ------------------------------------------------------------------ trainers
    def new_trainer(self, idx, ttype):
        self.trainers[idx] = Trainer(idx, ttype)

    def drop_trainer(self, idx):
        tr = self.trainers.pop(idx)
        dead = {m.uid for m in tr.objects()}
        for m in tr.objects():
            m.attached = False
        for nm in self.namemap.values():
            for k in [k for k, m in nm.items() if m.uid in dead]:
                del nm[k]

    def set_trainer_mode(self, idx, mode):
        tr = self.trainers[idx]
        tr.training = bool(mode)
        for m in tr.objects():
            m.attached = bool(mode)

    def clear_trainer(self, idx):
        for m in self.trainers[idx].objects():
            m.clear()

    # ------------------------------------------------------------------ pool
    def add_monitor(self, idx, cname, mname, source, kind, p, cap, unique, tags, sib=None, layer=None):
        """Returns (mon, how) with how in {"existing", "alias", "new", "replaced"}."""
        tr = self.trainers[idx]
        e = tr.cells[cname]
        how = "new"
        if mname in e.mons:
            if not unique:
                return e.mons[mname], "existing"
            old = e.mons.pop(mname)
            self._released(tr, old, deleted=False)
            how = "replaced"
        found = None
        key = None
        if not unique:
            key = (mname, source, tuple(sorted(tags.items())))
            for e2 in tr.cells.values():
                m2 = e2.mons.get(mname)
                if m2 is not None and m2.key == key:
                    found = m2
                    if e2 is e:
                        break
        if found is not None:
            e.mons[mname] = found
            self.namemap.setdefault(e.cellkey, {})[mname] = found
            return found, "alias"
        self._uid += 1
        m = Mon(self._uid, mname, source, kind, p, cap, key, idx, sib, layer)
        m.attached = tr.training
        e.mons[mname] = m
        self.namemap.setdefault(e.cellkey, {})[mname] = m
        return m, how

    def _released(self, tr, mon, deleted=True):
        """A pool entry holding ``mon`` was removed."""
        if tr.holders(mon):
            if deleted:
                self.flags["alias_del"] = True  # survivor still aliases the object
            return
        # last holder gone: the object is no longer part of the trainer
        mon.attached = False
        for nm in self.namemap.values():
            for k in [k for k, m in nm.items() if m is mon]:
                del nm[k]

    def register_cell(self, idx, cname, cellkey, hp):
        self.trainers[idx].cells[cname] = Entry(cname, cellkey, hp)

    def del_cell(self, idx, cname):
        tr = self.trainers[idx]
        e = tr.cells.pop(cname)
        for m in list(e.mons.values()):
            self._released(tr, m)

    def del_monitor(self, idx, cname, mname):
        tr = self.trainers[idx]
        m = tr.cells[cname].mons.pop(mname)
        self._released(tr, m)

    # ------------------------------------------------------------------ stepping
    def all_objects(self):
        out = []
        for tr in self.trainers.values():
            out.extend(tr.objects())
        return out

    def step(self, data, layer):
        """data: source -> array.  One step of ``layer``."""
        self.nsteps += 1
        if not self.layer_training[layer]:
            return 0
        n = 0
        objs = [m for m in self.all_objects() if m.attached and m.layer == layer]
        for m in objs:
            if m.kind != "elig":
                m.fold(data[m.source])
                n += 1
        for m in objs:
            if m.kind == "elig":
                e, obs_name, cond_name, orient = m.sib
                obs = e.mons[obs_name].latest()
                cond = e.mons[cond_name].latest()
                if orient == "post":  # obs = presynaptic trace [B,I], cond = post spikes [B,O]
                    v = cond[:, :, None] * obs[:, None, :]
                else:  # obs = postsynaptic trace [B,O], cond = pre spikes [B,I]
                    v = obs[:, :, None] * cond[:, None, :]
                m.fold(v)
                n += 1
        return n

    # ------------------------------------------------------------------ labelling
    def shadowed(self):
        """True iff some entry that reads sibling monitors through the cell's shared name
        map would currently resolve a sibling name to a foreign object."""
        for tr in self.trainers.values():
            for e in tr.cells.values():
                for m in e.mons.values():
                    if m.kind != "elig":
                        continue
                    nm = self.namemap.get(e.cellkey, {})
                    for sname in (m.sib[1], m.sib[2]):
                        if nm.get(sname) is not e.mons.get(sname):
                            return True
        return False


# --------------------------------------------------------------------------------------
# what each shipped trainer records (names, targets, reducers, and the hyperparameters that
# make two requests "the same monitor"), from the trainers' documentation

HP = [  # hyperparameter palettes (index = "variant")
    {"lr_post": 1.0, "lr_pre": -0.5, "tc_post": 20.0, "tc_pre": 10.0, "mode": "cumulative"},
    {"lr_post": 0.25, "lr_pre": -1.0, "tc_post": 5.0, "tc_pre": 30.0, "mode": "cumulative"},
    {"lr_post": 1.0, "lr_pre": -0.5, "tc_post": 20.0, "tc_pre": 10.0, "mode": "nearest"},
]
TC_ELIG = 15.0
TRIPLET = {"lr_post_triplet": 0.5, "lr_pre_triplet": 0.25, "tc_post_slow": 40.0, "tc_pre_slow": 50.0}


def trainer_monitors(ttype, hp, dt, conn, neuron, delayed_by=None):
    """List of monitor specs for one registered cell:
    dict(name, source, kind, p, cap, unique, tags, sib)."""
    h = HP[hp]
    tk = "cum" if h["mode"] == "cumulative" else "near"
    post = ("n", neuron)
    pre = ("c", conn)

    def spec(name, source, kind, p=None, cap=1, unique=False, sib=None, **tags):
        return {"name": name, "source": source, "kind": kind, "p": dict(p or {}, dt=dt), "cap": cap,
                "unique": unique, "tags": tags, "sib": sib}

    if ttype in ("STDP", "MSTDP", "MSTDPET"):
        out = [
            spec("trace_post", post, tk, {"amp": abs(h["lr_pre"]), "tc": h["tc_post"]},
                 amp=abs(h["lr_pre"]), tc=h["tc_post"], mode=h["mode"]),
            spec("spike_post", post, "pass"),
            spec("trace_pre", pre, tk, {"amp": abs(h["lr_post"]), "tc": h["tc_pre"]},
                 amp=abs(h["lr_post"]), tc=h["tc_pre"], mode=h["mode"]),
            spec("spike_pre", pre, "pass"),
        ]
        if ttype == "MSTDPET":
            out.append(spec("elig_post", ("cell", (conn, neuron)), "elig", {"tc": TC_ELIG}, unique=True,
                            sib=("trace_pre", "spike_post", "post")))
            out.append(spec("elig_pre", ("cell", (conn, neuron)), "elig", {"tc": TC_ELIG}, unique=True,
                            sib=("trace_post", "spike_pre", "pre")))
        return out
    if ttype == "TripletSTDP":
        return [
            spec("trace_post_fast", post, tk, {"amp": abs(h["lr_pre"]), "tc": h["tc_post"]}, cap=2,
                 amp=abs(h["lr_pre"]), tc=h["tc_post"], mode=h["mode"]),
            spec("trace_post_slow", post, tk,
                 {"amp": abs(TRIPLET["lr_post_triplet"] / h["lr_post"]), "tc": TRIPLET["tc_post_slow"]}, cap=3,
                 amp=abs(TRIPLET["lr_post_triplet"] / h["lr_post"]), tc=TRIPLET["tc_post_slow"], mode=h["mode"]),
            spec("spike_post", post, "pass"),
            spec("trace_pre_fast", pre, tk, {"amp": abs(h["lr_post"]), "tc": h["tc_pre"]}, cap=2,
                 amp=abs(h["lr_post"]), tc=h["tc_pre"], mode=h["mode"]),
            spec("trace_pre_slow", pre, tk,
                 {"amp": abs(TRIPLET["lr_pre_triplet"] / h["lr_pre"]), "tc": TRIPLET["tc_pre_slow"]}, cap=3,
                 amp=abs(TRIPLET["lr_pre_triplet"] / h["lr_pre"]), tc=TRIPLET["tc_pre_slow"], mode=h["mode"]),
            spec("spike_pre", pre, "pass"),
        ]
    if ttype in ("KernelSTDP", "DelayAdjustedSTDP"):
        return [spec("spike_post", post, "event"), spec("spike_pre", pre, "event")]
    if ttype == "LinearHomeostasis":
        return [spec("spike_rate", post, "ca")]
    raise ValueError(ttype)


def stdp_update(e: Entry, batch_mean=True):
    """Pair-STDP accumulator parts (pos, neg) for a dense linear cell from the entry's
    monitors: dpost[o,i] = mean_b post[b,o] x_pre[b,i]; dpre[o,i] = mean_b pre[b,i] x_post[b,o]."""
    h = HP[e.hp]
    x_post, i_post = e.mons["trace_post"].latest(), e.mons["spike_post"].latest()
    x_pre, i_pre = e.mons["trace_pre"].latest(), e.mons["spike_pre"].latest()
    dpost = (i_post[:, :, None] * x_pre[:, None, :]).mean(0)
    dpre = (x_post[:, :, None] * i_pre[:, None, :]).mean(0)
    a, b = h["lr_post"] >= 0, h["lr_pre"] >= 0
    if a and b:
        return dpost + dpre, None
    if a and not b:
        return dpost, dpre
    if not a and b:
        return dpre, dpost
    return None, dpost + dpre

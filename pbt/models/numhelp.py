"""Reference models for C20 (numerical helpers).  No import of inferno.

* ``isi_model``      : inter-spike intervals of a boolean raster, per train, NaN padded
* ``vp_dist``        : textbook Victor-Purpura O(mn) dynamic programme in Python floats
* ``trapz`` / ``cumtrapz`` : trapezoid rule on the *actual* abscissae (float64)
* scipy.stats wrappers used as a second opinion for the three shipped distributions
"""

from __future__ import annotations

import math

import numpy as np


# ----------------------------------------------------------------------------- ISI


def isi_model(raster_last: np.ndarray, dt: float):
    """raster_last: bool array (*N, T), time LAST.  Returns (intervals (*N, max(C-1,0)) with
    NaN padding, list of per-train spike-time arrays in C order of the population index)."""
    r = np.asarray(raster_last, dtype=bool)
    pop = r.shape[:-1]
    T = r.shape[-1]
    flat = r.reshape(-1, T)
    times = [np.flatnonzero(row).astype(np.float64) * float(dt) for row in flat]
    cmax = max((len(t) for t in times), default=0)
    width = max(cmax - 1, 0)
    out = np.full((flat.shape[0], width), np.nan, dtype=np.float64)
    for i, t in enumerate(times):
        if len(t) >= 2:
            d = np.diff(t)
            out[i, : len(d)] = d
    return out.reshape(pop + (width,)), times


# ----------------------------------------------------------------------------- Victor-Purpura


def vp_dist(a, b, cost: float) -> float:
    """Victor-Purpura spike-train distance: minimal total cost of turning train a into b
    with insert (1), delete (1) and shift by dt (cost*|dt|).  cost == inf follows the
    documented convention of the implementation under test (n + m, coincident spikes are
    not matched)."""
    a = [float(x) for x in a]
    b = [float(x) for x in b]
    n, m = len(a), len(b)
    if math.isinf(cost):
        return float(n + m)
    g = [[0.0] * (m + 1) for _ in range(n + 1)]
    for i in range(n + 1):
        g[i][0] = float(i)
    for j in range(m + 1):
        g[0][j] = float(j)
    for i in range(1, n + 1):
        for j in range(1, m + 1):
            g[i][j] = min(
                g[i - 1][j] + 1.0,
                g[i][j - 1] + 1.0,
                g[i - 1][j - 1] + cost * abs(a[i - 1] - b[j - 1]),
            )
    return g[n][m]


# ----------------------------------------------------------------------------- quadrature


def cumtrapz(y: np.ndarray, x: np.ndarray) -> np.ndarray:
    """Cumulative trapezoid integral, same length as x, first entry 0."""
    y = np.asarray(y, dtype=np.float64)
    x = np.asarray(x, dtype=np.float64)
    seg = 0.5 * (y[1:] + y[:-1]) * np.diff(x)
    return np.concatenate([[0.0], np.cumsum(seg)])


def trapz(y: np.ndarray, x: np.ndarray) -> float:
    return float(cumtrapz(y, x)[-1])


# ----------------------------------------------------------------------------- scipy second opinion


def _ss():
    import scipy.stats as ss

    return ss


def poisson_ref(k: np.ndarray, lam: float):
    ss = _ss()
    return {
        "pmf": ss.poisson.pmf(k, lam),
        "logpmf": ss.poisson.logpmf(k, lam),
        "cdf": ss.poisson.cdf(k, lam),
        "mean": float(lam),
        "var": float(lam),
    }


def normal_ref(x: np.ndarray, loc: float, scale: float):
    ss = _ss()
    return {
        "pdf": ss.norm.pdf(x, loc, scale),
        "logpdf": ss.norm.logpdf(x, loc, scale),
        "cdf": ss.norm.cdf(x, loc, scale),
        "mean": float(loc),
        "var": float(scale) ** 2,
    }


def lognormal_ref(x: np.ndarray, loc: float, scale: float):
    ss = _ss()
    d = ss.lognorm(s=scale, scale=math.exp(loc))
    return {
        "pdf": d.pdf(x),
        "logpdf": d.logpdf(x),
        "cdf": d.cdf(x),
        "mean": float(d.mean()),
        "var": float(d.var()),
    }


def closed_moments(dist: str, loc: float, scale: float):
    """documented closed forms of mean and variance in float64 (expm1 keeps the small-scale digits)"""
    if dist == "normal":
        return float(loc), float(scale) ** 2
    s2 = float(scale) ** 2
    return math.exp(loc + s2 / 2.0), math.expm1(s2) * math.exp(2.0 * loc + s2)

"""List-of-observations model of RecordTensor (no inferno import, no storage pointer).

``hist[k]`` is the observation ``k`` steps before the write position, k in [0, N);
k = 0 is the slot the next push overwrites (the oldest), k = 1 the most recent push.
Observations are numpy arrays (float64 holding the *converted* values).
"""

from __future__ import annotations

import itertools

import numpy as np


def conv(dtype: str, x: np.ndarray) -> np.ndarray:
    """Conversion of values to the record's data type, expressed in float64."""
    x = np.asarray(x, dtype=np.float64)
    if dtype in ("float32", "float64"):
        return np.array(x, dtype=np.float64)  # generators only use float32-exact values
    if dtype == "int64":
        return np.array(np.trunc(x), dtype=np.float64)
    if dtype == "bool":
        return np.array(x != 0, dtype=np.float64)
    raise ValueError(dtype)


class Ring:
    def __init__(self, n: int, shape: tuple, dtype: str, fill: float = 0.0):
        self.n = n
        self.shape = tuple(shape)
        self.dtype = dtype
        self.hist = [np.full(self.shape, float(fill)) for _ in range(n)]

    # -- pointer moves: rotations of the list ------------------------------------------
    def incr(self, p: int):
        old = self.hist
        self.hist = [old[(k - p) % self.n] for k in range(self.n)]

    def decr(self, p: int):
        old = self.hist
        self.hist = [old[(k + p) % self.n] for k in range(self.n)]

    # -- single slot -------------------------------------------------------------------
    def read(self, k: int) -> np.ndarray:
        return self.hist[k % self.n]

    def write(self, obs: np.ndarray, k: int):
        self.hist[k % self.n] = np.array(conv(self.dtype, obs).reshape(self.shape), dtype=np.float64)

    def push(self, obs: np.ndarray):
        self.write(obs, 0)
        self.incr(1)

    def pop(self) -> np.ndarray:
        self.decr(1)
        return self.read(0)

    def reset(self, fill: float):
        self.hist = [conv(self.dtype, np.full(self.shape, float(fill))) for _ in range(self.n)]

    # -- ranges ------------------------------------------------------------------------
    def _ks(self, length: int, offset, forward: bool) -> np.ndarray:
        """k index per element and per position j of the range (oldest -> newest)."""
        off = np.broadcast_to(np.asarray(offset, dtype=np.int64), self.shape)
        start = off if forward else off + (length - 1)
        return start[..., None] - np.arange(length, dtype=np.int64)

    def readrange(self, length: int, offset, forward: bool) -> np.ndarray:
        ks = self._ks(length, offset, forward)
        out = np.empty(self.shape + (length,), dtype=np.float64)
        for idx in itertools.product(*(range(s) for s in self.shape)):
            for j in range(length):
                out[idx + (j,)] = self.hist[int(ks[idx + (j,)]) % self.n][idx]
        return out

    def writerange(self, obs: np.ndarray, offset, forward: bool):
        obs = conv(self.dtype, obs)
        length = obs.shape[-1]
        ks = self._ks(length, offset, forward)
        new = [np.array(h, dtype=np.float64) for h in self.hist]
        for idx in itertools.product(*(range(s) for s in self.shape)):
            for j in range(length):
                new[int(ks[idx + (j,)]) % self.n][idx] = obs[idx + (j,)]
        self.hist = new

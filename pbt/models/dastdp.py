"""Integer-time reference model for the delay-adjusted / kernel STDP family (C18).

No import of inferno.  Written from the docstrings of
  DelayAdjustedSTDP / DelayAdjustedSTDPD          (learn/trainers/delay_adj_two_factor_stdp.py)
  DelayAdjustedMSTDP / DelayAdjustedMSTDPD        (learn/trainers/delay_adj_three_factor_stdp.py)
  KernelSTDP / DelayAdjustedKernelSTDP(D)         (learn/trainers/kernel_stdp.py)
  exp_stdp_post_kernel / exp_stdp_pre_kernel      (functional/stdkernels.py)
and docs/zoo/learning-stdp.md.

Time is never accumulated: the model keeps, per batch sample and neuron, the *step index* of the
most recent spike as a Python/NumPy integer (-1 = has not spiked yet) and forms

    t_delta = (n_post_last - n_pre_last) * dt - d          (float64, or exact Fraction on request)

A parameter element p (a weight or a delay) owns L >= 1 (pre neuron, post neuron) pairs - its
receptive field (L = 1 for the linear connections, L = number of output positions for a
convolution kernel element).  The documented change of p in one step for one batch sample is

    sum over the pairs whose two neurons have both spiked of
        a_causal * exp(-|t_delta| / tau_causal)      if t_delta >= 0
        a_anti   * exp(-|t_delta| / tau_anti)        if t_delta <  0

(pairs with a silent side contribute nothing), followed by the reduction over the batch and,
for the three-factor rules, multiplication by gamma * M(t).
"""

from __future__ import annotations

from fractions import Fraction

import numpy as np

# --------------------------------------------------------------------------- receptive fields


def pairs_dense(n_in: int, n_out: int) -> tuple[np.ndarray, tuple]:
    """LinearDense / LinearLateral: parameter (o, i) <- pre neuron i, post neuron o."""
    pr = np.zeros((n_out * n_in, 1, 2), dtype=np.int64)
    for o in range(n_out):
        for i in range(n_in):
            pr[o * n_in + i, 0] = (i, o)
    return pr, (n_out, n_in)


def pairs_direct(n: int) -> tuple[np.ndarray, tuple]:
    """LinearDirect: parameter n <- pre neuron n, post neuron n."""
    pr = np.zeros((n, 1, 2), dtype=np.int64)
    for k in range(n):
        pr[k, 0] = (k, k)
    return pr, (n,)


def conv_outsize(size, k, s, p, d):
    return (size + 2 * p - d * (k - 1) - 1) // s + 1


def pairs_conv2d(height, width, channels, filters, kernel, stride, padding, dilation):
    """Conv2D: parameter (f, c, kh, kw) is shared by all output positions (oy, ox); at each it
    connects input pixel (c, oy*s + kh*dil - pad, ox*s + kw*dil - pad) (-1 = zero padding, a
    neuron that never spikes) to output neuron (f, oy, ox).  Inputs flattened (c, y, x), outputs
    flattened (f, oy, ox), both row-major."""
    kh_, kw_ = kernel
    oh = conv_outsize(height, kh_, stride[0], padding[0], dilation[0])
    ow = conv_outsize(width, kw_, stride[1], padding[1], dilation[1])
    P = filters * channels * kh_ * kw_
    pr = np.zeros((P, oh * ow, 2), dtype=np.int64)
    p = 0
    for f in range(filters):
        for c in range(channels):
            for kh in range(kh_):
                for kw in range(kw_):
                    for oy in range(oh):
                        for ox in range(ow):
                            y = oy * stride[0] + kh * dilation[0] - padding[0]
                            x = ox * stride[1] + kw * dilation[1] - padding[1]
                            if 0 <= y < height and 0 <= x < width:
                                pre = (c * height + y) * width + x
                            else:
                                pre = -1
                            pr[p, oy * ow + ox] = (pre, (f * oh + oy) * ow + ox)
                    p += 1
    return pr, (filters, channels, kh_, kw_), (oh, ow)


# --------------------------------------------------------------------------- spike bookkeeping


class LastSpikes:
    """Step index of the most recent spike per (sample, neuron); -1 while silent."""

    def __init__(self, batch: int, n_pre: int, n_post: int):
        self.pre = np.full((batch, n_pre), -1, dtype=np.int64)
        self.post = np.full((batch, n_post), -1, dtype=np.int64)
        self.n = -1

    def step(self, pre: np.ndarray, post: np.ndarray) -> None:
        self.n += 1
        self.pre[np.asarray(pre, dtype=bool)] = self.n
        self.post[np.asarray(post, dtype=bool)] = self.n


def is_dyadic(x: float, bits: int = 10) -> bool:
    """x is a multiple of 2**-bits (so sums of a few dozen such values are exact in float32)."""
    y = float(x) * (1 << bits)
    return y == int(y) and abs(y) < (1 << 22)


def tdelta(ls: LastSpikes, pairs: np.ndarray, dt: float, d: np.ndarray):
    """Returns (t_delta (B,P,L) float64 with NaN where a side is silent, valid mask,
    band (B,P,L): half-width of the region in which a float32 implementation that accumulates
    'time since last spike' by repeated addition of dt may see the other sign)."""
    pre_idx, post_idx = pairs[..., 0], pairs[..., 1]
    padded = pre_idx < 0
    n_pre = ls.pre[:, np.where(padded, 0, pre_idx)]  # (B,P,L)
    n_pre = np.where(padded[None], -1, n_pre)
    n_post = ls.post[:, post_idx]
    valid = (n_pre >= 0) & (n_post >= 0)
    dcol = np.asarray(d, dtype=np.float64).reshape(1, -1, 1)
    td = (n_post - n_pre).astype(np.float64) * float(dt) - dcol
    td = np.where(valid, td, np.nan)
    # magnitude of the operands and number of float additions behind them
    k_pre = (ls.n - n_pre).astype(np.float64)
    k_post = (ls.n - n_post).astype(np.float64)
    mag = np.maximum(np.maximum(k_pre, k_post) * float(dt), np.maximum(np.abs(dcol), float(dt)))
    band = 3e-7 * (k_pre + k_post + 2.0) * mag
    band = np.where(valid, band, 0.0)
    return td, valid, band


def ages(ls: LastSpikes, pairs: np.ndarray):
    """Steps since the most recent pre / post spike of every pair, (B,P,L) float64 (inf = silent)."""
    pre_idx, post_idx = pairs[..., 0], pairs[..., 1]
    padded = pre_idx < 0
    n_pre = ls.pre[:, np.where(padded, 0, pre_idx)]
    n_pre = np.where(padded[None], -1, n_pre)
    n_post = ls.post[:, post_idx]
    k_pre = np.where(n_pre >= 0, (ls.n - n_pre).astype(np.float64), np.inf)
    k_post = np.where(n_post >= 0, (ls.n - n_post).astype(np.float64), np.inf)
    return k_pre, k_post


def tdelta_exact_zero(ls: LastSpikes, pairs: np.ndarray, dt: float, d: np.ndarray) -> np.ndarray:
    """Exact-rational evaluation of [t_delta == 0] on the actual float values (B,P,L)."""
    pre_idx, post_idx = pairs[..., 0], pairs[..., 1]
    B = ls.pre.shape[0]
    out = np.zeros((B,) + pre_idx.shape, dtype=bool)
    fdt = Fraction(float(dt))
    fd = [Fraction(float(x)) for x in np.asarray(d, dtype=np.float64).ravel()]
    for b in range(B):
        for p in range(pre_idx.shape[0]):
            for l in range(pre_idx.shape[1]):
                i, o = pre_idx[p, l], post_idx[p, l]
                if i < 0:
                    continue
                a, c = ls.pre[b, i], ls.post[b, o]
                if a < 0 or c < 0:
                    continue
                out[b, p, l] = (int(c) - int(a)) * fdt - fd[p] == 0
    return out


# --------------------------------------------------------------------------- the rules


def zeta(td: np.ndarray, a_causal: float, tau_causal: float, a_anti: float, tau_anti: float):
    """Signed per-sample change (B,P): documented two-branch exponential rule summed over the
    receptive field, silent pairs skipped."""
    valid = ~np.isnan(td)
    t = np.where(valid, td, 0.0)
    causal = t >= 0
    val = np.where(
        causal,
        a_causal * np.exp(-np.abs(t) / tau_causal),
        a_anti * np.exp(-np.abs(t) / tau_anti),
    )
    val = np.where(valid, val, 0.0)
    return val.sum(-1)


def branch_counts(td: np.ndarray):
    valid = ~np.isnan(td)
    return int((valid & (td >= 0)).sum()), int((valid & (td < 0)).sum()), int((valid & (td == 0)).sum())


def reduce_batch(x: np.ndarray, how: str) -> np.ndarray:
    if how == "sum":
        return x.sum(0)
    if how == "mean":
        return x.mean(0)
    raise ValueError(how)


# which learning rate / time constant the docstrings attach to which branch
#   weight rules : causal (t_delta >= 0) -> lr_pos, tc_pos ; anti -> lr_neg, tc_neg
#   delay rules  : causal (t_delta >= 0) -> lr_neg, tc_neg ; anti -> lr_pos, tc_pos
def branches(rule: str, lr_pos, lr_neg, tc_pos, tc_neg):
    if rule in ("w", "weight"):
        return lr_pos, tc_pos, lr_neg, tc_neg
    if rule in ("d", "delay"):
        return lr_neg, tc_neg, lr_pos, tc_pos
    raise ValueError(rule)


def two_factor_update(td, rule, lr_pos, lr_neg, tc_pos, tc_neg, reduction: str) -> np.ndarray:
    """Documented net change (P,) of one trainer call of a two-factor (incl. kernel) rule."""
    ac, tc, aa, ta = branches(rule, lr_pos, lr_neg, tc_pos, tc_neg)
    return reduce_batch(zeta(td, ac, tc, aa, ta), reduction)


def three_factor_update(td, rule, lr_pos, lr_neg, tc_pos, tc_neg, reduction: str,
                        signal, scale: float) -> np.ndarray:
    """gamma * M(t) * zeta(t): per-sample M when ``signal`` is an array (then the reduction is the
    documented default sum), otherwise a scalar applied to the batch-reduced zeta."""
    ac, tc, aa, ta = branches(rule, lr_pos, lr_neg, tc_pos, tc_neg)
    z = zeta(td, ac, tc, aa, ta)  # (B,P)
    g = abs(float(scale))
    if np.ndim(signal) > 0:
        m = np.asarray(signal, dtype=np.float64).reshape(-1, 1)
        return reduce_batch(g * m * z, reduction)
    return g * float(signal) * reduce_batch(z, reduction)

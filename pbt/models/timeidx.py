"""Time model for time-indexed reads/writes of a record (no inferno import).

Documented contract (RecordTensor.select / insert): a time ``t`` before present is
*on the grid* iff ``|t - round(t/dt)*dt| <= tolerance``; then sample ``k = round(t/dt)``
steps back is addressed exactly.  Otherwise the older bracketing sample is
``ceil(t/dt)`` steps back, the newer one ``floor(t/dt)`` steps back, and the time elapsed
since the older one is ``ceil(t/dt)*dt - t``.

``classify`` evaluates this predicate twice: on exact rationals of the actual float values
and in an emulation of the working dtype (the same formula in NumPy float32/float64).  A time
is decisive only if both agree and the margin to the tolerance exceeds a few ulp of the
working dtype (or the time is *exactly* a grid multiple, where the float arithmetic is
exact); otherwise it is "amb" and callers accept either outcome.
"""

from __future__ import annotations

import math
from fractions import Fraction

import numpy as np

EPS = {"float32": 2.0 ** -23, "float64": 2.0 ** -52}


def classify(t: float, dt: float, tol: float, wdtype: str = "float64", ulps: float = 8.0):
    """-> (status, k, older, newer, elapsed) with status in {'on','off','amb'}.

    ``t`` must be the actual value used by the implementation (after any dtype cast).
    """
    ft, fdt, ftol = Fraction(t), Fraction(dt), Fraction(tol)
    q = ft / fdt
    k = int(round(q))  # Fraction.__round__: half to even, like torch.round / Python round
    dist = abs(ft - k * fdt)
    older, newer = math.ceil(q), math.floor(q)
    elapsed = float(older * fdt - ft)
    exact_on = dist <= ftol
    # emulation of the implementation's formula in the working dtype
    if wdtype == "float32":
        tt, dd = np.float32(t), np.float32(dt)
        sh = tt / dd
        r = np.round(sh)
        emul_on = bool(np.abs(dd * r - tt) <= np.float32(tol))
        emul_k = int(r)
        emul_older, emul_newer = int(np.ceil(sh)), int(np.floor(sh))
    else:
        sh = t / dt
        r = round(sh)
        emul_on = abs(dt * r - t) <= tol
        emul_k = int(r)
        emul_older, emul_newer = math.ceil(sh), math.floor(sh)
    scale = max(abs(t), abs(dt))
    margin = abs(float(dist - ftol))
    frac = float(q - newer)
    if dist == 0:
        return ("on", k, older, newer, elapsed)
    if exact_on != emul_on or margin <= ulps * EPS[wdtype] * scale:
        return ("amb", k, older, newer, elapsed)
    if exact_on:
        # rounding direction at exactly half a step is only reachable when tol >= dt/2
        if abs(frac - 0.5) < 1e-3 or emul_k != k:
            return ("amb", k, older, newer, elapsed)
        return ("on", k, older, newer, elapsed)
    if (emul_older, emul_newer) != (older, newer):
        return ("amb", k, older, newer, elapsed)
    return ("off", k, older, newer, elapsed)


def in_range(t: float, dt: float, n: int, tol: float, wdtype: str = "float64", ulps: float = 8.0):
    """-> 'in' | 'out' | 'amb' for the documented range [-tol, dt*(n-1)+tol]."""
    ft, lo, hi = Fraction(t), -Fraction(tol), Fraction(dt) * (n - 1) + Fraction(tol)
    scale = max(abs(t), abs(dt) * max(n - 1, 1))
    m = min(abs(float(ft - lo)), abs(float(ft - hi)))
    if m <= ulps * EPS[wdtype] * scale and not (ft == lo or ft == hi):
        return "amb"
    return "in" if lo <= ft <= hi else "out"


# ---------------------------------------------------------------- interpolation (docstrings)


def interp(name: str, older, newer, elapsed: float, dt: float, tau: float = 1.0, exact_tie: bool = False):
    """Returns (value, ambiguous)."""
    if name == "previous":
        return older, False
    if name == "next":
        return newer, False
    if name == "nearest":
        # nearest neighbour in time; exactly half a step is a tie: documented (t_s <= dt/2 -> older side) and decisive
        # only when the arithmetic is exact (exact_tie), otherwise banded
        if abs(elapsed / dt - 0.5) < 1e-4:
            return older, not (exact_tie and elapsed * 2 == dt)
        return (newer if elapsed / dt > 0.5 else older), False
    if name == "linear":
        return older + (newer - older) / dt * elapsed, False
    if name == "expdecay":
        return older * math.exp(-elapsed / tau), False
    if name == "expratedecay":
        return older * math.exp(-elapsed * (1.0 / tau)), False
    raise ValueError(name)


def extrap(name: str, x, elapsed: float, older, newer, dt: float, tau: float = 1.0, exact_tie: bool = False):
    """Returns ((value for the older slot, value for the newer slot), ambiguous)."""
    if name == "previous":
        return (x, newer), False
    if name == "next":
        return (older, x), False
    if name == "neighbors":
        return (x, x), False
    if name == "nearest":
        if abs(elapsed / dt - 0.5) < 1e-4:
            return (x, newer), not (exact_tie and elapsed * 2 == dt)
        return ((older, x) if elapsed > dt / 2 else (x, newer)), False
    if name == "linear_forward":
        return (older, older + (x - older) / elapsed * dt), False
    if name == "linear_backward":
        return (newer - (newer - x) / (dt - elapsed) * dt, newer), False
    if name == "expdecay":
        return (x * math.exp(elapsed / tau), x * math.exp(-(dt - elapsed) / tau)), False
    if name == "expratedecay":
        lam = 1.0 / tau
        return (x * math.exp(lam * elapsed), x * math.exp(-lam * (dt - elapsed))), False
    raise ValueError(name)


# matching (extrapolation, interpolation) pairs for the round trip
ROUNDTRIP = {
    "previous": ["previous"],
    "next": ["next"],
    "nearest": ["nearest"],
    "neighbors": ["previous", "next", "nearest"],
    "linear_forward": ["linear"],
    "linear_backward": ["linear"],
    "expdecay": ["expdecay"],
    "expratedecay": ["expratedecay"],
}

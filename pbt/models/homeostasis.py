"""Reference for LinearHomeostasis written from its docstring (no inferno import).

    weight:  w(t+dt) - w(t) =  lambda * (r* - r) / r*
    bias:    b(t+dt) - b(t) =  (lambda / L) * sum (r* - r) / r*
    delay:   d(t+dt) - d(t) = -lambda * (r* - r) / r*

``r`` is the observed postsynaptic rate (cumulative average of the spike indicator
since the start), ``r*`` the target. Documented order of operations: the receptive
dimension is reduced (mean over the postsynaptic elements that belong to one
parameter row), the signed term is split into its positive and negative part, then
the batch is reduced. The parts handed to the updater are magnitudes: the
potentiating part is ``reduce_b(max(k_b, 0))``, the depressing part
``reduce_b(max(-k_b, 0))``; the signed update is their difference.
"""

from __future__ import annotations


def _reduce(vals, how: str) -> float:
    if how == "sum":
        return float(sum(vals))
    if how == "mean":
        return float(sum(vals)) / len(vals)
    if how == "amax":
        return float(max(vals))
    raise ValueError(how)


def rates(post, t: int):
    """``r[b][o]``: fraction of the steps ``0..t`` in which output ``o`` of sample ``b`` spiked."""
    B, O = len(post[0]), len(post[0][0])
    return [[sum(post[s][b][o] for s in range(t + 1)) / (t + 1) for o in range(O)] for b in range(B)]


def signed_terms(post, t: int, target, plasticity: float, param: str, groups):
    """``k[b][g]``: the documented signed update of parameter row ``g`` for sample ``b``.

    ``target`` is a float or a list with one target per postsynaptic element;
    ``groups[g]`` lists the postsynaptic elements whose rates belong to row ``g``."""
    r = rates(post, t)
    lam = -plasticity if param == "delay" else plasticity
    out = []
    for b in range(len(r)):
        row = []
        for grp in groups:
            acc = 0.0
            for o in grp:
                tg = target[o] if isinstance(target, (list, tuple)) else target
                acc += (tg - r[b][o]) / tg
            row.append(lam * acc / len(grp))
        out.append(row)
    return out


def parts(post, t: int, target, plasticity: float, param: str, groups, reduction: str):
    """(ltp, ltd) per parameter row at step ``t``: non-negative magnitudes."""
    k = signed_terms(post, t, target, plasticity, param, groups)
    ng = len(groups)
    ltp = [_reduce([max(k[b][g], 0.0) for b in range(len(k))], reduction) for g in range(ng)]
    ltd = [_reduce([max(-k[b][g], 0.0) for b in range(len(k))], reduction) for g in range(ng)]
    return ltp, ltd

"""Reference models for property C04 (no inferno import, no torch).

Two parts.

1. *Time model* for delayed reads ``current_at`` / ``spike_at``.  A selector value ``t`` (time
   before present) on a synapse with step ``dt``, supported delay ``delay`` and tolerance ``tol``:

   * beyond the supported range  iff  ``t - delay > tol``  or  ``-t > tol``  -> overbound value,
     or (overbound ``None``) the value at the limit (``t`` clamped into ``[0, delay]``);
   * on the step grid            iff  ``|t - round(t/dt)*dt| <= tol``         -> the sample
     ``k = round(t/dt)`` steps ago (``k = 0``: the present);
   * otherwise between ``older = ceil(t/dt)`` and ``newer = floor(t/dt)`` steps ago, with
     ``elapsed = older*dt - t`` the time since the older sample; the synapse's documented
     interpolation rule combines the two.

   All three predicates are discontinuous, so each is evaluated twice: on exact rationals of the
   *actual* float values (``fractions.Fraction``) and in an emulation of the working dtype (NumPy
   float32 / float64, same formula).  The case is decisive when both agree and either the margin
   exceeds a few ulp of the working dtype or every intermediate of the emulation is exact
   (dyadic data); otherwise it is *ambiguous* and the caller accepts every listed alternative.
   Expected values always come from the exact evaluation.

2. *Synapse models*: closed-form sums over the recorded list of inputs since the last
   ``clear()`` (never a recurrence); ``value(quantity, k)`` is what the quantity was ``k`` steps
   ago (zeros before the first recorded step).
"""

from __future__ import annotations

import math
from dataclasses import dataclass, field
from fractions import Fraction

import numpy as np

WD = {"float32": np.float32, "float64": np.float64}
ULPS = 4  # half-width of the ambiguity bands, in ulps of the working dtype


def ulp(x: float, w) -> Fraction:
    """Spacing of dtype ``w`` at magnitude ``|x|`` (at least the spacing at the smallest normal)."""
    ax = max(abs(float(x)), float(np.finfo(w).tiny))
    return Fraction(float(np.spacing(w(ax))))


def _fr(x) -> Fraction:
    return Fraction(float(x))


# --------------------------------------------------------------------------------------
# range (overbound) classification


@dataclass
class Bound:
    where: str  # "in" | "lo" | "hi"   (exact evaluation)
    amb: bool  # exact and emulated evaluation may disagree -> accept either outcome
    t_eff: Fraction  # exact selector clamped into [0, delay]
    t_eff_w: float  # the clamped selector as computed in the working dtype


def classify_bound(t: float, delay: float, tol: float, w) -> Bound:
    """``t`` is the actual selector element (a value of dtype ``w`` given as python float)."""
    T, D, TOL = _fr(t), _fr(delay), _fr(tol)
    eff = min(max(T, Fraction(0)), D)
    excess = abs(T - eff)  # distance outside the supported range
    over = excess > TOL
    where = "in" if not over else ("hi" if T > D else "lo")
    # emulation: clamp and compare in the working dtype
    tw = w(t)
    bw = min(max(tw, w(0.0)), w(delay))
    diff_w = abs(tw - bw)
    over_w = not (diff_w <= w(tol))
    exact_arith = _fr(bw) == eff and _fr(diff_w) == excess and _fr(w(tol)) == TOL
    margin = abs(excess - TOL)
    decisive = over == over_w and (exact_arith or margin > ULPS * ulp(max(abs(t), delay), w))
    return Bound(where, not decisive, eff, float(bw))


# --------------------------------------------------------------------------------------
# grid classification of an in-range time


@dataclass
class Read:
    kind: str  # "grid" | "interp"
    k: int = 0  # grid: steps ago
    older: int = 0  # interp: steps ago of the observation prior to the sample time
    newer: int = 0
    elapsed: float = 0.0  # time since the older observation
    nearest: str = ""  # interp: "older" | "newer" | "either" (documented nearest rule + band)


@dataclass
class TimeRead:
    alts: list = field(default_factory=list)  # alts[0] is the exact evaluation
    amb: bool = False
    kmax: int = 0  # largest step index touched by any alternative


def _nearest(elapsed: Fraction, DT: Fraction, elapsed_w, dt_w, shift_mag: float, w, exact_arith: bool) -> str:
    """Documented rule: the newer observation iff ``elapsed / dt > 1/2`` (a tie selects the older)."""
    r = elapsed / DT
    pick = r > Fraction(1, 2)
    pick_w = bool(w(elapsed_w) / w(dt_w) > w(0.5))
    band = 2 * ULPS * Fraction(float(np.finfo(w).eps)) * Fraction(max(1.0, shift_mag))
    if pick == pick_w and (exact_arith or abs(r - Fraction(1, 2)) > band):
        return "newer" if pick else "older"
    return "either"


def classify_time(t_exact: Fraction, t_w: float, dt: float, tol: float, w) -> TimeRead:
    """Classify an in-range time.  ``t_exact`` is the exact (clamped) selector, ``t_w`` the value
    the working-dtype computation starts from."""
    T, DT, TOL = Fraction(t_exact), _fr(dt), _fr(tol)
    q = T / DT
    k = math.floor(q + Fraction(1, 2))
    dist = abs(T - k * DT)
    on = dist <= TOL

    # emulation in the working dtype (same formula)
    tw, dtw, tolw = w(t_w), w(dt), w(tol)
    shift = tw / dtw
    shiftr = np.round(shift)
    dist_w = abs(dtw * shiftr - tw)
    on_w = bool(dist_w <= tolw)
    arith_exact = (
        _fr(tw) == T and _fr(dtw) == DT and _fr(tolw) == TOL and _fr(shift) == q and _fr(dist_w) == dist
    )

    def interp_exact():
        older, newer = math.ceil(q), math.floor(q)
        elapsed = older * DT - T
        frac_w = shift % w(1.0)
        elapsed_w = dtw - dtw * frac_w
        ex = arith_exact and _fr(frac_w) == q - newer and _fr(elapsed_w) == elapsed
        return Read("interp", older=older, newer=newer, elapsed=float(elapsed),
                    nearest=_nearest(elapsed, DT, elapsed_w, dtw, float(abs(shift)), w, ex))

    def interp_emulated():
        older, newer = int(math.ceil(shift)), int(math.floor(shift))
        if older == newer:
            return Read("grid", k=older)
        elapsed_w = dtw - dtw * (shift % w(1.0))
        return Read("interp", older=older, newer=newer, elapsed=float(elapsed_w), nearest="either")

    exact = Read("grid", k=k) if on else interp_exact()
    emu = Read("grid", k=int(shiftr)) if on_w else interp_emulated()

    margin = abs(dist - TOL)
    same = (on == on_w) and (
        (on and k == int(shiftr))
        or (not on and emu.kind == "interp" and (emu.older, emu.newer) == (exact.older, exact.newer))
    )
    decisive = same and (arith_exact or margin > ULPS * ulp(max(abs(float(T)), dt), w))
    out = TimeRead(alts=[exact], amb=not decisive)
    if not decisive:
        # either classification is acceptable: the grid sample, the interpolation on either side of
        # it, and whatever the float evaluation itself produces
        cands = [emu, Read("grid", k=k)]
        if k >= 1:
            cands.append(Read("interp", older=k, newer=k - 1, elapsed=max(0.0, float(k * DT - T)), nearest="either"))
        cands.append(Read("interp", older=k + 1, newer=k, elapsed=min(dt, max(0.0, float((k + 1) * DT - T))),
                          nearest="either"))
        if exact.kind == "interp":
            exact.nearest = "either"
        out.alts.extend(cands)
    out.kmax = max((a.k if a.kind == "grid" else a.older) for a in out.alts)
    return out


# --------------------------------------------------------------------------------------
# synapse models (closed-form sums over the recorded inputs)


class SynapseModel:
    """History since the last clear: ``spikes[n]`` (bool array, batched shape), ``inject[n]``
    (float64 array, the sum of the injected currents; only delta-plus uses it)."""

    quantities = ("current", "spike")

    def __init__(self, kind: str, bshape: tuple, dt: float, q: float, **p):
        self.kind, self.bshape, self.dt, self.q, self.p = kind, tuple(bshape), float(dt), float(q), p
        self.spikes: list = []
        self.inject: list = []
        self.inject_abs: list = []
        self._cache = None

    # -- driving -----------------------------------------------------------------------
    def step(self, spikes: np.ndarray, injected: list | None = None):
        s = np.broadcast_to(np.asarray(spikes) != 0, self.bshape).copy()
        inj = np.zeros(self.bshape)
        inj_abs = np.zeros(self.bshape)
        for a in injected or []:
            a = np.broadcast_to(np.asarray(a, dtype=np.float64), self.bshape)
            inj = inj + a
            inj_abs = inj_abs + np.abs(a)
        self.spikes.append(s)
        self.inject.append(inj)
        self.inject_abs.append(inj_abs)
        self._cache = None

    def clear(self):
        self.spikes, self.inject, self.inject_abs, self._cache = [], [], [], None

    # -- closed forms ------------------------------------------------------------------
    def _kernel_sum(self, amp: float, tau: float | None) -> np.ndarray:
        """out[n] = sum_{j<=n} amp * exp(-(n-j)*dt/tau) * spikes[j]   (tau None: only j == n)."""
        n = len(self.spikes)
        s = np.stack(self.spikes).astype(np.float64).reshape(n, -1)  # (n, elements)
        age = np.arange(n)[:, None] - np.arange(n)[None, :]  # age[n, j] = n - j steps
        if tau is None:
            wgt = np.where(age == 0, amp, 0.0)
        else:
            wgt = np.where(age >= 0, amp * np.exp(-np.clip(age, 0, None) * self.dt / tau), 0.0)
        return (wgt @ s).reshape((n,) + self.bshape)

    def _tables(self) -> dict:
        if self._cache is not None:
            return self._cache
        n = len(self.spikes)
        t: dict = {}
        if n:
            t["spike"] = np.stack(self.spikes).astype(np.float64)
            q, dt, p = self.q, self.dt, self.p
            if self.kind == "delta":
                cur = self._kernel_sum(q / dt, None)
                t["current"], t["current:scale"] = cur, np.abs(cur)
            elif self.kind == "deltaplus":
                pulse = self._kernel_sum(q / dt, None)
                t["current"] = pulse + np.stack(self.inject)
                t["current:scale"] = np.abs(pulse) + np.stack(self.inject_abs)
            elif self.kind == "singleexp":
                cur = self._kernel_sum(q / p["tau"], p["tau"])
                t["current"], t["current:scale"] = cur, np.abs(cur)
            elif self.kind == "doubleexp":
                amp = q / (p["tau_d"] - p["tau_r"])
                pos, neg = self._kernel_sum(amp, p["tau_d"]), self._kernel_sum(amp, p["tau_r"])
                t["pos"], t["neg"], t["current"] = pos, neg, pos - neg
                t["pos:scale"], t["neg:scale"] = np.abs(pos), np.abs(neg)
                t["current:scale"] = np.abs(pos) + np.abs(neg)
            else:
                raise ValueError(self.kind)
        self._cache = t
        return t

    def value(self, quantity: str, k: int) -> np.ndarray:
        """The quantity ``k`` steps ago (k = 0: present); zeros before the first recorded step."""
        n = len(self.spikes)
        if k < 0:
            raise ValueError(k)
        if n - 1 - k < 0:
            return np.zeros(self.bshape)
        return self._tables()[quantity][n - 1 - k]

    def scale(self, quantity: str, k: int) -> np.ndarray:
        """Sum of the absolute values of the terms of the closed form (error scale)."""
        n = len(self.spikes)
        if n - 1 - k < 0 or quantity == "spike":
            return np.zeros(self.bshape)
        return self._tables()[quantity + ":scale"][n - 1 - k]

    def tau_of(self, quantity: str) -> float | None:
        """Time constant of the analytic decay used between steps, None where the documented rule
        is previous / nearest."""
        if self.kind == "singleexp" and quantity == "current":
            return self.p["tau"]
        if self.kind == "doubleexp":
            return {"pos": self.p["tau_d"], "neg": self.p["tau_r"]}.get(quantity)
        return None

    # -- a time-model read of one element ---------------------------------------------
    def read(self, quantity: str, rd: Read, idx: tuple, mode: str) -> list:
        """Acceptable (value, scale) pairs for element ``idx`` of ``quantity`` under ``rd``.

        ``mode`` is the synapse's rule for spikes (and for the quantities derived from or sharing
        it): "previous" | "nearest".  Exponential currents decay analytically from the older
        observation; the double-exponential current is the difference of its two components.
        """
        if quantity == "current" and self.kind == "doubleexp":
            out = []
            for (pv, ps) in self.read("pos", rd, idx, mode):
                for (nv, ns) in self.read("neg", rd, idx, mode):
                    out.append((pv - nv, ps + ns))
            return out
        if rd.kind == "grid":
            return [(float(self.value(quantity, rd.k)[idx]), float(self.scale(quantity, rd.k)[idx]))]
        tau = self.tau_of(quantity)
        old = (float(self.value(quantity, rd.older)[idx]), float(self.scale(quantity, rd.older)[idx]))
        new = (float(self.value(quantity, rd.newer)[idx]), float(self.scale(quantity, rd.newer)[idx]))
        if tau is not None:
            f = math.exp(-rd.elapsed / tau)
            return [(old[0] * f, old[1] * f)]
        if mode == "previous":
            return [old]
        if mode == "nearest":
            if rd.nearest == "older":
                return [old]
            if rd.nearest == "newer":
                return [new]
            return [old, new]
        raise ValueError(mode)

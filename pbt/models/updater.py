"""Reference model for C10 (updater algebra).  NumPy float64, no import of inferno.

Written from the docstrings of inferno/functional/bounding.py (the formulas in the
``.. math::`` blocks) and of Accumulator / Updater / Updatable in
inferno/neural/modeling.py:

  new = old + f_up(old, R(pos parts)) - f_lo(old, R(neg parts))

* R is the configured reduction applied over the list of parts (each part is
  broadcast against the others first), default sum.
* half bounds: ``upperbound(fn, max, **kw)`` / ``lowerbound(fn, min, **kw)``; a side without
  a bounding function passes its reduced part through unchanged; setting a half bound removes
  a full bound, setting a full bound (or ``fullbound(None)``) removes both half bounds.
* a side without any accumulated part contributes nothing; with nothing accumulated on either
  side there is no update at all.

Theta(0): the docstrings of the sharp functions print Theta(x) = 1 for x >= 0, the property
statement says sharp dependence "never moves a parameter further beyond a limit it has
reached" (a parameter sitting exactly on the limit has reached it).  The model follows the
property statement: Theta(x) = 1 iff x > 0.
"""

from __future__ import annotations

import numpy as np

# ------------------------------------------------------------------------------ reductions

REDUCTIONS = ("sum", "mean", "amax", "custom")


def custom_reduce(stack: np.ndarray) -> np.ndarray:
    """The 'custom' reduction used by the checks: 0.5*sum + 0.25*amax (symmetric, not built in)."""
    return 0.5 * stack.sum(0) + 0.25 * stack.max(0)


def reduce_parts(name: str | None, parts: list[np.ndarray]) -> np.ndarray:
    """Reduction over a non-empty list of parts, broadcasting them to a common shape."""
    assert parts
    stack = np.stack(np.broadcast_arrays(*[np.asarray(p, dtype=np.float64) for p in parts]), 0)
    if name in (None, "sum"):
        return stack.sum(0)
    if name == "mean":
        return stack.mean(0)
    if name == "amax":
        return stack.max(0)
    if name == "custom":
        return custom_reduce(stack)
    raise ValueError(name)


# ------------------------------------------------------------------------------ bounding

HALF_KINDS = ("power", "scaled_power", "multiplicative", "scaled_multiplicative", "sharp")
FULL_KINDS = HALF_KINDS
# kinds for which the property states the stay-in-range invariant, with the cap on the
# reduced magnitude as a function of the range
RANGE_KINDS = ("multiplicative", "scaled_multiplicative", "scaled_power")


def _factor(kind: str, base: np.ndarray, power=None, rng=None) -> np.ndarray:
    """Dependence factor as a function of base = (limit - P) [upper] or (P - limit) [lower]."""
    with np.errstate(all="ignore"):
        if kind == "power":
            return base ** power
        if kind == "scaled_power":
            return (base / rng) ** power
        if kind == "multiplicative":
            return base
        if kind == "scaled_multiplicative":
            return base / rng
        if kind == "sharp":
            return (base > 0).astype(np.float64)
    raise ValueError(kind)


def half_upper(kind, p, u, limit, power=None, rng=None, shift=0.0):
    """U+ scaled by the upper-bound dependence; ``shift`` perturbs the base (tolerance probing)."""
    with np.errstate(all="ignore"):
        return _factor(kind, (limit - p) + shift, power, rng) * u


def half_lower(kind, p, u, limit, power=None, rng=None, shift=0.0):
    with np.errstate(all="ignore"):
        return _factor(kind, (p - limit) + shift, power, rng) * u


def range_cap(kind: str, pmax: float, pmin: float) -> float:
    """Largest reduced magnitude for which the property states the range invariant."""
    if kind == "multiplicative":
        return 1.0
    if kind in ("scaled_multiplicative", "scaled_power"):
        return pmax - pmin
    raise ValueError(kind)


# ------------------------------------------------------------------------------ accumulator


class AccModel:
    """Pending parts + configuration of one parameter's accumulator."""

    def __init__(self, reduction: str | None = None):
        self.pos: list[np.ndarray] = []
        self.neg: list[np.ndarray] = []
        self.reduction = reduction or "sum"
        # bind: None (plain p - n) | ("half", up_cfg|None, lo_cfg|None) | ("full", cfg)
        # up_cfg / lo_cfg = dict(kind, limit, power, rng); full cfg = dict(kind, max, min, up, lo)
        self.bind = None

    # -- configuration
    def set_reduction(self, name):
        self.reduction = name or "sum"

    def set_upper(self, cfg):
        if not (self.bind and self.bind[0] == "half"):
            self.bind = ("half", None, None)
        self.bind = ("half", cfg, self.bind[2])

    def set_lower(self, cfg):
        if not (self.bind and self.bind[0] == "half"):
            self.bind = ("half", None, None)
        self.bind = ("half", self.bind[1], cfg)

    def set_full(self, cfg):
        self.bind = ("full", cfg) if cfg else None

    # -- state
    def add(self, pos, neg):
        if pos is not None:
            self.pos.append(np.asarray(pos, dtype=np.float64))
        if neg is not None:
            self.neg.append(np.asarray(neg, dtype=np.float64))

    def clear(self):
        self.pos, self.neg = [], []

    def reduced(self):
        rp = reduce_parts(self.reduction, self.pos) if self.pos else None
        rn = reduce_parts(self.reduction, self.neg) if self.neg else None
        return rp, rn

    # -- the documented update
    def sides(self):
        """Returns (upper_cfg, lower_cfg, is_full) with cfg = dict(kind, limit, power, rng) | None."""
        if self.bind is None:
            return None, None, False
        if self.bind[0] == "half":
            return self.bind[1], self.bind[2], False
        c = self.bind[1]
        rng = (c["max"] - c["min"]) if (c["max"] is not None and c["min"] is not None) else None
        up = None if c["max"] is None else dict(kind=c["kind"], limit=c["max"], power=c.get("up"), rng=rng)
        lo = None if c["min"] is None else dict(kind=c["kind"], limit=c["min"], power=c.get("lo"), rng=rng)
        return up, lo, True

    def terms(self, old: np.ndarray, shift_up=0.0, shift_lo=0.0):
        """(up, lo) terms of the update for parameter value ``old``; None for an absent side.
        With a full bound an absent side enters the documented formula as zeros."""
        rp, rn = self.reduced()
        if rp is None and rn is None:
            return None, None
        ucfg, lcfg, full = self.sides()
        if full:
            if rp is None:
                rp = np.zeros_like(rn)
            if rn is None:
                rn = np.zeros_like(rp)
        up = lo = None
        if rp is not None:
            up = rp if ucfg is None else half_upper(
                ucfg["kind"], old, rp, ucfg["limit"], ucfg.get("power"), ucfg.get("rng"), shift_up)
        if rn is not None:
            lo = rn if lcfg is None else half_lower(
                lcfg["kind"], old, rn, lcfg["limit"], lcfg.get("power"), lcfg.get("rng"), shift_lo)
        return up, lo

    def enclosure(self, old: np.ndarray, eps: float, rel: float = 32.0, floor: float = 1e-300):
        """Element-wise [lo, hi] enclosure of the documented new value when the implementation
        works with relative precision ``eps``: the bases (limit - P), (P - limit) are probed at
        +-delta (delta = 4 eps max(|limit|, |P|)) which covers their rounding, the rounding of
        a non-representable limit and the discontinuity of the sharp factor; on top a relative
        slack ``rel``*eps on the magnitudes of the terms plus an absolute ``floor`` (underflow).  Also returns the mask of elements
        where the documented value is not decidable (NaN on some but not all probes) and
        the nominal value.  Returns None when nothing is accumulated."""
        up0, lo0 = self.terms(old)
        if up0 is None and lo0 is None:
            return None
        ucfg, lcfg, _ = self.sides()
        shape = np.broadcast(old, 0 if up0 is None else up0, 0 if lo0 is None else lo0).shape

        def probes(cfg, which):
            if cfg is None:
                return [0.0]
            d = 4.0 * eps * np.maximum(np.abs(cfg["limit"]), np.abs(old))
            return [0.0, -d, d]

        ups, los = [], []
        for s in probes(ucfg, "u"):
            u, _ = self.terms(old, shift_up=s)
            ups.append(np.broadcast_to(np.zeros(()) if u is None else u, shape))
        for s in probes(lcfg, "l"):
            _, l = self.terms(old, shift_lo=s)
            los.append(np.broadcast_to(np.zeros(()) if l is None else l, shape))
        ups, los = np.stack(ups), np.stack(los)
        with np.errstate(all="ignore"):
            nan_u, nan_l = np.isnan(ups), np.isnan(los)
            undec = (nan_u.any(0) & ~nan_u.all(0)) | (nan_l.any(0) & ~nan_l.all(0))
            allnan = nan_u.all(0) | nan_l.all(0)
            umin, umax = np.nanmin(np.where(nan_u, np.inf, ups), 0), np.nanmax(np.where(nan_u, -np.inf, ups), 0)
            lmin, lmax = np.nanmin(np.where(nan_l, np.inf, los), 0), np.nanmax(np.where(nan_l, -np.inf, los), 0)
            oldb = np.broadcast_to(old, shape)
            mag = np.abs(oldb) + np.maximum(np.abs(umin), np.abs(umax)) + np.maximum(np.abs(lmin), np.abs(lmax))
            slack = rel * eps * mag + floor
            lo = oldb + umin - lmax - slack
            hi = oldb + umax - lmin + slack
            nominal = oldb + ups[0] - los[0]
        return dict(lo=lo, hi=hi, undecidable=undec, allnan=allnan, nominal=nominal,
                    up=ups[0], lo_term=los[0], mag=mag)

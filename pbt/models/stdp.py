"""Brute-force reference for the STDP family (no inferno import).

Everything is computed in float64 from the two spike histories only, with explicit
loops over spike pairs -- no trace recurrence, no monitors, no tensors of the library.

Conventions (all taken from the trainers' docstrings and the property statement):

* time is an integer step index ``t`` (real time ``t * dt``); ``pre[t][b][i]`` and
  ``post[t][b][o]`` are 0/1;
* a synapse is a triple ``(i, o, d)``: presynaptic element, postsynaptic element and its
  delay in whole steps; the synapse sees the presynaptic train shifted by ``d`` steps.
  ``d`` may be a list with one delay per step (a trainer in ``delayed`` mode keeps the
  undelayed history and reads it through the delays current at the step): everything
  evaluated at step ``t`` then uses the train shifted by ``d[t]``;
* a *weight element* owns a list of synapses (one for dense / direct / lateral
  connections, one per output location for a convolution kernel element); its update
  is the sum over its synapses;
* a post spike at ``t`` pairs with the (shifted) pre spikes at ``s <= t`` (simultaneous
  pairs count): all of them in ``cumulative`` mode, only the most recent one in
  ``nearest`` mode; each pair weighs ``|eta_post| * exp(-(t - s) * dt / tau_pre)``.
  Mirror image for a pre spike at ``t`` with ``|eta_pre|`` and ``tau_post``;
* the sign of a learning rate only decides whether its term is potentiating (LTP,
  ``eta >= 0``) or depressing (LTD); a negative reward swaps the two;
* triplet rule: the pair term of the spike at ``t`` is multiplied by
  ``1 + (|beta| / |alpha|) * slow(t - 1)`` where ``slow`` is the slow trace (unit
  amplitude, same trace mode) of the *triggering* population one step earlier;
* modulated rule: the step's terms are multiplied by ``|signal * scale|``;
* eligibility rule: the stream of step terms ``c(s)`` is filtered
  ``z(t) = sum_{s <= t} exp(-(t - s) * dt / tau_z) * c(s) / tau_z`` before the signal
  is applied;
* the post-triggered and the pre-triggered term are each reduced over the batch by the
  configured reduction (sum / mean / amax) -- they are the LTP / LTD parts handed to the
  updater; with a per-sample signal each sample's scaled terms are routed by the sign
  of its own signal and the parts are summed over the batch.
"""

from __future__ import annotations

import math

import numpy as np

# --------------------------------------------------------------------------------------
# traces by brute force


def shifted(train, d: int):
    """The 0/1 sequence ``train`` delayed by ``d`` whole steps (zeros shifted in)."""
    if d == 0:
        return list(train)
    return [0] * min(d, len(train)) + list(train[: max(0, len(train) - d)])


def trace_at(train, t: int, tau: float, dt: float, mode: str) -> float:
    """Unit-amplitude trace of the 0/1 sequence ``train`` evaluated at step ``t``.

    cumulative: sum over every spike ``s <= t`` of ``exp(-(t - s) * dt / tau)``;
    nearest:    ``exp(-(t - s*) * dt / tau)`` for the latest spike ``s* <= t``;
    0.0 when there is no spike at or before ``t`` (in particular for ``t < 0``).
    """
    if t < 0:
        return 0.0
    if mode == "cumulative":
        acc = 0.0
        for s in range(0, min(t, len(train) - 1) + 1):
            if train[s]:
                acc += math.exp(-(t - s) * dt / tau)
        return acc
    if mode == "nearest":
        for s in range(min(t, len(train) - 1), -1, -1):
            if train[s]:
                return math.exp(-(t - s) * dt / tau)
        return 0.0
    raise ValueError(mode)


# --------------------------------------------------------------------------------------
# the unsigned step terms of one synapse


def step_terms(rule: dict, x, y, t: int) -> tuple[float, float]:
    """(post-triggered term, pre-triggered term) of step ``t``, both >= 0.

    ``x`` is the synapse's (already shifted) presynaptic train, ``y`` its postsynaptic
    train. ``rule`` holds ``kind`` in {"pair", "triplet"}, ``dt``, ``mode`` and the
    learning rates / time constants of the kind.
    """
    dt, mode = rule["dt"], rule["mode"]
    if rule["kind"] == "pair":
        a_post, a_pre = abs(rule["lr_post"]), abs(rule["lr_pre"])
        post_term = a_post * trace_at(x, t, rule["tc_pre"], dt, mode) if y[t] else 0.0
        pre_term = a_pre * trace_at(y, t, rule["tc_post"], dt, mode) if x[t] else 0.0
        return post_term, pre_term
    if rule["kind"] == "triplet":
        a_post, a_pre = abs(rule["lr_post_pair"]), abs(rule["lr_pre_pair"])
        b_post, b_pre = abs(rule["lr_post_triplet"]), abs(rule["lr_pre_triplet"])
        post_term = pre_term = 0.0
        if y[t]:
            fast = trace_at(x, t, rule["tc_pre_fast"], dt, mode)
            slow = trace_at(y, t - 1, rule["tc_post_slow"], dt, mode)
            post_term = fast * (a_post + b_post * slow)
        if x[t]:
            fast = trace_at(y, t, rule["tc_post_fast"], dt, mode)
            slow = trace_at(x, t - 1, rule["tc_pre_slow"], dt, mode)
            pre_term = fast * (a_pre + b_pre * slow)
        return post_term, pre_term
    raise ValueError(rule["kind"])


def rule_signs(rule: dict) -> tuple[bool, bool]:
    """(post-triggered term is LTP, pre-triggered term is LTP) under a positive reward."""
    if rule["kind"] == "pair":
        return rule["lr_post"] >= 0, rule["lr_pre"] >= 0
    return rule["lr_post_pair"] >= 0, rule["lr_pre_pair"] >= 0


def _reduce(vals, how: str) -> float:
    if how == "sum":
        return float(sum(vals))
    if how == "mean":
        return float(sum(vals)) / len(vals)
    if how == "amax":
        return float(max(vals))
    raise ValueError(how)


# --------------------------------------------------------------------------------------
# whole runs


def reference_run(rule: dict, pre, post, elements, *, reduction: str, modulation=None,
                  eligibility_tc: float | None = None, scale: float = 1.0):
    """Per-step LTP / LTD parts of every weight element.

    Args:
        rule: see :func:`step_terms`.
        pre, post: ``[T][B][I]`` / ``[T][B][O]`` nested 0/1 lists.
        elements: per weight element the list of its synapses ``(i, o, d)``.
        reduction: batch reduction, "sum" | "mean" | "amax".
        modulation: ``None`` (two-factor rule), or per step either a float (one
            signal for the batch) or a list of B floats (per-sample signal).
        eligibility_tc: ``tau_z`` of the eligibility filter (``None`` = unfiltered).
        scale: the reward scale (its absolute value is used).

    Returns:
        (ltp, ltd): float64 arrays ``[T, n_elements]`` -- the parts the trainer is
        documented to hand to the updater at step ``t`` when it is called then; the
        signed update of the step is ``ltp - ltd``.
    """
    T = len(pre)
    B = len(pre[0]) if T else 0
    dt = rule["dt"]
    post_is_ltp, pre_is_ltp = rule_signs(rule)
    ne = len(elements)
    ltp = np.zeros((T, ne))
    ltd = np.zeros((T, ne))

    for k, syns in enumerate(elements):
        # unsigned step terms per step and sample, summed over the element's synapses
        tp = [[0.0] * B for _ in range(T)]  # post-triggered
        tq = [[0.0] * B for _ in range(T)]  # pre-triggered
        for (i, o, d) in syns:
            for b in range(B):
                raw = [pre[t][b][i] for t in range(T)]
                y = [post[t][b][o] for t in range(T)]
                views: dict = {}
                for t in range(T):
                    dnow = d[t] if isinstance(d, (list, tuple)) else d
                    if dnow not in views:
                        views[dnow] = shifted(raw, dnow)
                    x = views[dnow]
                    if not (x[t] or y[t]):
                        continue
                    p, q = step_terms(rule, x, y, t)
                    tp[t][b] += p
                    tq[t][b] += q
        if eligibility_tc is not None:
            zp = [[0.0] * B for _ in range(T)]
            zq = [[0.0] * B for _ in range(T)]
            for t in range(T):
                for b in range(B):
                    for s in range(t + 1):
                        w = math.exp(-(t - s) * dt / eligibility_tc) / eligibility_tc
                        zp[t][b] += w * tp[s][b]
                        zq[t][b] += w * tq[s][b]
            tp, tq = zp, zq

        for t in range(T):
            sig = None if modulation is None else modulation[t]
            if sig is None:
                parts = [(_reduce(tp[t], reduction), post_is_ltp),
                         (_reduce(tq[t], reduction), pre_is_ltp)]
            elif isinstance(sig, (int, float)):
                g = abs(sig * scale)
                flip = sig < 0
                parts = [(_reduce(tp[t], reduction) * g, post_is_ltp != flip),
                         (_reduce(tq[t], reduction) * g, pre_is_ltp != flip)]
            else:
                if reduction != "sum":
                    raise ValueError("per-sample signals are modelled for 'sum' only")
                parts = []
                for b in range(B):
                    g = abs(sig[b] * scale)
                    flip = sig[b] < 0
                    parts.append((tp[t][b] * g, post_is_ltp != flip))
                    parts.append((tq[t][b] * g, pre_is_ltp != flip))
            for val, is_ltp in parts:
                if is_ltp:
                    ltp[t, k] += val
                else:
                    ltd[t, k] += val
    return ltp, ltd


# --------------------------------------------------------------------------------------
# pair statistics (for the non-trivial rule)


def pair_stats(pre, post, elements, called=None) -> dict:
    """Counts, over all synapses and samples, of causal (pre strictly before a post
    spike), anti-causal (post strictly before a pre spike) and simultaneous pairs whose
    triggering spike falls on a step where the trainer is called, and the largest
    number of pre spikes preceding one post spike."""
    T = len(pre)
    B = len(pre[0]) if T else 0
    out = {"causal": 0, "anti": 0, "simul": 0, "max_pre_before_post": 0, "delays": set()}
    seen = set()
    for syns in elements:
        for (i, o, d) in syns:
            key = (i, o, tuple(d) if isinstance(d, (list, tuple)) else d)
            out["delays"].update(d if isinstance(d, (list, tuple)) else [d])
            if key in seen:
                continue
            seen.add(key)
            for b in range(B):
                raw = [pre[t][b][i] for t in range(T)]
                y = [post[t][b][o] for t in range(T)]
                for t in range(T):
                    if called is not None and not called[t]:
                        continue
                    x = shifted(raw, d[t] if isinstance(d, (list, tuple)) else d)
                    if y[t]:
                        n = sum(x[:t])
                        out["causal"] += n
                        out["max_pre_before_post"] = max(out["max_pre_before_post"], n + x[t])
                        out["simul"] += x[t]
                    if x[t]:
                        out["anti"] += sum(y[:t])
    out["delays"] = len(out["delays"])
    return out


# --------------------------------------------------------------------------------------
# connection topologies -> weight elements


def _d(delays, *idx):
    """Delay of the weight element ``idx``: ``delays`` is ``None``, an integer array shaped
    like the weight, or a list of such arrays (one per step)."""
    if delays is None:
        return 0
    if isinstance(delays, list):
        vals = [int(a[idx]) for a in delays]
        return vals[0] if len(set(vals)) == 1 else vals
    return int(delays[idx])


def dense_elements(n_in: int, n_out: int, delays=None):
    """Weight ``(n_out, n_in)`` in row-major order; ``delays[o][i]`` in steps."""
    return [[(i, o, _d(delays, o, i))] for o in range(n_out) for i in range(n_in)]


def direct_elements(n: int, delays=None):
    """Weight ``(n,)``; ``delays[n]`` in steps."""
    return [[(j, j, _d(delays, j))] for j in range(n)]


def conv2d_elements(channels, height, width, filters, kernel, stride, padding, dilation,
                    delays=None):
    """Weight ``(filters, channels, kh, kw)`` in row-major order. Input elements are
    indexed ``c * H * W + y * W + x``, output elements ``f * OH * OW + oy * OW + ox``.
    Kernel taps that fall into the zero padding have no synapse. ``delays`` is indexed
    like the weight (steps)."""
    kh, kw = kernel
    sh, sw = stride
    ph, pw = padding
    dh, dw = dilation
    oh = (height + 2 * ph - dh * (kh - 1) - 1) // sh + 1
    ow = (width + 2 * pw - dw * (kw - 1) - 1) // sw + 1
    elements = []
    for f in range(filters):
        for c in range(channels):
            for a in range(kh):
                for b_ in range(kw):
                    d = _d(delays, f, c, a, b_)
                    syns = []
                    for oy in range(oh):
                        for ox in range(ow):
                            y = oy * sh - ph + a * dh
                            x = ox * sw - pw + b_ * dw
                            if 0 <= y < height and 0 <= x < width:
                                syns.append((c * height * width + y * width + x,
                                             f * oh * ow + oy * ow + ox, d))
                    elements.append(syns)
    return elements, (oh, ow)

"""NumPy reference of the documented single-step neuron equations (no inferno import).

One-step form: every function maps an *observed* pre-state (voltage, remaining refractory
time, adaptation) and an input current to the documented post-state.  Voltages are
evaluated in float64 together with an error scale (so the caller can state a tolerance and
an ambiguity band); the refractory countdown is evaluated in the state's own dtype *and*
exactly (comparison of the stored floats), because ``remaining == 0`` is discontinuous.

Documented equations (class docstrings / docs/zoo):
  linear (LIF, GLIF1, ALIF, GLIF2)   V' = [V - Vrest - R I] exp(-dt/tau) + Vrest + R I
  quadratic (QIF, Izhikevich)        V' = V + dt/tau [ a (V - Vrest)(V - Vcrit) + R I ]
  exponential (EIF, AdEx)            V' = V + dt/tau [ -(V - Vrest) + D exp((V - VT)/D) + R I ]
  adaptive threshold (ALIF, GLIF2)   Theta = Theta_inf + sum_k theta_k
  adaptive current (Izhikevich, AdEx) I = I_x - sum_k w_k
  spike  <=> out of refractory period and V' >= Theta
  reset  V <- Vreset                (GLIF2: V <- Vrest + m_v (V' - Vrest) - b_v)
  refractory: remaining <- max(remaining - dt, 0); input masked (and, with locking, voltage
  held) while remaining > 0; remaining <- refrac_t where spiked.
"""

from __future__ import annotations

import math
from fractions import Fraction

import numpy as np

LINEAR = ("LIF", "GLIF1", "ALIF", "GLIF2")
QUADRATIC = ("QIF", "Izhikevich")
EXPONENTIAL = ("EIF", "AdEx")
ADAPT_THRESH = ("ALIF", "GLIF2")
ADAPT_CURRENT = ("Izhikevich", "AdEx")
CLASSES = LINEAR + QUADRATIC + EXPONENTIAL

TOL_K = 8.0  # tolerance = TOL_K * eps(working dtype) * error scale


def representable(fr: Fraction, p: int) -> bool:
    """True iff the rational is exactly a float32 (p == 24) / float64 (p == 53) value
    (round trip through the type, so exponent range and subnormals are honoured)."""
    try:
        f = float(fr)
    except OverflowError:
        return False
    if Fraction(f) != fr:
        return False
    if p == 24:
        with np.errstate(all="ignore"):
            g = float(np.float32(f))
        return g == f
    return True


class NeuronRef:
    def __init__(self, cls: str, params: dict, dt: float, refrac_t: float, dtype: str):
        assert cls in CLASSES
        self.cls, self.p, self.dt, self.refrac_t = cls, dict(params), float(dt), float(refrac_t)
        self.wd = np.float32 if dtype == "float32" else np.float64
        self.prec = 24 if dtype == "float32" else 53
        self.eps = float(np.finfo(self.wd).eps)
        # absolute rounding granularity near zero (spacing of subnormals); tolerances are
        # TOL_K * (eps * scale + tiny)
        self.tiny = float(np.finfo(self.wd).smallest_subnormal)
        self.big = 1e30 if dtype == "float32" else 1e290
        p = self.p
        self.rest = float(p["rest_v"])
        self.R = float(p.get("resistance", 1.0))
        self.tau = float(p["time_constant"] if "time_constant" in p else p["tc_membrane"])
        self.thresh = float(p["thresh_v"] if "thresh_v" in p else p["thresh_eq_v"])

    # ------------------------------------------------------------------ pieces
    def theta(self, adapt):
        """Current threshold and its float error scale."""
        if self.cls in ADAPT_THRESH:
            a = np.asarray(adapt, dtype=np.float64)
            th = self.thresh + a.sum(-1)
            tol = 4 * (self.eps * (abs(self.thresh) + np.abs(a).sum(-1)) + self.tiny)
            return th, tol
        return np.float64(self.thresh), np.float64(0.0)

    def eff_input(self, ix, adapt):
        """Current entering the membrane equation and the magnitude of its terms."""
        ix = np.asarray(ix, dtype=np.float64)
        if self.cls in ADAPT_CURRENT:
            w = np.asarray(adapt, dtype=np.float64)
            return ix - w.sum(-1), np.abs(ix) + np.abs(w).sum(-1)
        return ix, np.abs(ix)

    def integrate(self, v, i, iabs=None):
        """Documented update of the membrane voltage; returns (V', error scale)."""
        v = np.asarray(v, dtype=np.float64)
        i = np.asarray(i, dtype=np.float64)
        iabs = np.abs(i) if iabs is None else iabs
        p, rest, R = self.p, self.rest, self.R
        with np.errstate(all="ignore"):
            if self.cls in LINEAR:
                d = math.exp(-self.dt / self.tau)
                ext = R * i
                out = (v - rest - ext) * d + rest + ext
                scale = np.abs(v) + abs(rest) + 2 * abs(R) * iabs + np.abs(out)
            elif self.cls in QUADRATIC:
                k = self.dt / self.tau
                a, crit = p["affinity"], p["crit_v"]
                x, y = v - rest, v - crit
                dyn = a * x * y
                out = v + k * (dyn + R * i)
                # scalar parameters are rounded to the working dtype when combined with the
                # state, so a difference V - c carries the absolute error eps (|V| + |c|)
                scale = np.abs(v) + np.abs(out) + k * (
                    a * (np.abs(x) * (np.abs(v) + abs(crit)) + np.abs(y) * (np.abs(v) + abs(rest)))
                    + 4 * np.abs(dyn) + 2 * abs(R) * iabs
                )
            else:
                k = self.dt / self.tau
                s, vt = p["sharpness"], p["rheobase_v"]
                x = (v - vt) / s
                e = s * np.exp(x)
                out = v + k * (-(v - rest) + e + R * i)
                scale = np.abs(v) + np.abs(out) + k * (
                    2 * (np.abs(v) + abs(rest))
                    + 2 * e * ((np.abs(v) + abs(vt)) / s + np.abs(x) + 2)
                    + 2 * abs(R) * iabs
                )
        return out, scale

    def tol(self, scale):
        return TOL_K * (self.eps * scale + self.tiny)

    def reset_value(self, vint, vtol):
        """Documented post-spike voltage and tolerance."""
        if self.cls == "GLIF2":
            m, b = self.p["reset_v_mul"], self.p["reset_v_add"]
            val = self.rest + m * (vint - self.rest) - b
            tol = abs(m) * vtol + self.tol(
                abs(self.rest) * (1 + abs(m)) + abs(m) * np.abs(vint) + abs(b)
            )
            return val, tol
        r = float(self.wd(self.p["reset_v"]))  # a constant stored in the state's dtype
        return np.float64(r), np.float64(0.0)

    # ------------------------------------------------------------------ refractory
    def countdown(self, refrac):
        """(remaining in the state's dtype, out-of-refractory mask in that dtype,
        out-of-refractory mask on the exact values).  The two masks differ only when
        ``float32(dt) != dt`` matters, i.e. inside the ambiguity band."""
        refrac = np.asarray(refrac)
        assert refrac.dtype == self.wd
        dec = np.maximum(refrac - self.wd(self.dt), self.wd(0))
        mask = dec == 0
        mask_exact = ~(refrac.astype(np.float64) > self.dt)  # float comparison is exact
        return dec, mask, mask_exact

    def silent_steps(self) -> int:
        """Lower bound L - 1 on the number of silent steps after a spike:
        L = max(1, ceil(refrac_t / dt)), with ratios within 1e-3 above an integer
        counted as that integer (repeated float subtraction may or may not add a step)."""
        r = Fraction(self.refrac_t) / Fraction(self.dt)
        return max(1, math.ceil(r - Fraction(1, 1000))) - 1

    # ------------------------------------------------------------------ drive synthesis
    def stationary_current(self, v, adapt):
        """External current for which the documented update leaves V unchanged."""
        v = np.asarray(v, dtype=np.float64)
        p = self.p
        with np.errstate(all="ignore"):
            if self.cls in LINEAR:
                i = (v - self.rest) / self.R
            elif self.cls in QUADRATIC:
                i = -(p["affinity"] * (v - self.rest) * (v - p["crit_v"])) / self.R
            else:
                s = p["sharpness"]
                i = ((v - self.rest) - s * np.exp((v - p["rheobase_v"]) / s)) / self.R
        return self._external(i, adapt)

    def current_for_target(self, v, adapt, target):
        """External current that puts the integrated voltage at ``target``."""
        v = np.asarray(v, dtype=np.float64)
        p = self.p
        with np.errstate(all="ignore"):
            if self.cls in LINEAR:
                d = math.exp(-self.dt / self.tau)
                i = (target - self.rest - (v - self.rest) * d) / (self.R * (1 - d))
            elif self.cls in QUADRATIC:
                k = self.dt / self.tau
                i = ((target - v) / k - p["affinity"] * (v - self.rest) * (v - p["crit_v"])) / self.R
            else:
                k = self.dt / self.tau
                s = p["sharpness"]
                i = ((target - v) / k + (v - self.rest) - s * np.exp((v - p["rheobase_v"]) / s)) / self.R
        return self._external(i, adapt)

    def _external(self, i, adapt):
        if self.cls in ADAPT_CURRENT:
            i = i + np.asarray(adapt, dtype=np.float64).sum(-1)
        return i

    # ------------------------------------------------------------------ exact boundary
    def exact_threshold(self, v: float, ix: float, adapt) -> tuple[Fraction, Fraction] | None:
        """If the documented update of one neuron is *exact* in the working dtype whatever the
        association of its operations (every intermediate a representable binary float and
        the inexact factor multiplied by an exact zero), return (V', Theta) as rationals,
        else None.  Only the linear and quadratic families can qualify."""
        P = self.prec
        rep = lambda f: representable(f, P)  # noqa: E731
        p = self.p
        adapt = [Fraction(float(a)) for a in (adapt if adapt is not None else [])]
        v, ix = Fraction(float(v)), Fraction(float(ix))
        rest, R = Fraction(self.rest), Fraction(self.R)
        theta = Fraction(self.thresh)
        if not (rep(rest) and rep(R) and rep(theta)):  # constants are rounded to the working dtype
            return None
        if self.cls in ADAPT_THRESH:
            # every subset sum of (theta_inf, theta_1..K) must be representable
            terms = [theta] + adapt
            for msk in range(1, 1 << len(terms)):
                if not rep(sum(t for j, t in enumerate(terms) if msk >> j & 1)):
                    return None
            theta = sum(terms)
        i = ix
        if self.cls in ADAPT_CURRENT:
            for msk in range(1, 1 << len(adapt)):
                if not rep(sum(t for j, t in enumerate(adapt) if msk >> j & 1)):
                    return None
            i = ix - sum(adapt)
            if not rep(i):
                return None
        if self.cls in LINEAR:
            ext = R * i
            inter = [ext, v - rest, v - ext, rest + ext, v - rest - ext]
            if not all(rep(x) for x in inter) or v - rest - ext != 0:
                return None
            return rest + ext, theta
        if self.cls in QUADRATIC:
            a, crit = Fraction(float(p["affinity"])), Fraction(float(p["crit_v"]))
            if not (rep(a) and rep(crit)):
                return None
            x, y = v - rest, v - crit
            ext = R * i
            inter = [x, y, a * x, a * y, x * y, a * x * y, ext, a * x * y + ext]
            if not all(rep(t) for t in inter) or a * x * y + ext != 0:
                return None
            return v, theta
        return None

"""Coverage-guided campaign (atheris/libFuzzer) over a leg's own Hypothesis strategy:
bytes -> hypothesis.fuzz_one_input -> case -> run(case) with the same oracle.
Usage (spawned by the harness in the thorough tier):
    python -m pbt.fuzz <PROP> <leg> <runs> <seed> <out.json> [instrumented module ...]
Statistics / the first failing case are written to <out.json> (atexit does not run under libFuzzer).
"""
import json
import os
import sys
import tempfile
import time


def main():
    prop, legname, runs, seed, out = sys.argv[1], sys.argv[2], int(sys.argv[3]), int(sys.argv[4]), sys.argv[5]
    include = sys.argv[6:] or ["inferno.core.infrastructure"]
    import atheris

    with atheris.instrument_imports(include=include):
        import inferno  # noqa: F401
        import inferno.core.infrastructure  # noqa: F401
    import torch

    torch.set_num_threads(1)
    from hypothesis import HealthCheck, given, settings

    from . import harness, registry

    mod = registry.load(prop)
    leg = next(l for l in mod.LEGS if l.name == legname)
    known = [f for f in harness.load_known()["findings"] if f.get("property") == prop]
    st = harness.Stats()
    t0 = time.time()

    @settings(database=None, deadline=None, suppress_health_check=list(HealthCheck))
    @given(leg.strategy("thorough"))
    def test(case):
        harness._execute(prop, leg, case, st, known, set())

    fuzz_one = test.hypothesis.fuzz_one_input
    n = [0]

    def dump(fail=None):
        st.wall_s = time.time() - t0
        d = st.to_json()
        d["fuzz_execs"] = n[0]
        if fail is not None:
            d["failures"] = [fail]
        with open(out + ".tmp", "w") as f:
            json.dump(d, f, default=str)
        os.replace(out + ".tmp", out)

    def one(data):
        n[0] += 1
        try:
            fuzz_one(data)
        except harness.Violation as v:
            case = st.last_fail[0] if st.last_fail else None
            dump({"kind": v.kind, "detail": v.detail[:2000], "case": case, "leg": legname})
            raise
        if n[0] % 1000 == 0 or n[0] >= runs:
            dump()

    corpus = os.path.join(os.path.dirname(os.path.abspath(out)), "corpus")  # removed with the campaign's scratch dir
    os.makedirs(corpus, exist_ok=True)
    # starting corpus: deterministic pseudo-random buffers long enough for Hypothesis to complete an example
    import random

    rnd = random.Random(seed)
    for i in range(24):
        with open(os.path.join(corpus, f"seed{i}"), "wb") as f:
            f.write(bytes(rnd.getrandbits(8) if rnd.random() < 0.7 else 0 for _ in range(rnd.choice([256, 1024, 4096]))))
    atheris.Setup([sys.argv[0], f"-runs={runs}", f"-seed={seed or 1}", "-max_len=8192", "-len_control=0", "-verbosity=0", corpus], one)
    dump()
    atheris.Fuzz()


if __name__ == "__main__":
    main()

"""Builders: JSON configuration -> inferno components (used by the composite properties).

Everything random in inferno's constructors (torch.rand weight init) is overwritten with
values expanded deterministically from integer seeds in the configuration.  Twins are built by
calling the builder again with the same configuration (never copy.deepcopy).
"""

from __future__ import annotations

import math

import numpy as np
import torch

NEURON_KW = {
    "LIF": dict(rest_v=-60.0, reset_v=-65.0, thresh_v=-50.0, time_constant=20.0, resistance=1.0),
    "GLIF1": dict(rest_v=-60.0, reset_v=-65.0, thresh_v=-50.0, time_constant=20.0, resistance=1.0),
    "ALIF": dict(rest_v=-60.0, reset_v=-65.0, thresh_eq_v=-50.0, tc_membrane=20.0,
                 tc_adaptation=(50.0, 200.0), spike_increment=(1.0, 0.5), resistance=1.0),
    "GLIF2": dict(rest_v=-60.0, reset_v_add=6.0, reset_v_mul=-0.1, thresh_eq_v=-50.0, tc_membrane=20.0,
                  rc_adaptation=(0.02, 0.005), spike_increment=(1.0, 0.5), resistance=1.0),
    "QIF": dict(rest_v=-60.0, crit_v=-52.0, affinity=1.0, reset_v=-65.0, thresh_v=-48.0,
                time_constant=20.0, resistance=1.0),
    "Izhikevich": dict(rest_v=-60.0, crit_v=-52.0, affinity=1.0, reset_v=-65.0, thresh_v=-48.0,
                       tc_membrane=20.0, tc_adaptation=(10.0,), voltage_coupling=(0.15,),
                       spike_increment=(0.5,), resistance=1.0),
    "EIF": dict(rest_v=-60.0, rheobase_v=-52.0, sharpness=1.0, reset_v=-65.0, thresh_v=-45.0,
                time_constant=20.0, resistance=1.0),
    "AdEx": dict(rest_v=-60.0, rheobase_v=-52.0, sharpness=1.0, reset_v=-65.0, thresh_v=-45.0,
                 tc_membrane=20.0, tc_adaptation=(10.0,), voltage_coupling=(0.15,),
                 spike_increment=(0.5,), resistance=1.0),
}
NEURONS = list(NEURON_KW)
ADAPTIVE = {"ALIF", "GLIF2", "Izhikevich", "AdEx"}
SYNAPSES = ["DeltaCurrent", "DeltaPlusCurrent", "SingleExponentialCurrent", "DoubleExponentialCurrent"]


def make_neuron(cfg: dict, dt: float, batch: int):
    """cfg = {"cls", "shape", "refrac" (in steps, may be fractional), optional "kw" overrides}."""
    from inferno import neural as sn

    kw = dict(NEURON_KW[cfg["cls"]])
    kw.update(cfg.get("kw", {}))
    kw["refrac_t"] = cfg.get("refrac", 2) * dt
    if cfg["cls"] in ADAPTIVE and cfg.get("batch_reduction") == "sum":
        kw["batch_reduction"] = torch.sum
    return getattr(sn, cfg["cls"])(tuple(cfg["shape"]), dt, batch_size=batch, **kw)


def synapse_ctor(cfg: dict):
    """cfg = {"cls", "q", optional tau/tau_d/tau_r, interp, tol, cob, sob, inplace}."""
    from inferno import neural as sn

    cls = getattr(sn, cfg["cls"])
    common = dict(
        interp_tol=cfg.get("tol", 0.0),
        current_overbound=cfg.get("cob", 0.0),
        spike_overbound=cfg.get("sob", False),
        inplace=cfg.get("inplace", False),
    )
    if cfg["cls"] in ("DeltaCurrent", "DeltaPlusCurrent"):
        return cls.partialconstructor(cfg.get("q", 30.0), interp_mode=cfg.get("interp", "previous"), **common)
    if cfg["cls"] == "SingleExponentialCurrent":
        return cls.partialconstructor(cfg.get("q", 30.0), cfg.get("tau", 4.0),
                                      spike_interp_mode=cfg.get("interp", "previous"), **common)
    return cls.partialconstructor(cfg.get("q", 30.0), cfg.get("tau_d", 6.0), cfg.get("tau_r", 2.0),
                                  spike_interp_mode=cfg.get("interp", "previous"), **common)


def dyadic(seed: int, shape, lo: int = -8, hi: int = 24, denom: int = 8) -> np.ndarray:
    """Deterministic dyadic-grid array (multiples of 1/denom in [lo/denom, hi/denom])."""
    rng = np.random.Generator(np.random.PCG64(int(seed)))
    return rng.integers(lo, hi + 1, size=tuple(shape)).astype(np.float64) / denom


def make_connection(cfg: dict, dt: float, batch: int):
    """cfg = {"type": dense|direct|lateral|conv, geometry..., "syn": synapse cfg, "bias": bool,
    "delay": None | K (max delay in steps), "wseed", "dseed", optional "wmode", "delays": "hetero"|"homo"|"zero"}."""
    from inferno import neural as sn

    syn = synapse_ctor(cfg["syn"])
    K = cfg.get("delay")
    delay = None if K is None else K * dt
    kw = dict(synapse=syn, bias=cfg.get("bias", False), delay=delay, batch_size=batch)
    t = cfg["type"]
    if t == "dense":
        conn = sn.LinearDense(tuple(cfg["inshape"]), tuple(cfg["outshape"]), dt, **kw)
    elif t == "direct":
        conn = sn.LinearDirect(tuple(cfg["inshape"]), dt, **kw)
    elif t == "lateral":
        conn = sn.LinearLateral(tuple(cfg["inshape"]), dt, **kw)
    elif t == "conv":
        conn = sn.Conv2D(cfg["H"], cfg["W"], cfg["C"], cfg["F"], dt, tuple(cfg["k"]),
                         stride=tuple(cfg.get("stride", (1, 1))), padding=tuple(cfg.get("padding", (0, 0))),
                         dilation=tuple(cfg.get("dilation", (1, 1))), **kw)
    else:
        raise ValueError(t)
    wshape = tuple(conn.weight.shape)
    wmode = cfg.get("wmode", "dyadic")
    if wmode == "dyadic":
        w = dyadic(cfg.get("wseed", 0), wshape)
    elif wmode == "onehot":  # one non-zero per output row: no sum is formed
        w = np.zeros(wshape)
        flat = w.reshape(wshape[0], -1)
        rng = np.random.Generator(np.random.PCG64(int(cfg.get("wseed", 0))))
        for o in range(flat.shape[0]):
            flat[o, rng.integers(0, flat.shape[1])] = float(rng.integers(4, 24)) / 8
        w = flat.reshape(wshape)
    else:  # "real": arbitrary float32 weights
        rng = np.random.Generator(np.random.PCG64(int(cfg.get("wseed", 0))))
        w = rng.uniform(-1.0, 3.0, size=wshape)
    conn.weight = torch.tensor(w, dtype=torch.float32)
    if cfg.get("bias", False):
        conn.bias = torch.tensor(dyadic(cfg.get("wseed", 0) + 1, tuple(conn.bias.shape), -16, 16), dtype=torch.float32)
    if K is not None:
        dshape = tuple(conn.delay.shape)
        mode = cfg.get("delays", "hetero")
        rng = np.random.Generator(np.random.PCG64(int(cfg.get("dseed", 0))))
        if mode == "zero" or K == 0:
            ksteps = np.zeros(dshape, dtype=np.int64)
        elif mode == "homo":
            ksteps = np.full(dshape, int(rng.integers(0, K + 1)), dtype=np.int64)
        else:
            ksteps = rng.integers(0, K + 1, size=dshape)
        frac = np.zeros(dshape)
        if cfg.get("offgrid"):
            frac = np.where(ksteps < K, rng.choice([0.0, 0.25, 0.5, 0.75, 0.3], size=dshape), 0.0)
        conn.delay = torch.tensor((ksteps + frac) * dt, dtype=torch.float32)
    return conn


def conn_shapes(cfg: dict):
    """(input shape, output shape) without batch, from the configuration alone."""
    t = cfg["type"]
    if t == "dense":
        return tuple(cfg["inshape"]), tuple(cfg["outshape"])
    if t in ("direct", "lateral"):
        return tuple(cfg["inshape"]), tuple(cfg["inshape"])
    k, s = cfg["k"], cfg.get("stride", (1, 1))
    p, d = cfg.get("padding", (0, 0)), cfg.get("dilation", (1, 1))
    oh = math.floor((cfg["H"] + 2 * p[0] - d[0] * (k[0] - 1) - 1) / s[0] + 1)
    ow = math.floor((cfg["W"] + 2 * p[1] - d[1] * (k[1] - 1) - 1) / s[1] + 1)
    return (cfg["C"], cfg["H"], cfg["W"]), (cfg["F"], oh, ow)


def spikes_from(seed: int, steps: int, shape, rate: float = 0.4) -> np.ndarray:
    rng = np.random.Generator(np.random.PCG64(int(seed)))
    return rng.random(size=(steps,) + tuple(shape)) < rate


def module_state(module) -> dict:
    """All tensors of a module tree by qualified name: parameters, buffers, tensor/number extras."""
    out = {}
    for name, p in module.named_parameters():
        out["P:" + name] = p.detach().clone()
    for name, b in module.named_buffers():
        if b is not None:
            out["B:" + name] = b.detach().clone()
    for mname, m in module.named_modules():
        ex = getattr(m, "_extras", None)
        if isinstance(ex, dict):
            for k, v in ex.items():
                if isinstance(v, torch.Tensor):
                    out[f"X:{mname}.{k}"] = v.detach().clone()
                elif isinstance(v, (int, float, bool, str, type(None))):
                    out[f"X:{mname}.{k}"] = v
    return out


def states_equal(a: dict, b: dict):
    """-> (ok, first difference description)."""
    if set(a) != set(b):
        return False, f"state keys differ: only A {sorted(set(a) - set(b))[:5]}, only B {sorted(set(b) - set(a))[:5]}"
    for k in sorted(a):
        x, y = a[k], b[k]
        if isinstance(x, torch.Tensor):
            if not isinstance(y, torch.Tensor) or x.shape != y.shape or x.dtype != y.dtype:
                return False, f"{k}: shape/dtype {getattr(x, 'shape', None)}/{getattr(x, 'dtype', None)} vs {getattr(y, 'shape', None)}/{getattr(y, 'dtype', None)}"
            if not torch.equal(x, y):
                # NaN-aware
                if not torch.equal(torch.nan_to_num(x.double(), nan=12345.678), torch.nan_to_num(y.double(), nan=12345.678)):
                    d = (x.double() - y.double()).abs()
                    return False, f"{k}: tensors differ (max abs diff {float(torch.nan_to_num(d).max()):.6g})"
        elif x != y:
            return False, f"{k}: {x!r} != {y!r}"
    return True, ""

#!/venv/bin/python
"""Confirms a seeded change (not registered in MANIFEST):  tools/confirm_seed.py seeded/<name>
  1. fresh scratch worktree of /repo HEAD under /tmp; demo must PASS there
  2. apply patch.diff; package must compile; pinned test suite must pass (known-flaky tests ignored, failures re-run once)
  3. demo must FAIL with the patch
  4. every check named in meta.json["property"] is run against the patched copy (VERIF_REPO) -> detected / missed
Writes the outcome into meta.json["confirmation"] and removes the worktree.
"""
import json, os, shutil, subprocess, sys, time

sd = os.path.abspath(sys.argv[1])
name = os.path.basename(sd.rstrip("/"))
meta = json.load(open(os.path.join(sd, "meta.json")))
wt = f"/tmp/confirm_{name}"
here = os.path.dirname(os.path.dirname(os.path.abspath(__file__)))
run_checks = "--no-checks" not in sys.argv
base = json.load(open("/root/.vp/BASELINE.json"))
flaky = set(base.get("flaky", [])) | set(base.get("dropped_after_offline", []))
out = {"at": time.strftime("%Y-%m-%dT%H:%M:%S"), "repo_head": subprocess.run(["git", "-C", "/repo", "rev-parse", "--short", "HEAD"], capture_output=True, text=True).stdout.strip()}


def sh(cmd, **kw):
    return subprocess.run(cmd, capture_output=True, text=True, **kw)


def demo(env):
    d = meta["demo"]
    p = os.path.join(sd, d)
    if d.startswith("test_"):
        return sh(["/venv/bin/python", "-m", "pytest", "-q", "-x", "-p", "no:cacheprovider", p], env=env, cwd=wt)
    return sh(["/venv/bin/python", p], env=env, cwd=wt)


try:
    sh(["git", "-C", "/repo", "worktree", "remove", "--force", wt])
    r = sh(["git", "-C", "/repo", "worktree", "add", "--detach", wt, "HEAD"])
    assert r.returncode == 0, r.stderr
    env = dict(os.environ, PYTHONPATH=wt, PYTHONDONTWRITEBYTECODE="1", PYTHONHASHSEED="0")
    r = demo(env)
    out["demo_without_patch"] = "pass" if r.returncode == 0 else "FAIL"
    if r.returncode != 0:
        out["demo_without_patch_tail"] = (r.stdout + r.stderr)[-800:]
    r = sh(["git", "-C", wt, "apply", os.path.join(sd, "patch.diff")])
    out["patch_applies"] = r.returncode == 0
    assert r.returncode == 0, r.stderr
    r = sh(["/venv/bin/python", "-m", "compileall", "-q", os.path.join(wt, "inferno")], env=env)
    out["compiles"] = r.returncode == 0
    prev = meta.get("confirmation", {})
    demo_only = "--demo-only" in sys.argv and prev.get("suite_passes")
    if demo_only:
        # the pinned suite and the checks were already run for this patch: only the demonstration is repeated
        out["suite"], out["suite_passes"], out["checks"] = prev["suite"], True, prev.get("checks", {})
        out["note"] = "demo re-run after removing a worktree-path assertion from the submitted demo; suite/check results from the first confirmation"
        r = demo(env)
        out["demo_with_patch"] = "fail" if r.returncode != 0 else "PASSES (change not demonstrated)"
        out["demo_with_patch_tail"] = (r.stdout + r.stderr)[-600:]
        out["confirmed"] = bool(out["demo_without_patch"] == "pass" and out["compiles"] and out["demo_with_patch"] == "fail")
        raise AssertionError("demo-only")
    t0 = time.time()
    r = sh(["/venv/bin/python", "-m", "pytest", "-q", "-p", "no:cacheprovider", "--timeout=900", "-x" if False else "-q",
            f"--junitxml={wt}/junit.xml"], env=env, cwd=wt)
    import xml.etree.ElementTree as ET
    failed = []
    ntests = 0
    for tc in ET.parse(f"{wt}/junit.xml").getroot().iter("testcase"):
        ntests += 1
        if tc.find("failure") is not None or tc.find("error") is not None:
            failed.append(f"{tc.get('classname')}::{tc.get('name')}")
    real = [f for f in failed if f not in flaky]
    still = []
    for f in real:  # re-run once (suite uses unseeded random data)
        mod, rest = f.split("::", 1)
        parts = mod.split(".")
        # classname is module path [+ class]
        path = None
        for i in range(len(parts), 0, -1):
            cand = os.path.join(wt, *parts[:i]) + ".py"
            if os.path.exists(cand):
                path = cand + "".join("::" + p for p in parts[i:]) + "::" + rest
                break
        ok = 0
        for _ in range(3):
            rr = sh(["/venv/bin/python", "-m", "pytest", "-q", "-p", "no:cacheprovider", path], env=env, cwd=wt)
            ok += rr.returncode == 0
        if ok < 3:
            # is the test flaky on the pristine tree too? (un-apply the patch, run it 6 times, re-apply)
            sh(["git", "-C", wt, "apply", "-R", os.path.join(sd, "patch.diff")])
            pristine_fail = 0
            for _ in range(6):
                rr = sh(["/venv/bin/python", "-m", "pytest", "-q", "-p", "no:cacheprovider", path], env=env, cwd=wt)
                pristine_fail += rr.returncode != 0
            sh(["git", "-C", wt, "apply", os.path.join(sd, "patch.diff")])
            if pristine_fail == 0:
                still.append(f"{f} (passes {ok}/3 on re-run with the patch, 6/6 on the pristine tree)")
            else:
                out.setdefault("flaky_on_pristine", []).append(f"{f} (fails {pristine_fail}/6 on the pristine tree, passes {ok}/3 with the patch)")
    out["suite"] = {"tests": ntests, "failed_first_run": failed, "failed_not_flaky_after_rerun": still, "wall_s": round(time.time() - t0, 1)}
    out["suite_passes"] = not still and ntests > 800
    r = demo(env)
    out["demo_with_patch"] = "fail" if r.returncode != 0 else "PASSES (change not demonstrated)"
    out["demo_with_patch_tail"] = (r.stdout + r.stderr)[-600:]
    if run_checks:
        props = meta["property"] if isinstance(meta["property"], list) else [meta["property"]]
        out["checks"] = {}
        for pid in props + [p for p in meta.get("also_run", [])]:
            cenv = dict(os.environ, VERIF_REPO=wt, VERIF_NOWRITE="1", VERIF_SEED=os.environ.get("VERIF_SEED", "1"))
            t0 = time.time()
            r = sh([os.path.join(here, "vcheck"), pid, "quick"], env=cenv)
            lines = [l for l in r.stdout.splitlines() if l.startswith("VIOLATION") or l.startswith("  ")]
            out["checks"][pid] = {"exit": r.returncode, "detected": r.returncode == 1, "wall_s": round(time.time() - t0, 1),
                                  "first": lines[:2], "stderr_tail": r.stderr[-300:] if r.returncode not in (0, 1) else ""}
    out["confirmed"] = bool(out["demo_without_patch"] == "pass" and out["compiles"] and out["suite_passes"] and out["demo_with_patch"] == "fail")
except AssertionError as e:
    if str(e) != "demo-only":
        out["error"] = str(e)
        out["confirmed"] = False
finally:
    sh(["git", "-C", "/repo", "worktree", "remove", "--force", wt])
    shutil.rmtree(wt, ignore_errors=True)
meta["confirmation"] = out
json.dump(meta, open(os.path.join(sd, "meta.json"), "w"), indent=1)
print(json.dumps(out, indent=1))

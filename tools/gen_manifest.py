#!/venv/bin/python
"""Regenerates /verif/MANIFEST.json from the table below (single source of truth)."""
import json, os

HERE = os.path.dirname(os.path.dirname(os.path.abspath(__file__)))
ALL = [f"C{i:02d}" for i in range(1, 21)]

# property -> (technique, level text, level note, design ref)
CLAIMS = {}


def claim(pid, technique, text, note, ref):
    CLAIMS[pid] = (technique, text, note, ref)


exec(open(os.path.join(HERE, "tools", "claims.py")).read())

checks = []
for pid in ALL:
    if pid not in CLAIMS:
        continue
    tech, text, note, ref = CLAIMS[pid]
    checks.append({
        "property_id": pid,
        "quick_cmd": f"./vcheck {pid} quick",
        "thorough_cmd": f"./vcheck {pid} thorough",
        "evidence_file": f"evidence/{pid}.json",
        "replay_cmd_template": f"./vcheck {pid} --replay {{path}}",
        "engine": "hypothesis",
        "level_claimed": {"category": "exploration", "text": text, "design_ref": ref},
        "level_note": note,
        "technique": tech,
    })

manifest = {
    "version": 1,
    "setup_cmd": "./setup.sh",
    "hooks": {
        "guard": "INFERNO_VERIF",
        "enable": "no source hooks are needed: every property is observed through public API; checks import /repo's working tree directly (PYTHONPATH=/repo), INFERNO_VERIF=1 is exported by ./vcheck but read by nothing in /repo",
        "baseline_off_cmd": "cd /repo && /venv/bin/python -m pytest -ra -q -p no:cacheprovider --timeout=900 --continue-on-collection-errors",
        "source_commits": [],
        "add_only": True,
    },
    "engines": [
        {"name": "hypothesis", "path": "pbt/harness.py", "serves_properties": sorted(CLAIMS),
         "kind_free_text": "Hypothesis 6.168 generated cases (JSON-serialisable operation sequences / configurations / histories, whole case shrinks as one value) against independent reference models; seeded from VERIF_SEED, sharded over processes"},
        {"name": "exhaustive", "path": "pbt/harness.py", "serves_properties": [p for p in ("C01", "C08", "C13") if p in CLAIMS],
         "kind_free_text": "itertools enumeration of finite sub-domains inside the same harness (same oracle, same replay format)"},
    ],
    "checks": checks,
    "notes": "All checks: ./vcheck <ID> quick|thorough ; replay: ./vcheck <ID> --replay <file>. Known findings and fixed: records are in known_findings.json. DESIGN.md section 5 has one subsection per property.",
    "not_applicable": [
        {"property_id": pid, "reason": NOT_YET.get(pid, "check not built yet in this revision (planned, see DESIGN.md section 8); not claimed")}
        for pid in ALL if pid not in CLAIMS
    ],
}
with open(os.path.join(HERE, "MANIFEST.json"), "w") as f:
    json.dump(manifest, f, indent=1)
print("MANIFEST.json:", len(checks), "checks,", len(manifest["not_applicable"]), "not claimed")

#!/venv/bin/python
"""Re-runs the registered check(s) against a seeded change after a check was strengthened:
tools/recheck_seed.py seeded/C12-2 [seed]   -> meta.json["recheck"] = {...}"""
import json, os, shutil, subprocess, sys, tempfile, time
sd = os.path.abspath(sys.argv[1]); seed = sys.argv[2] if len(sys.argv) > 2 else "1"
here = os.path.dirname(os.path.dirname(os.path.abspath(__file__)))
meta = json.load(open(os.path.join(sd, "meta.json")))
tmp = tempfile.mkdtemp(prefix="recheck_", dir="/tmp")
try:
    shutil.copytree("/repo/inferno", os.path.join(tmp, "inferno"))
    subprocess.run(["patch", "-p1", "-s", "-d", tmp, "-i", os.path.join(sd, "patch.diff")], check=True)
    props = meta["property"] if isinstance(meta["property"], list) else [meta["property"]]
    out = {"at": time.strftime("%Y-%m-%dT%H:%M:%S"), "verif_head": subprocess.run(["git", "-C", here, "rev-parse", "--short", "HEAD"], capture_output=True, text=True).stdout.strip(), "seed": int(seed), "checks": {}}
    for pid in props:
        env = dict(os.environ, VERIF_REPO=tmp, VERIF_NOWRITE="1", VERIF_SEED=seed)
        t0 = time.time()
        r = subprocess.run([os.path.join(here, "vcheck"), pid, "quick"], env=env, capture_output=True, text=True)
        lines = [l for l in r.stdout.splitlines() if l.startswith("VIOLATION") or l.startswith("  ")]
        out["checks"][pid] = {"exit": r.returncode, "detected": r.returncode == 1, "wall_s": round(time.time() - t0, 1), "first": lines[:2]}
    meta["recheck"] = out
    json.dump(meta, open(os.path.join(sd, "meta.json"), "w"), indent=1)
    print(os.path.basename(sd), {k: v["detected"] for k, v in out["checks"].items()})
finally:
    shutil.rmtree(tmp, ignore_errors=True)

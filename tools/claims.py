# executed by gen_manifest.py; claim(pid, technique, level text, level note, design ref)
NOT_YET = {}
claim("C01",
      "model-based property testing: Hypothesis-generated operation sequences + exhaustive one-step enumeration vs a list-of-observations reference model",
      "Generated histories (<= 40/80 ops, N in 1..8, 6 storage kinds, 4 dtypes, scalar/tensor offsets, in/out-of-place) are applied to RecordTensor and to a pointer-free list model; after every operation all N slots, the returned tensors, pointer range and storage shape/dtype are compared. The inductive one-step form is enumerated exhaustively for N <= 3 (quick) / N <= 6 (thorough): every operation x every argument from every (N, pointer) state with distinct contents. Bounded exploration, no proof.",
      "Trusts: the reference model pbt/models/ring.py, torch indexing, CPU. Values are small half-integers (exact in every dtype). dtype promotion on the contiguous out-of-place writerange path is documented as 'may change' and not asserted.",
      "DESIGN.md section 5, C01")

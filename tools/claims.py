# executed by gen_manifest.py; claim(pid, technique, level text, level note, design ref)
NOT_YET = {}
claim("C01",
      "model-based property testing: Hypothesis-generated operation sequences + exhaustive one-step enumeration vs a list-of-observations reference model",
      "Generated histories (<= 40/80 ops, N in 1..8, 6 storage kinds, 4 dtypes, scalar/tensor offsets, in/out-of-place) are applied to RecordTensor and to a pointer-free list model; after every operation all N slots, the returned tensors, pointer range and storage shape/dtype are compared. The inductive one-step form is enumerated exhaustively for N <= 3 (quick) / N <= 6 (thorough): every operation x every argument from every (N, pointer) state with distinct contents. Bounded exploration, no proof.",
      "Trusts: the reference model pbt/models/ring.py, torch indexing, CPU. Values are small half-integers (exact in every dtype). dtype promotion on the contiguous out-of-place writerange path is documented as 'may change' and not asserted.",
      "DESIGN.md section 5, C01")
claim("C02",
      "model-based property testing: Hypothesis-generated ring states + select/insert operations vs ring model and an exact-rational time model with ambiguity band",
      "Each case builds a ring state with the pointer anywhere and applies 1-4 (thorough: up to 8) select/insert operations with scalar, per-element tensor and tensor+D times drawn from strata (exact grid, +-tol/2, +-2tol, quarter/half/arbitrary fractions, both range limits, outside), all 6 shipped interpolations and 8 extrapolations, tolerances 0..0.6dt, offsets 0..3, dt incl. non-representable 1.3/0.1/0.7. Oracle: documented grid predicate on exact rationals -> stored sample or interpolation of (older, newer, elapsed); insert writes exactly the addressed slots (all other slots bit-identical); out-of-range raises ValueError; insert->select round trip for matching pairs. Bounded random exploration.",
      "Trusts pbt/models/timeidx.py and ring.py. Elements within 8 ulp of the tolerance boundary / exactly half a step for nearest are counted ambiguous and skipped. Float storage only.",
      "DESIGN.md section 5, C02")
claim("C13",
      "model-based property testing: generated resize histories vs ring model + exhaustive (dt,duration,inclusive) size grid + generated reconstrain sequences vs a constraint-bookkeeping model",
      "temporal: records in generated ring states (any pointer/fill, 6 storage kinds incl. uninitialised) receive sequences of dt/duration/inclusive assignments interleaved with pushes and pointer moves; after each, recordsz equals the documented formula (and a freshly constructed record's size), read(k) is unchanged for k <= min(old,new) and zero beyond, uninitialised storage never raises. sizegrid: all 1860 (dt,duration) multiples of 0.1 up to 3.0 x inclusive, enumerated. constraints: generated add/edit/remove/assign sequences on ShapedTensor and RecordTensor (strict/non-strict, +/- dims, live on/off) against a bookkeeping model: reported valid => constraints hold, refused add has no side effects, removal never alters data, edits keep the tail / prepend zeros. Bounded exploration.",
      "Size formula accepted in exact-rational or float evaluation where they differ (counted ambiguous). Constraint dims for records restricted to observation dims.",
      "DESIGN.md section 5, C13")

import json, subprocess, sys, os
pid = sys.argv[1]
wt = f"/tmp/seed/{pid}"; out = f"/tmp/seed/{pid}_out"
subprocess.run(["git","-C","/repo","worktree","remove","--force",wt],capture_output=True)
r = subprocess.run(["git","-C","/repo","worktree","add","--detach",wt,"HEAD"],capture_output=True,text=True)
assert r.returncode==0, r.stderr
os.makedirs(out, exist_ok=True)
for l in open('/verif/properties.jsonl'):
    p = json.loads(l)
    if p['id']==pid: break
head = open('/tmp/seed/PROMPT_HEAD.txt').read().replace("{WT}",wt).replace("{OUT}",out).replace("{PID}",pid)
txt = head + f"Title: {p['title']}\nStatement: {p['statement']}\nQuantified over: {p['quantifier']['text']}\nWhy the existing tests cannot settle it: {p['why_tests_cant']}\nAnchored in files: {', '.join(p['anchors']['files'])}\nObservable at: {', '.join(p['anchors'].get('observe_at', []))}\n"
open(f"/tmp/seed/{pid}_prompt.txt","w").write(txt)
print(txt[-1500:])

import json, subprocess, sys, os, glob
pid = sys.argv[1]
wt = f"/tmp/seed/{pid}c"; out = f"/tmp/seed/{pid}c_out"
subprocess.run(["git","-C","/repo","worktree","remove","--force",wt],capture_output=True)
r = subprocess.run(["git","-C","/repo","worktree","add","--detach",wt,"HEAD"],capture_output=True,text=True)
assert r.returncode==0, r.stderr
os.makedirs(out, exist_ok=True)
for l in open('/verif/properties.jsonl'):
    p = json.loads(l)
    if p['id']==pid: break
prev = []
for d in sorted(glob.glob(f"/verif/seeded/{pid}-*")) + sorted(glob.glob(f"/tmp/seed/{pid}_out/[123]")) + sorted(glob.glob(f"/tmp/seed/{pid}b_out/[123]")):
    try:
        m = json.load(open(os.path.join(d, "meta.json")))
        t = m.get("title", "")
        if t and t not in prev: prev.append(t)
    except Exception: pass
head = open('/tmp/seed/PROMPT_HEAD.txt').read().replace("{WT}",wt).replace("{OUT}",out).replace("{PID}",pid)
extra = "\nNever run `git stash` (the stash is shared between worktrees); restore the pristine tree with `git -C " + wt + " checkout -- .`.\n"
extra += "\nAn earlier engineer already submitted the following changes for this property. Do NOT repeat them or close variants of them; find DIFFERENT mechanisms, code sites and triggering conditions (other operations, other classes covered by the property, other configuration corners, other cooperating sites):\n" + "".join(f"  - {t}\n" for t in prev) + "\n"
txt = head.replace("THE PROPERTY (", extra + "THE PROPERTY (") + f"Title: {p['title']}\nStatement: {p['statement']}\nQuantified over: {p['quantifier']['text']}\nWhy the existing tests cannot settle it: {p['why_tests_cant']}\nAnchored in files: {', '.join(p['anchors']['files'])}\nObservable at: {', '.join(p['anchors'].get('observe_at', []))}\n"
open(f"/tmp/seed/{pid}c_prompt.txt","w").write(txt)
print(pid, len(prev), "previous")

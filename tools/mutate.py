#!/venv/bin/python
"""Sensitivity harness (not registered in MANIFEST): copy /repo/inferno to a scratch dir,
apply one textual mutation, run a check against the copy (VERIF_REPO), delete the copy.

usage: tools/mutate.py <PROP> <relative file> <old> <new> [--legs a,b] [--count N] [--tier quick]
       tools/mutate.py <PROP> --patch file.diff [--legs a,b]
Exit 0 if the check reported a VIOLATION (mutation detected), 1 if it stayed green.
"""
import argparse, os, shutil, subprocess, sys, tempfile

ap = argparse.ArgumentParser()
ap.add_argument("prop")
ap.add_argument("file", nargs="?")
ap.add_argument("old", nargs="?")
ap.add_argument("new", nargs="?")
ap.add_argument("--patch")
ap.add_argument("--legs", default="")
ap.add_argument("--count", type=int, default=1)
ap.add_argument("--tier", default="quick")
ap.add_argument("--seed", default="1")
a = ap.parse_args()
here = os.path.dirname(os.path.dirname(os.path.abspath(__file__)))
tmp = tempfile.mkdtemp(prefix="mut_", dir="/tmp")
try:
    shutil.copytree("/repo/inferno", os.path.join(tmp, "inferno"))
    if a.patch:
        subprocess.run(["patch", "-p1", "-s", "-d", tmp, "-i", os.path.abspath(a.patch)], check=True)
    else:
        p = os.path.join(tmp, a.file)
        s = open(p).read()
        if s.count(a.old) < 1:
            print("MUTATION TARGET NOT FOUND", file=sys.stderr); sys.exit(3)
        s = s.replace(a.old, a.new, a.count)
        open(p, "w").write(s)
    env = dict(os.environ, VERIF_REPO=tmp, VERIF_SEED=a.seed, VERIF_NOWRITE="1")
    cmd = [os.path.join(here, "vcheck"), a.prop, a.tier] + (["--legs", a.legs] if a.legs else [])
    r = subprocess.run(cmd, env=env, capture_output=True, text=True)
    lines = [l for l in r.stdout.splitlines() if l.startswith(("VIOLATION", "  ", "["))]
    print("\n".join(lines[:8]))
    if r.returncode not in (0, 1):
        print(r.stderr[-2000:])
    print(f"exit={r.returncode} => {'DETECTED' if r.returncode == 1 else 'MISSED' if r.returncode == 0 else 'ERROR'}")
    sys.exit(0 if r.returncode == 1 else 1)
finally:
    shutil.rmtree(tmp, ignore_errors=True)

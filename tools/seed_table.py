#!/venv/bin/python
"""Prints the markdown table of seeded changes (DESIGN.md section 9.3) from seeded/*/meta.json."""
import glob, json, os
here = os.path.dirname(os.path.dirname(os.path.abspath(__file__)))
hist = json.load(open(os.path.join(here, "seeded", "history.json")))
print("| id | breaks | needs to manifest | confirmed | detected by (quick tier) | note |")
print("|---|---|---|---|---|---|")
for d in sorted(glob.glob(os.path.join(here, "seeded", "C*-*"))):
    sid = os.path.basename(d)
    m = json.load(open(os.path.join(d, "meta.json")))
    c = m.get("confirmation", {})
    det = ", ".join(f"{k}: {'DETECTED' if v.get('detected') else 'missed'}" for k, v in c.get("checks", {}).items()) or "-"
    conf = "yes" if c.get("confirmed") else "NO"
    rc = m.get("recheck", {}).get("checks")
    if rc:
        det += " -> after strengthening: " + ", ".join(f"{k}: {'DETECTED' if v.get('detected') else 'missed'}" for k, v in rc.items())
    title = (m.get("title") or "").replace("|", "/")
    needs = (m.get("needs") or "").replace("|", "/").replace("\n", " ")
    print(f"| {sid} | {title[:160]} | {needs[:220]} | {conf} | {det} | {hist.get(sid, '')} |")

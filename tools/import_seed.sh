#!/bin/sh
# tools/import_seed.sh C12 [suffix] [offset]: copy /tmp/seed/C12<suffix>_out/{1,2,3} into
# /verif/seeded/C12-{1+offset,...} and confirm each (scratch worktree, pinned suite, demo, checks)
PID="$1"; SUF="${2:-}"; OFF="${3:-0}"
for k in 1 2 3; do
  src="/tmp/seed/${PID}${SUF}_out/$k"
  [ -f "$src/patch.diff" ] || continue
  n=$((k + OFF))
  dst="/verif/seeded/${PID}-$n"
  mkdir -p "$dst"
  cp "$src/patch.diff" "$src/meta.json" "$dst/" 2>/dev/null
  cp "$src"/demo*.py "$src"/test_demo*.py "$dst/" 2>/dev/null
  /verif/tools/confirm_seed.py "$dst" > "$dst/confirm.log" 2>&1
  /venv/bin/python - "$dst" <<'PY'
import json,sys
m=json.load(open(sys.argv[1]+"/meta.json")); c=m["confirmation"]
print(sys.argv[1].split('/')[-1], "confirmed" if c.get("confirmed") else "NOT-CONFIRMED", {k:(v["detected"],v["exit"]) for k,v in c.get("checks",{}).items()}, "|", m.get("title","")[:90])
if not c.get("confirmed"): print("   ", {k:v for k,v in c.items() if k not in ("checks","demo_with_patch_tail")})
PY
done
